import Arp.Lemmas.Rem
import Arp.Lemmas.DbgOk
/-!
# C19 (overflow checks) — no machine-integer overflow in the arithmetic core

Property C19 demands that every public operation returns normally "in builds with debug assertions
and integer-overflow checks enabled as well as in release builds".  The Rust code computes exponents
in `i64` and shift amounts in `usize`/`u64`; the model computes in `Int`/`Nat`.  This file proves that
on canonical operands of a format with `2 ≤ e ≤ 62`, `2 ≤ p < 2^60` (`FitsI64`; in particular for
`e ≤ 61`, `p < 2^32`, `FitsI64.of_small`)

* every intermediate `i64` expression lies strictly inside `(-2^63, 2^63)` (`I64`), so no checked
  `+`, `-`, unary `-` can overflow and every `usize → i64` cast keeps its value;
* every `i64 → u64/usize` cast is applied to a non-negative value and every `usize` subtraction has
  a non-negative result, so the model's `Int.toNat`/`Nat` arithmetic is the machine arithmetic;
* every shift of a machine word is by less than 64.

For each Rust function there is a structure (`…Ok`) with one field per expression (the doc comment of
the structure is the table Rust line ↦ expression ↦ field), a general theorem with explicit range
hypotheses, and a corollary for canonical operands:

| Rust | expressions | general theorem | canonical operands |
|------|-------------|-----------------|--------------------|
| `get_bias`, `get_exp_bounds` | `BoundsOk` | `exp_bounds_in_i64` | (every fitting format) |
| `normalize`, `shift_significand_*` | `NormalizeOk` | `normalize_exps_in_i64(_gen)` | via each caller below |
| `add_or_sub_normals`, `add_sub` | `AddSubOk` | `addSub_exps_in_i64` | `add_no_overflow`, `add_call_ok` |
| `mul_normals`, `mul_with_rm` | `MulOk` | `mul_exps_in_i64` | `mul_no_overflow`, `mul_call_ok` |
| `align_mantissa`, `div_normals`, `div_with_rm` | `AlignOk`, `DivOk` | `align_exps_in_i64` | `div_no_overflow`, `div_call_ok` |
| `cast_with_rm`, `cast` | `CastOk` | — | `cast_no_overflow`, `cast_call_ok` |
| `from_bigint`, `from_u64`, `from_i64` | — | `fromBigint_no_overflow` | `fromU64_no_overflow` |
| `convert_normal_to_integer`, `to_i64` | `ToIntOk` | `toInt_exps_in_i64` | `toI64_no_overflow` |
| `trunc`, `round` | `TrimOk` | `trim_exps_in_i64` | `trunc_no_overflow`, `round_no_overflow` |
| `scale` | `ScaleOk` | — | `scale_no_overflow`, `scale_call_ok` |
| `rem` | `RemTopsOk`, `RemIterOk`, `RemLoopOk` | — | `rem_iter_no_overflow`, `remLoop_no_overflow`, `rem_no_overflow` |
| `powi` | `PowiLoopOk` | — | `powi_no_overflow` |
| `sqrt` | `SqrtLoopOk` | — | `sqrt_no_overflow` |
| `from_bits`, `as_native_float` | `FromBitsOk`, `AsNativeOk` | — | `fromBits_no_overflow`, `asNative_no_overflow` |

`core_no_overflow` bundles the corollaries for one format.  The width `e = 63` is the first for which
`get_exp_bounds` overflows (`1 << 63` is `i64::MIN`); `e ≤ 62` is needed (rather than the `e ≤ 61` of
the claim) because `sqrt` of an `e = 61` format iterates in an `e = 62` format.
`usize` is taken to be 64 bits wide (`amt as usize` of a `u64` is the identity).
-/
namespace Arp.C19
open Arp

/-! ### Vocabulary -/

/-- the mathematical integer `z` is an `i64` value, strictly inside the range (so that `-z`, the one
    unary operation on `i64`, cannot overflow either): the checked `i64` operation that produces it
    does not overflow, and a `usize`/`u64` value cast to `i64` (`as i64`) keeps its value. -/
abbrev I64 (z : Int) : Prop := -(2 ^ 63 : Int) < z ∧ z < 2 ^ 63

theorem I64.of_bounds {z : Int} (h1 : -(2 ^ 63 : Int) < z) (h2 : z < 2 ^ 63) : I64 z := ⟨h1, h2⟩

/-- facts about the exponent range of a format with `1 ≤ e ≤ 62`, in `omega`-friendly form -/
theorem range_small (s : Sem) (h1 : 1 ≤ s.e) (he : s.e ≤ 62) :
    -(2 ^ 61 : Int) < s.emin ∧ s.emin ≤ 1 ∧ 0 ≤ s.emax ∧ s.emax < 2 ^ 61 ∧ s.emin = 1 - s.emax := by
  rw [Sem.emax_eq h1, Sem.emin_eq]
  have hpow : 2 ^ (s.e - 1) ≤ 2 ^ 61 := Nat.pow_le_pow_right (by norm_num) (by omega)
  have hpos : 1 ≤ 2 ^ (s.e - 1) := Nat.one_le_two_pow
  generalize 2 ^ (s.e - 1) = t at *
  omega

/-- The formats covered by the theorems of this file: well formed (`2 ≤ e`, `2 ≤ p`), at most 62
    exponent bits and a precision below `2^60`.  (`e = 62` is included because `sqrt` works in
    `increase_exponent(1)` of its argument's format; the claim of C19 is for `e ≤ 61`, `p < 2^32`,
    see `FitsI64.of_small`.) -/
structure FitsI64 (s : Sem) : Prop where
  wf : s.WF
  e_le : s.e ≤ 62
  p_lt : s.p < 2 ^ 60

theorem FitsI64.of_small {s : Sem} (hF : s.WF) (he : s.e ≤ 61) (hp : s.p < 2 ^ 32) : FitsI64 s :=
  ⟨hF, by omega, lt_trans hp (by norm_num)⟩

/-- the exponent range and the precision of a fitting format, in `omega`-friendly form -/
theorem FitsI64.range {s : Sem} (h : FitsI64 s) :
    -(2 ^ 61 : Int) < s.emin ∧ s.emin ≤ 0 ∧ 1 ≤ s.emax ∧ s.emax < 2 ^ 61 ∧ s.emin = 1 - s.emax
      ∧ (2 : Int) ≤ (s.p : Int) ∧ (s.p : Int) < 2 ^ 60 := by
  obtain ⟨r1, _, _, r4, r5⟩ := range_small s (by have := h.wf.1; omega) h.e_le
  have := Sem.emin_le_zero h.wf
  have := Sem.emax_pos h.wf
  have h2 : (2 : Int) ≤ (s.p : Int) := by exact_mod_cast h.wf.2
  have h3 : (s.p : Int) < 2 ^ 60 := by exact_mod_cast h.p_lt
  exact ⟨r1, by omega, by omega, r4, r5, h2, h3⟩

/-- exponent and significand of a canonical normal value of a fitting format -/
theorem FitsI64.canon {x : Flt} (h : FitsI64 x.sem) (hx : x.cat = .normal) (hc : x.Canonical) :
    -(2 ^ 61 : Int) < x.exp ∧ x.exp < 2 ^ 61 ∧ x.sem.emin ≤ x.exp ∧ x.exp ≤ x.sem.emax
      ∧ 0 < x.mant ∧ x.mant < 2 ^ x.sem.p ∧ 1 ≤ msb x.mant ∧ msb x.mant ≤ x.sem.p := by
  obtain ⟨c1, c2, c3, c4, _⟩ := (Flt.canonical_normal hx).mp hc
  obtain ⟨r1, _, _, r4, _⟩ := h.range
  exact ⟨by omega, by omega, c1, c2, c3, c4, msb_pos (by omega), msb_le_of_lt c4⟩

/-! ### 1. `Semantics::get_bias` (float.rs:110-113), `Float::get_exp_bounds` (float.rs:347-352) -/

/-- Every integer expression of `get_bias` and `get_exp_bounds`:

| Rust | expression | field |
|------|------------|-------|
| float.rs:112 | `e - 1` (`usize`, checked) | `e_sub` |
| float.rs:112 | `1u64 << (e - 1)`: shift amount `< 64` (checked), value `2^(e-1)` | `shl_bias` |
| float.rs:112 | `(1u64 << (e - 1)) - 1` (`u64`, checked) | `sub_one` |
| float.rs:112 | `… as i64` keeps the value, which is the model's `Sem.bias` | `bias_cast`, `bias_eq` |
| float.rs:348 | `-self.get_bias()` | `neg_bias` |
| float.rs:348 | `-self.get_bias() + 1`, the model's `Sem.emin` | `emin`, `emin_eq` |
| float.rs:350 | `1 << e` at type `i64`: shift amount `< 64` (checked), value `2^e` (no wrap into the sign bit) | `shl_e` |
| float.rs:350 | `(1 << e) - bias` | `sub_bias` |
| float.rs:350 | `(1 << e) - bias - 2`, the model's `Sem.emax` | `emax`, `emax_eq` | -/
structure BoundsOk (s : Sem) : Prop where
  e_sub : 1 ≤ s.e
  shl_bias : s.e - 1 < 64
  sub_one : 1 ≤ 2 ^ (s.e - 1)
  bias_cast : I64 ((2 ^ (s.e - 1) - 1 : Nat) : Int)
  bias_eq : s.bias = ((2 ^ (s.e - 1) - 1 : Nat) : Int)
  neg_bias : I64 (-s.bias)
  emin : I64 (-s.bias + 1)
  emin_eq : s.emin = -s.bias + 1
  shl_e : s.e < 64 ∧ I64 ((2 ^ s.e : Nat) : Int)
  sub_bias : I64 (((2 ^ s.e : Nat) : Int) - s.bias)
  emax : I64 (((2 ^ s.e : Nat) : Int) - s.bias - 2)
  emax_eq : s.emax = ((2 ^ s.e : Nat) : Int) - s.bias - 2

/-- `get_bias` and `get_exp_bounds` cannot overflow for exponent widths `1 ≤ e ≤ 62`. -/
theorem exp_bounds_in_i64 (s : Sem) (h1 : 1 ≤ s.e) (he : s.e ≤ 62) : BoundsOk s := by
  have hpow : 2 ^ (s.e - 1) ≤ 2 ^ 61 := Nat.pow_le_pow_right (by norm_num) (by omega)
  have hpos : 1 ≤ 2 ^ (s.e - 1) := Nat.one_le_two_pow
  have h2e : 2 ^ s.e = 2 * 2 ^ (s.e - 1) := by
    obtain ⟨k, hk⟩ : ∃ k, s.e = k + 1 := ⟨s.e - 1, by omega⟩
    rw [hk, show k + 1 - 1 = k by omega, Nat.pow_succ]; ring
  have hb : s.bias = ((2 ^ (s.e - 1) - 1 : Nat) : Int) := by
    unfold Sem.bias; omega
  have hmin : s.emin = -s.bias + 1 := by unfold Sem.emin; ring
  have hmax : s.emax = ((2 ^ s.e : Nat) : Int) - s.bias - 2 := rfl
  have h2e' : ((2 ^ s.e : Nat) : Int) = 2 * ((2 ^ (s.e - 1) : Nat) : Int) := by rw [h2e]; push_cast; ring
  have hb' : s.bias = ((2 ^ (s.e - 1) : Nat) : Int) - 1 := rfl
  have hb'' : ((2 ^ (s.e - 1) - 1 : Nat) : Int) = ((2 ^ (s.e - 1) : Nat) : Int) - 1 := by omega
  have hpow' : ((2 ^ (s.e - 1) : Nat) : Int) ≤ 2 ^ 61 := by exact_mod_cast hpow
  have hpos' : (1 : Int) ≤ ((2 ^ (s.e - 1) : Nat) : Int) := by exact_mod_cast hpos
  refine ⟨h1, by omega, hpos, ?_, hb, ?_, ?_, hmin, ⟨by omega, ?_⟩, ?_, ?_, hmax⟩ <;>
    (unfold I64; omega)

/-- `e = 63` is the first width for which `get_exp_bounds` overflows: `1 << 63` is `i64::MIN`, and
    `i64::MIN - bias` is below the range (the mathematical value `2^63 - bias` the model computes is
    not what the machine has at that point). -/
example : ¬ I64 (((2 ^ (⟨63, 24, .nte⟩ : Sem).e : Nat) : Int)) := by decide

/-! ### 2. `Float::normalize` (float.rs:495-574) with `shift_significand_left/right` (457-467) -/

/-- `exp_change` as first computed, float.rs:507: `nmsb - self.sem.get_precision() as i64` -/
def expChange0 (x : Flt) : Int := (msb x.mant : Int) - (x.sem.p : Int)

/-- `exp_change` after the underflow clamp, float.rs:518-520 -/
def expChange (x : Flt) : Int :=
  if x.exp + expChange0 x < x.sem.emin then x.sem.emin - x.exp else expChange0 x

/-- Every integer expression evaluated by `x.normalize(rm, loss)` for a normal `x`
    (`s = x.sem`, `(emin, emax) = bounds`):

| Rust | expression | field |
|------|------------|-------|
| float.rs:500 | `self.get_exp_bounds()` (also in `overflow` 417 and `check_bounds` 450) | `bounds` |
| float.rs:502 | `self.mantissa.msb_index() as i64` (`usize → i64`) | `nmsb` |
| float.rs:507 | `self.sem.get_precision() as i64` | `prec` |
| float.rs:507 | `nmsb - precision` | `diff` |
| float.rs:510, 518 | `self.exp + exp_change` | `sum` |
| float.rs:519 | `bounds.0 - self.exp` (reached when 510 is false and 518 is true) | `clamp` |
| float.rs:525 | `-exp_change`, `… as u64` (reached when `exp_change < 0`) | `neg.1`, `neg.2.1` |
| float.rs:458 | `amt as i64`, `self.exp -= amt as i64` with `amt = -exp_change` | `neg.1`, `neg.2.2` |
| float.rs:531 | `exp_change as u64` (reached when `exp_change > 0`) | `shr.1` |
| float.rs:463 | `amt as i64`, `self.exp += amt as i64` with `amt = exp_change` | `shr.2` |
| float.rs:561-562, 463 | the carry step `self.exp += 1`, guarded by `self.exp < bounds.1` | `carry` |

`amt as usize` (459, 464) is the identity on 64-bit targets.  The bits of the `BigInt` shifts are the
subject of C09. -/
structure NormalizeOk (x : Flt) : Prop where
  bounds : BoundsOk x.sem
  nmsb : I64 (msb x.mant)
  prec : I64 x.sem.p
  diff : I64 (expChange0 x)
  sum : I64 (x.exp + expChange0 x)
  clamp : x.exp + expChange0 x ≤ x.sem.emax → x.exp + expChange0 x < x.sem.emin →
    I64 (x.sem.emin - x.exp)
  neg : x.exp + expChange0 x ≤ x.sem.emax → expChange x < 0 →
    I64 (-(expChange x)) ∧ 0 ≤ -(expChange x) ∧ I64 (x.exp - -(expChange x))
  shr : x.exp + expChange0 x ≤ x.sem.emax → 0 < expChange x →
    0 ≤ expChange x ∧ I64 (x.exp + expChange x)
  carry : ∀ e1 : Int, I64 e1 → e1 < x.sem.emax → I64 (e1 + 1)

/-- The model's `normalize` takes exactly the branches described by `expChange0`/`expChange` (so the
    table of `NormalizeOk` speaks about the quantities the model computes with). -/
theorem normalize_branches (x : Flt) (rm : RM) (l : Loss) (hx : x.cat = .normal) (hm : x.mant ≠ 0) :
    x.normalize rm l =
      if x.exp + expChange0 x > x.sem.emax then x.overflow rm
      else if expChange x < 0 then
        { x with exp := x.exp + expChange x, mant := x.mant <<< (expChange x).natAbs }
      else if expChange x > 0 then
        Flt.normalize.stepII rm
          { x with exp := x.exp + expChange x, mant := x.mant >>> (expChange x).toNat }
          (combineLoss (lossOfBits x.mant (expChange x).toNat) l)
      else Flt.normalize.stepII rm x l := by
  have hn : (0 : Int) < (msb x.mant : Int) := by exact_mod_cast msb_pos hm
  unfold Flt.normalize expChange expChange0
  simp only [hx, ne_eq, not_true_eq_false, if_false, gt_iff_lt, hn, if_true]

/-- **`normalize`**: no overflow, in the weakest form the callers need — the exponent, the
    significand's bit length and the precision are `i64` values and so is the first sum
    `exp + (nmsb - precision)`. -/
theorem normalize_exps_in_i64_gen (x : Flt) (hF : x.sem.WF) (he : x.sem.e ≤ 62)
    (hp : I64 x.sem.p) (hn : I64 (msb x.mant)) (hE : I64 x.exp)
    (hS : I64 (x.exp + ((msb x.mant : Int) - (x.sem.p : Int)))) : NormalizeOk x := by
  obtain ⟨r1, r2, r3, r4, r5⟩ := range_small x.sem (by have := hF.1; omega) he
  have hmin0 := Sem.emin_le_zero hF
  have hn0 : (0 : Int) ≤ (msb x.mant : Int) := Int.natCast_nonneg _
  have hp0 : (0 : Int) ≤ (x.sem.p : Int) := Int.natCast_nonneg _
  unfold I64 at *
  refine ⟨exp_bounds_in_i64 x.sem (by have := hF.1; omega) he, hn, hp, ?_, ?_, ?_, ?_, ?_, ?_⟩
  · unfold expChange0; omega
  · unfold expChange0; exact hS
  · unfold expChange0; intro _ _; omega
  · unfold expChange expChange0; intro _; split_ifs <;> intro _ <;> omega
  · unfold expChange expChange0; intro _; split_ifs <;> intro _ <;> omega
  · intro e1 _ _; omega

/-- **`normalize`**: no overflow when the exponent is within `±3·2^61` and the significand's bit
    length and the precision are below `2^61`. -/
theorem normalize_exps_in_i64 (x : Flt) (hF : x.sem.WF) (he : x.sem.e ≤ 62) (hp : x.sem.p < 2 ^ 61)
    (hexp : -(3 * 2 ^ 61 : Int) < x.exp ∧ x.exp < 3 * 2 ^ 61) (hm : msb x.mant < 2 ^ 61) :
    NormalizeOk x := by
  have hp' : (x.sem.p : Int) < 2 ^ 61 := by exact_mod_cast hp
  have hm' : (msb x.mant : Int) < 2 ^ 61 := by exact_mod_cast hm
  have hn0 : (0 : Int) ≤ (msb x.mant : Int) := Int.natCast_nonneg _
  have hp0 : (0 : Int) ≤ (x.sem.p : Int) := Int.natCast_nonneg _
  apply normalize_exps_in_i64_gen x hF he <;> (unfold I64; omega)

/-! ### 3. `add_or_sub_normals` (arithmetic.rs:19-90), `add_sub` (101-161) -/

/-- Every integer expression of `add_or_sub_normals(a, b, _)` (`bits = a.exp - b.exp`):

| Rust | expression | field |
|------|------------|-------|
| arithmetic.rs:31 | `a.get_exp() - b.get_exp()` | `bits` |
| arithmetic.rs:44 | `bits - 1`, `… as u64` (subtract, `bits > 0`) | `sub_gt.1`, `sub_gt.2.1` |
| float.rs:463 | `b.exp += (bits - 1) as i64` | `sub_gt.2.2.1` |
| arithmetic.rs:45, float.rs:458 | `a.shift_significand_left(1)`: `a.exp -= 1` | `sub_gt.2.2.2` |
| arithmetic.rs:48 | `-bits`, `-bits - 1`, `… as u64` (subtract, `bits < 0`) | `sub_lt.1`, `sub_lt.2.1`, `sub_lt.2.2.1` |
| float.rs:463 | `a.exp += (-bits - 1) as i64` | `sub_lt.2.2.2.1` |
| arithmetic.rs:49, float.rs:458 | `b.shift_significand_left(1)`: `b.exp -= 1` | `sub_lt.2.2.2.2` |
| arithmetic.rs:82 | `bits as u64` (add, `bits > 0`); float.rs:463 `b.exp += bits` | `add_gt` |
| arithmetic.rs:84 | `-bits`, `… as u64` (add, `bits ≤ 0`); float.rs:463 `a.exp += -bits` | `add_le` |

The result exponent (arithmetic.rs:74, 88) is one of the exponents above (`addOrSubNormals_shape`).
`add_sub` itself has no integer arithmetic; its `normalize` call is covered by `add_no_overflow`. -/
structure AddSubOk (a b : Flt) : Prop where
  bits : I64 (a.exp - b.exp)
  sub_gt : 0 < a.exp - b.exp →
    I64 (a.exp - b.exp - 1) ∧ 0 ≤ a.exp - b.exp - 1 ∧ I64 (b.exp + (a.exp - b.exp - 1)) ∧ I64 (a.exp - 1)
  sub_lt : a.exp - b.exp < 0 →
    I64 (-(a.exp - b.exp)) ∧ I64 (-(a.exp - b.exp) - 1) ∧ 0 ≤ -(a.exp - b.exp) - 1
      ∧ I64 (a.exp + (-(a.exp - b.exp) - 1)) ∧ I64 (b.exp - 1)
  add_gt : 0 < a.exp - b.exp → 0 ≤ a.exp - b.exp ∧ I64 (b.exp + (a.exp - b.exp))
  add_le : ¬ 0 < a.exp - b.exp →
    I64 (-(a.exp - b.exp)) ∧ 0 ≤ -(a.exp - b.exp) ∧ I64 (a.exp + -(a.exp - b.exp))

/-- `add_or_sub_normals`: no overflow when both exponents are within `±2^62`. -/
theorem addSub_exps_in_i64 (a b : Flt) (ha : -(2 : Int) ^ 62 < a.exp ∧ a.exp < 2 ^ 62)
    (hb : -(2 : Int) ^ 62 < b.exp ∧ b.exp < 2 ^ 62) : AddSubOk a b := by
  refine ⟨?_, ?_, ?_, ?_, ?_⟩ <;> (try intro _) <;> (unfold I64; omega)

theorem new_mant_ovf (s : Sem) (sg : Bool) (e : Int) (m : Nat) : (Flt.new s sg e m).mant = m := by
  unfold Flt.new; split_ifs with h <;> simp [Flt.zero, h]

theorem new_exp_ovf (s : Sem) (sg : Bool) (e : Int) (m : Nat) :
    (Flt.new s sg e m).exp = 0 ∨ (Flt.new s sg e m).exp = e := by
  unfold Flt.new; split_ifs <;> simp [Flt.zero]

/-- what `add_or_sub_normals` hands to `normalize`: the format of `a`, an exponent that is `0` (exact
    cancellation) or one of `a.exp`, `a.exp - 1`, `b.exp`, `b.exp - 1`, and a significand of at most
    `2·a.mant + 2·b.mant`. -/
theorem addOrSubNormals_shape (a b : Flt) (sub : Bool) :
    (addOrSubNormals a b sub).1.sem = a.sem ∧
    ((addOrSubNormals a b sub).1.exp = 0 ∨ (addOrSubNormals a b sub).1.exp = a.exp
      ∨ (addOrSubNormals a b sub).1.exp = a.exp - 1 ∨ (addOrSubNormals a b sub).1.exp = b.exp
      ∨ (addOrSubNormals a b sub).1.exp = b.exp - 1) ∧
    (addOrSubNormals a b sub).1.mant ≤ 2 * a.mant + 2 * b.mant := by
  refine ⟨addOrSubNormals_sem_dbg a b sub, ?_, ?_⟩
  · unfold addOrSubNormals
    simp only [Flt.shiftSigRight, Flt.shiftSigLeft]
    split_ifs <;> dsimp only <;> (rcases new_exp_ovf _ _ _ _ with h | h <;> rw [h]) <;> omega
  · have h1 := Nat.shiftRight_le b.mant (a.exp - b.exp - 1).toNat
    have h2 := Nat.shiftRight_le a.mant (-(a.exp - b.exp) - 1).toNat
    have h3 := Nat.shiftRight_le b.mant (a.exp - b.exp).toNat
    have h4 := Nat.shiftRight_le a.mant (-(a.exp - b.exp)).toNat
    have e1 : a.mant <<< 1 = 2 * a.mant := by rw [Nat.shiftLeft_eq]; ring
    have e2 : b.mant <<< 1 = 2 * b.mant := by rw [Nat.shiftLeft_eq]; ring
    unfold addOrSubNormals
    simp only [Flt.shiftSigRight, Flt.shiftSigLeft]
    by_cases hs : (sub ^^ (a.sign ^^ b.sign)) = true
    · rw [if_pos hs]
      by_cases h0 : a.exp - b.exp = 0
      · simp only [if_pos h0]
        split_ifs <;> rw [new_mant_ovf] <;> omega
      · simp only [if_neg h0]
        by_cases hg : a.exp - b.exp > 0
        · simp only [if_pos hg]
          generalize b.mant >>> (a.exp - b.exp - 1).toNat = t1 at *
          generalize a.mant <<< 1 = s1 at *
          split_ifs <;> rw [new_mant_ovf] <;> omega
        · simp only [if_neg hg]
          generalize a.mant >>> (-(a.exp - b.exp) - 1).toNat = t1 at *
          generalize b.mant <<< 1 = s1 at *
          split_ifs <;> rw [new_mant_ovf] <;> omega
    · rw [if_neg hs]
      split_ifs <;> rw [new_mant_ovf] <;> omega

/-- a significand below `2^k` has at most `k` bits, as an `Int` fact -/
theorem msb_int_le {m k : Nat} (h : m < 2 ^ k) : (msb m : Int) ≤ (k : Int) := by
  exact_mod_cast msb_le_of_lt h

/-- **`a ± b` on canonical normal operands** (`add_sub`, `add_with_rm`, `sub_with_rm`, operators
    `+`/`-`): neither `add_or_sub_normals` nor the `normalize` call on its result can overflow. -/
theorem add_no_overflow (a b : Flt) (sub : Bool) (hF : FitsI64 a.sem) (hs : b.sem = a.sem)
    (ha : a.Canonical) (hb : b.Canonical) (hca : a.cat = .normal) (hcb : b.cat = .normal) :
    AddSubOk a b ∧ NormalizeOk (addOrSubNormals a b sub).1 := by
  obtain ⟨a1, a2, _, _, _, a6, _, _⟩ := hF.canon hca ha
  obtain ⟨b1, b2, _, _, _, b6, _, _⟩ := FitsI64.canon (hs ▸ hF) hcb hb
  rw [hs] at b6
  obtain ⟨_, _, _, _, _, p2, p3⟩ := hF.range
  refine ⟨addSub_exps_in_i64 a b (by omega) (by omega), ?_⟩
  obtain ⟨s1, s2, s3⟩ := addOrSubNormals_shape a b sub
  have hm : (addOrSubNormals a b sub).1.mant < 2 ^ (a.sem.p + 2) := by
    rw [Nat.pow_add]; omega
  have hmsb := msb_int_le hm
  push_cast at hmsb
  apply normalize_exps_in_i64 _ (s1 ▸ hF.wf) (s1 ▸ hF.e_le)
  · rw [s1]; exact lt_trans hF.p_lt (by norm_num)
  · omega
  · have : ((msb (addOrSubNormals a b sub).1.mant : Nat) : Int) < 2 ^ 61 := by omega
    exact_mod_cast this

/-! ### 4a. `mul_normals` (arithmetic.rs:378-409), `mul_with_rm` (343-375) -/

/-- Every integer expression of `mul_normals(a, b, _)` (`p = precision`, `ab = a.mant * b.mant`):

| Rust | expression | field |
|------|------------|-------|
| arithmetic.rs:384 | `a.get_exp() + b.get_exp()` | `sum` |
| arithmetic.rs:397, float.rs:67 | `get_mantissa_len()` = `precision - 1` (`usize`, checked), `… as i64` | `mlen` |
| arithmetic.rs:397 | `exp -= mantissa_len as i64` | `exp1` |
| arithmetic.rs:401 | `first_non_zero - precision` (`usize`, guarded by `first_non_zero > precision`) | `bits.1` |
| arithmetic.rs:405 | `bits as i64`, `exp += bits as i64` | `bits.2` |

`mul_with_rm` has no integer arithmetic of its own; its `normalize` call is covered by
`mul_no_overflow`. -/
structure MulOk (a b : Flt) : Prop where
  sum : I64 (a.exp + b.exp)
  mlen : 1 ≤ a.sem.p ∧ I64 ((a.sem.p - 1 : Nat) : Int)
  exp1 : I64 (a.exp + b.exp - ((a.sem.p - 1 : Nat) : Int))
  bits : msb (a.mant * b.mant) > a.sem.p →
    a.sem.p ≤ msb (a.mant * b.mant) ∧ I64 ((msb (a.mant * b.mant) - a.sem.p : Nat) : Int)
      ∧ I64 (a.exp + b.exp - ((a.sem.p - 1 : Nat) : Int) + ((msb (a.mant * b.mant) - a.sem.p : Nat) : Int))

/-- `mul_normals`: no overflow when both exponents are within `±2^61`, the precision is below `2^60`
    and the product of the significands has at most `2^61` bits. -/
theorem mul_exps_in_i64 (a b : Flt) (ha : -(2 : Int) ^ 61 < a.exp ∧ a.exp < 2 ^ 61)
    (hb : -(2 : Int) ^ 61 < b.exp ∧ b.exp < 2 ^ 61) (hp1 : 1 ≤ a.sem.p) (hp : a.sem.p < 2 ^ 60)
    (hab : msb (a.mant * b.mant) < 2 ^ 61) : MulOk a b := by
  have hp' : (a.sem.p : Int) < 2 ^ 60 := by exact_mod_cast hp
  have hab' : (msb (a.mant * b.mant) : Int) < 2 ^ 61 := by exact_mod_cast hab
  refine ⟨?_, ⟨hp1, ?_⟩, ?_, fun h => ⟨by omega, ?_, ?_⟩⟩ <;> (unfold I64; omega)

/-- what `mul_normals` hands to `normalize` -/
theorem mulNormals_shape (a b : Flt) (sg : Bool) :
    (mulNormals a b sg).1.sem = a.sem ∧
    ((mulNormals a b sg).1.exp = 0
      ∨ (mulNormals a b sg).1.exp = a.exp + b.exp - ((a.sem.p - 1 : Nat) : Int)
      ∨ (msb (a.mant * b.mant) > a.sem.p ∧ (mulNormals a b sg).1.exp =
          a.exp + b.exp - ((a.sem.p - 1 : Nat) : Int) + ((msb (a.mant * b.mant) - a.sem.p : Nat) : Int))) ∧
    (mulNormals a b sg).1.mant ≤ a.mant * b.mant := by
  refine ⟨mulNormals_sem_dbg a b sg, ?_, ?_⟩
  · unfold mulNormals
    simp only
    split_ifs with h <;> dsimp only <;> (rcases new_exp_ovf _ _ _ _ with h' | h' <;> rw [h'])
    · exact Or.inl rfl
    · exact Or.inr (Or.inr ⟨h, rfl⟩)
    · exact Or.inl rfl
    · exact Or.inr (Or.inl rfl)
  · unfold mulNormals
    simp only
    split_ifs <;> dsimp only <;> rw [new_mant_ovf]
    exact Nat.shiftRight_le _ _

/-- the product of two significands below `2^p` has at most `2p` bits -/
theorem msb_mul_le {m n p : Nat} (hm : m < 2 ^ p) (hn : n < 2 ^ p) : msb (m * n) ≤ 2 * p := by
  apply msb_le_of_lt
  rw [two_mul, Nat.pow_add]
  exact Nat.mul_lt_mul'' hm hn

/-- **`a * b` on canonical normal operands** (`mul_with_rm`, operator `*`): neither `mul_normals`
    nor the `normalize` call on its result can overflow. -/
theorem mul_no_overflow (a b : Flt) (sg : Bool) (hF : FitsI64 a.sem) (hs : b.sem = a.sem)
    (ha : a.Canonical) (hb : b.Canonical) (hca : a.cat = .normal) (hcb : b.cat = .normal) :
    MulOk a b ∧ NormalizeOk (mulNormals a b sg).1 := by
  obtain ⟨a1, a2, _, _, _, a6, _, _⟩ := hF.canon hca ha
  obtain ⟨b1, b2, _, _, _, b6, _, _⟩ := FitsI64.canon (hs ▸ hF) hcb hb
  rw [hs] at b6
  obtain ⟨_, _, _, _, _, p2, p3⟩ := hF.range
  have hab := msb_mul_le a6 b6
  have hab' : (msb (a.mant * b.mant) : Int) ≤ 2 * (a.sem.p : Int) := by exact_mod_cast hab
  have hp1 : 1 ≤ a.sem.p := by have := hF.wf.2; omega
  refine ⟨mul_exps_in_i64 a b ⟨a1, a2⟩ ⟨b1, b2⟩ hp1 hF.p_lt (by have := hF.p_lt; omega), ?_⟩
  obtain ⟨s1, s2, s3⟩ := mulNormals_shape a b sg
  have hmsb : (msb (mulNormals a b sg).1.mant : Int) ≤ 2 * (a.sem.p : Int) := by
    have : (mulNormals a b sg).1.mant < 2 ^ (2 * a.sem.p) :=
      lt_of_le_of_lt s3 (by rw [two_mul, Nat.pow_add]; exact Nat.mul_lt_mul'' a6 b6)
    exact_mod_cast msb_le_of_lt this
  apply normalize_exps_in_i64 _ (s1 ▸ hF.wf) (s1 ▸ hF.e_le)
  · rw [s1]; exact lt_trans hF.p_lt (by norm_num)
  · rcases s2 with h | h | ⟨_, h⟩ <;> rw [h] <;> omega
  · have : ((msb (mulNormals a b sg).1.mant : Nat) : Int) < 2 ^ 61 := by omega
    exact_mod_cast this

/-! ### 4b. `align_mantissa` (float.rs:309-316), `div_normals` (arithmetic.rs:537-589), `div_with_rm` -/

/-- Every integer expression of `x.align_mantissa()`:

| Rust | expression | field |
|------|------------|-------|
| float.rs:311 | `get_precision() as i64`, `msb_index() as i64` | `prec`, `nmsb` |
| float.rs:311 | `precision - msb_index` | `bits` |
| float.rs:313 | `self.exp -= bits` (reached when `bits > 0`) | `exp.1` |
| float.rs:314 | `bits as usize` | `exp.2` | -/
structure AlignOk (x : Flt) : Prop where
  prec : I64 x.sem.p
  nmsb : I64 (msb x.mant)
  bits : I64 ((x.sem.p : Int) - (msb x.mant : Int))
  exp : (x.sem.p : Int) - (msb x.mant : Int) > 0 →
    I64 (x.exp - ((x.sem.p : Int) - (msb x.mant : Int))) ∧ 0 ≤ (x.sem.p : Int) - (msb x.mant : Int)

/-- Every integer expression of `div_normals(a, b)` (`a1`, `b1` the aligned operands):

| Rust | expression | field |
|------|------------|-------|
| arithmetic.rs:544-545 | `a.align_mantissa()`, `b.align_mantissa()` | `alignA`, `alignB` |
| arithmetic.rs:551 | `a.get_exp() - b.get_exp()` (after alignment) | `diff` |
| arithmetic.rs:558 | `exp -= 1` | `dec` |
| arithmetic.rs:565, float.rs:67 | `get_mantissa_len()` = `precision - 1` (`usize`, checked) | `mlen` |

`div_with_rm` has no integer arithmetic of its own; its `normalize` call is covered by
`div_no_overflow`. -/
structure DivOk (a b : Flt) : Prop where
  alignA : AlignOk a
  alignB : AlignOk b
  diff : I64 (a.alignMantissa.exp - b.alignMantissa.exp)
  dec : I64 (a.alignMantissa.exp - b.alignMantissa.exp - 1)
  mlen : 1 ≤ a.sem.p

theorem alignMantissa_exp_ovf (x : Flt) :
    x.alignMantissa.exp = if (x.sem.p : Int) - (msb x.mant : Int) > 0
      then x.exp - ((x.sem.p : Int) - (msb x.mant : Int)) else x.exp := by
  unfold Flt.alignMantissa; simp only; split_ifs <;> rfl

/-- `align_mantissa`: no overflow when the exponent is within `±2^62` and precision and bit length
    are below `2^61`. -/
theorem align_exps_in_i64 (x : Flt) (hx : -(2 : Int) ^ 62 < x.exp ∧ x.exp < 2 ^ 62)
    (hp : x.sem.p < 2 ^ 61) (hm : msb x.mant < 2 ^ 61) : AlignOk x := by
  have hp' : (x.sem.p : Int) < 2 ^ 61 := by exact_mod_cast hp
  have hm' : (msb x.mant : Int) < 2 ^ 61 := by exact_mod_cast hm
  refine ⟨?_, ?_, ?_, fun h => ⟨?_, ?_⟩⟩ <;> (try unfold I64) <;> omega

/-- what `div_normals` hands to `normalize` -/
theorem divNormals_shape (a b : Flt) :
    (divNormals a b).1.sem = a.sem ∧
    ((divNormals a b).1.exp = 0
      ∨ (divNormals a b).1.exp = a.alignMantissa.exp - b.alignMantissa.exp
      ∨ (divNormals a b).1.exp = a.alignMantissa.exp - b.alignMantissa.exp - 1) ∧
    (divNormals a b).1.mant ≤ (2 * a.alignMantissa.mant) <<< (a.sem.p - 1) := by
  refine ⟨divNormals_sem_dbg a b, ?_, ?_⟩
  · unfold divNormals
    simp only
    rcases new_exp_ovf a.sem (a.alignMantissa.sign ^^ b.alignMantissa.sign)
      (if a.alignMantissa.mant < b.alignMantissa.mant
        then a.alignMantissa.exp - b.alignMantissa.exp - 1
        else a.alignMantissa.exp - b.alignMantissa.exp)
      ((if a.alignMantissa.mant < b.alignMantissa.mant then a.alignMantissa.mant <<< 1
        else a.alignMantissa.mant) <<< (a.sem.p - 1) / b.alignMantissa.mant) with h | h
    · exact Or.inl h
    · rw [h]; split_ifs
      · exact Or.inr (Or.inr rfl)
      · exact Or.inr (Or.inl rfl)
  · unfold divNormals
    simp only
    rw [new_mant_ovf]
    refine le_trans (Nat.div_le_self _ _) ?_
    simp only [Nat.shiftLeft_eq]
    apply Nat.mul_le_mul_right
    split_ifs <;> omega

/-- **`a / b` on canonical normal operands** (`div_with_rm`, operator `/`): neither `div_normals`
    (with `align_mantissa`) nor the `normalize` call on its result can overflow. -/
theorem div_no_overflow (a b : Flt) (hF : FitsI64 a.sem) (hs : b.sem = a.sem)
    (ha : a.Canonical) (hb : b.Canonical) (hca : a.cat = .normal) (hcb : b.cat = .normal) :
    DivOk a b ∧ NormalizeOk (divNormals a b).1 := by
  obtain ⟨a1, a2, _, _, a5, a6, a7, a8⟩ := hF.canon hca ha
  obtain ⟨b1, b2, _, _, b5, b6, b7, b8⟩ := FitsI64.canon (hs ▸ hF) hcb hb
  rw [hs] at b8
  obtain ⟨_, _, _, _, _, p2, p3⟩ := hF.range
  have hp1 : 1 ≤ a.sem.p := by have := hF.wf.2; omega
  have a7' : (1 : Int) ≤ (msb a.mant : Int) := by exact_mod_cast a7
  have a8' : (msb a.mant : Int) ≤ (a.sem.p : Int) := by exact_mod_cast a8
  have b7' : (1 : Int) ≤ (msb b.mant : Int) := by exact_mod_cast b7
  have b8' : (msb b.mant : Int) ≤ (a.sem.p : Int) := by exact_mod_cast b8
  have hae := alignMantissa_exp_ovf a
  have hbe := alignMantissa_exp_ovf b
  rw [hs] at hbe
  have hA : a.exp - (a.sem.p : Int) < a.alignMantissa.exp ∧ a.alignMantissa.exp ≤ a.exp := by
    rw [hae]; split_ifs <;> omega
  have hB : b.exp - (a.sem.p : Int) < b.alignMantissa.exp ∧ b.alignMantissa.exp ≤ b.exp := by
    rw [hbe]; split_ifs <;> omega
  have hpa := hF.p_lt
  refine ⟨⟨align_exps_in_i64 a (by omega) (by omega) (by omega),
    align_exps_in_i64 b (by omega) (by rw [hs]; omega) (by omega), ?_, ?_, hp1⟩, ?_⟩
  · unfold I64; omega
  · unfold I64; omega
  obtain ⟨s1, s2, s3⟩ := divNormals_shape a b
  obtain ⟨_, _, _, m4, _⟩ := align_spec a (by omega) a6
  have hmsb : (msb (divNormals a b).1.mant : Int) ≤ 2 * (a.sem.p : Int) := by
    have : (divNormals a b).1.mant < 2 ^ (2 * a.sem.p) := by
      refine lt_of_le_of_lt s3 ?_
      rw [Nat.shiftLeft_eq, show 2 * a.sem.p = 1 + a.sem.p + (a.sem.p - 1) by omega, Nat.pow_add,
        Nat.pow_add]
      apply Nat.mul_lt_mul_of_pos_right _ (Nat.two_pow_pos _)
      omega
    exact_mod_cast msb_le_of_lt this
  apply normalize_exps_in_i64 _ (s1 ▸ hF.wf) (s1 ▸ hF.e_le)
  · rw [s1]; exact lt_trans hF.p_lt (by norm_num)
  · rcases s2 with h | h | h <;> rw [h] <;> omega
  · have : ((msb (divNormals a b).1.mant : Nat) : Int) < 2 ^ 61 := by omega
    exact_mod_cast this

/-! ### 5a. `cast_with_rm` (cast.rs:201-230), `from_bigint` (22-26), `from_u64` (16-18) -/

/-- Every integer expression of `x.cast_with_rm(tgt, _)` for a normal `x`:

| Rust | expression | field |
|------|------------|-------|
| cast.rs:215, 225, float.rs:67 | `self.get_mantissa_len()` = `precision - 1` (`usize`, checked), `… as i64` | `mlen_src` |
| cast.rs:215, 225, float.rs:67 | `to.get_mantissa_len()`, `… as i64` | `mlen_tgt` |
| cast.rs:215 | `exp_delta = self_mlen as i64 - to_mlen as i64` | `delta` |
| cast.rs:219 | `self.get_exp() - exp_delta` | `exp` | -/
structure CastOk (x : Flt) (tgt : Sem) : Prop where
  mlen_src : 1 ≤ x.sem.p ∧ I64 ((x.sem.p - 1 : Nat) : Int)
  mlen_tgt : 1 ≤ tgt.p ∧ I64 ((tgt.p - 1 : Nat) : Int)
  delta : I64 (((x.sem.p - 1 : Nat) : Int) - ((tgt.p - 1 : Nat) : Int))
  exp : I64 (x.exp - (((x.sem.p - 1 : Nat) : Int) - ((tgt.p - 1 : Nat) : Int)))

/-- **`cast` / `cast_with_rm` of a canonical normal value between fitting formats**: neither the
    exponent re-basing nor the `normalize` call in the target format can overflow. -/
theorem cast_no_overflow (x : Flt) (tgt : Sem) (hF : FitsI64 x.sem) (hT : FitsI64 tgt)
    (hx : x.cat = .normal) (hc : x.Canonical) :
    CastOk x tgt ∧
      NormalizeOk ⟨tgt, x.sign, x.exp - (((x.sem.p - 1 : Nat) : Int) - ((tgt.p - 1 : Nat) : Int)),
        x.mant, .normal⟩ := by
  obtain ⟨a1, a2, _, _, _, _, _, a8⟩ := hF.canon hx hc
  obtain ⟨_, _, _, _, _, p2, p3⟩ := hF.range
  obtain ⟨_, _, _, _, _, q2, q3⟩ := hT.range
  have a8' : (msb x.mant : Int) ≤ (x.sem.p : Int) := by exact_mod_cast a8
  have hp1 : 1 ≤ x.sem.p := by have := hF.wf.2; omega
  have hq1 : 1 ≤ tgt.p := by have := hT.wf.2; omega
  refine ⟨⟨⟨hp1, ?_⟩, ⟨hq1, ?_⟩, ?_, ?_⟩, ?_⟩
  · unfold I64; omega
  · unfold I64; omega
  · unfold I64; omega
  · unfold I64; omega
  · apply normalize_exps_in_i64 _ hT.wf hT.e_le
    · exact lt_trans hT.p_lt (by norm_num)
    · show -(3 * 2 ^ 61 : Int) < x.exp - _ ∧ x.exp - _ < 3 * 2 ^ 61
      omega
    · show msb x.mant < 2 ^ 61
      have := hF.p_lt; omega

/-- the public call `x.cast_with_rm(tgt, _)` / `x.cast(tgt)` for an operand of any category: only
    a normal operand reaches integer arithmetic -/
def CastCallOk (x : Flt) (tgt : Sem) : Prop :=
  x.cat = .normal →
    CastOk x tgt ∧
      NormalizeOk ⟨tgt, x.sign, x.exp - (((x.sem.p - 1 : Nat) : Int) - ((tgt.p - 1 : Nat) : Int)),
        x.mant, .normal⟩

theorem cast_call_ok (x : Flt) (tgt : Sem) (hF : FitsI64 x.sem) (hT : FitsI64 tgt) (hc : x.Canonical) :
    CastCallOk x tgt := fun hx => cast_no_overflow x tgt hF hT hx hc

/-- **`from_bigint(sem, v)`** (cast.rs:23: `sem.get_mantissa_len() as i64`, then `normalize`): no
    overflow for every `v` of fewer than `2^61` bits (a `BigInt` of `2^61` bits does not fit in memory). -/
theorem fromBigint_no_overflow (sem : Sem) (v : Nat) (hF : FitsI64 sem) (hv : msb v < 2 ^ 61) :
    (1 ≤ sem.p ∧ I64 ((sem.p - 1 : Nat) : Int)) ∧
      NormalizeOk (Flt.new sem false ((sem.p - 1 : Nat) : Int) v) := by
  obtain ⟨_, _, _, _, _, p2, p3⟩ := hF.range
  refine ⟨⟨by have := hF.wf.2; omega, by unfold I64; omega⟩, ?_⟩
  apply normalize_exps_in_i64 _ (by rw [Flt.new_sem]; exact hF.wf) (by rw [Flt.new_sem]; exact hF.e_le)
  · rw [Flt.new_sem]; exact lt_trans hF.p_lt (by norm_num)
  · rcases new_exp_ovf sem false ((sem.p - 1 : Nat) : Int) v with h | h <;> rw [h] <;> omega
  · rw [new_mant_ovf]; exact hv

theorem FP128_fitsI64 : FitsI64 FP128 := ⟨FP128_WF, by decide, by decide⟩

theorem msb_lt_of_lt_two_pow_64 {v : Nat} (hv : v < 2 ^ 64) : msb v < 2 ^ 61 :=
  lt_of_le_of_lt (msb_le_of_lt hv) (by norm_num)

/-- **`from_u64(sem, v)`** = `from_bigint(FP128, v).cast(sem)`: both steps are overflow-free.
    (`from_i64` is `from_u64` of `val.unsigned_abs()` / `val as u64`, which do not overflow.) -/
def FromU64Ok (sem : Sem) (v : Nat) : Prop :=
  NormalizeOk (Flt.new FP128 false ((FP128.p - 1 : Nat) : Int) v) ∧ CastCallOk (fromBigint FP128 v) sem

theorem fromU64_no_overflow (sem : Sem) (v : Nat) (hF : FitsI64 sem) (hv : v < 2 ^ 64) :
    FromU64Ok sem v := by
  refine ⟨(fromBigint_no_overflow FP128 v FP128_fitsI64 (msb_lt_of_lt_two_pow_64 hv)).2, ?_⟩
  obtain ⟨hc, hs⟩ := fromBigint_canonical FP128 v FP128_WF
  exact cast_call_ok _ sem (by rw [hs]; exact FP128_fitsI64) hF hc

/-! ### 5b. `convert_normal_to_integer` (cast.rs:139-163), `to_i64` (41-65) -/

/-- Every integer expression of `x.convert_normal_to_integer(_)`:

| Rust | expression | field |
|------|------------|-------|
| cast.rs:142, float.rs:67 | `get_mantissa_len()` = `precision - 1` (`usize`, checked), `… as i64` | `mlen` |
| cast.rs:142 | `i_exp = self.get_exp() - mantissa_len as i64` | `iexp` |
| cast.rs:146 | `-i_exp`, `… as usize` (reached when `i_exp < 0`) | `neg` |
| cast.rs:160 | `i_exp as usize` (reached when `i_exp ≥ 0`) | `pos` |

`to_i64` (cast.rs:41-65) adds only the comparison `exp >= 64`, casts of a value below `2^64`
(`as_u64() as i64`, by design two's complement) and a `wrapping_neg`; its result is `C08.toI64_range`. -/
structure ToIntOk (x : Flt) : Prop where
  mlen : 1 ≤ x.sem.p ∧ I64 ((x.sem.p - 1 : Nat) : Int)
  iexp : I64 (x.exp - ((x.sem.p - 1 : Nat) : Int))
  neg : x.exp - ((x.sem.p - 1 : Nat) : Int) < 0 →
    I64 (-(x.exp - ((x.sem.p - 1 : Nat) : Int))) ∧ 0 ≤ -(x.exp - ((x.sem.p - 1 : Nat) : Int))
  pos : ¬ x.exp - ((x.sem.p - 1 : Nat) : Int) < 0 → 0 ≤ x.exp - ((x.sem.p - 1 : Nat) : Int)

/-- `convert_normal_to_integer`: no overflow when the exponent is within `±2^62` and `1 ≤ p < 2^62`. -/
theorem toInt_exps_in_i64 (x : Flt) (hx : -(2 : Int) ^ 62 < x.exp ∧ x.exp < 2 ^ 62)
    (hp1 : 1 ≤ x.sem.p) (hp : x.sem.p < 2 ^ 62) : ToIntOk x := by
  have hp' : (x.sem.p : Int) < 2 ^ 62 := by exact_mod_cast hp
  refine ⟨⟨hp1, ?_⟩, ?_, fun h => ⟨?_, ?_⟩, fun h => ?_⟩ <;> (try unfold I64) <;> omega

/-- **`to_i64` / `convert_normal_to_integer` on a canonical normal value.** -/
theorem toI64_no_overflow (x : Flt) (hF : FitsI64 x.sem) (hx : x.cat = .normal) (hc : x.Canonical) :
    ToIntOk x := by
  obtain ⟨a1, a2, _⟩ := hF.canon hx hc
  exact toInt_exps_in_i64 x (by omega) (by have := hF.wf.2; omega) (lt_trans hF.p_lt (by norm_num))

/-! ### 5c. `trunc` (cast.rs:69-94), `round` (97-137) -/

/-- Every integer expression of `x.trunc()` and of `x.round()` for a normal `x`:

| Rust | expression | field |
|------|------------|-------|
| cast.rs:77, 89 (108, 125), float.rs:67 | `get_mantissa_len()` = `precision - 1` (`usize`, checked), `… as i64` | `mlen` |
| cast.rs:89 (125) | `self.get_mantissa_len() as i64 - exp` | `trim` |
| cast.rs:89 (125) | `… as usize` (reached when `exp ≤ mantissa_len`) | `cast` |

`round` continues with `t ± 1` (`round_no_overflow`). -/
structure TrimOk (x : Flt) : Prop where
  mlen : 1 ≤ x.sem.p ∧ I64 ((x.sem.p - 1 : Nat) : Int)
  trim : I64 (((x.sem.p - 1 : Nat) : Int) - x.exp)
  cast : ¬ x.exp > ((x.sem.p - 1 : Nat) : Int) → 0 ≤ ((x.sem.p - 1 : Nat) : Int) - x.exp

/-- `trunc`/`round` trim amount: no overflow when the exponent is within `±2^62` and `1 ≤ p < 2^62`. -/
theorem trim_exps_in_i64 (x : Flt) (hx : -(2 : Int) ^ 62 < x.exp ∧ x.exp < 2 ^ 62)
    (hp1 : 1 ≤ x.sem.p) (hp : x.sem.p < 2 ^ 62) : TrimOk x := by
  have hp' : (x.sem.p : Int) < 2 ^ 62 := by exact_mod_cast hp
  refine ⟨⟨hp1, ?_⟩, ?_, fun h => ?_⟩ <;> (try unfold I64) <;> omega

/-- **`trunc` on a canonical normal value.** -/
theorem trunc_no_overflow (x : Flt) (hF : FitsI64 x.sem) (hx : x.cat = .normal) (hc : x.Canonical) :
    TrimOk x := by
  obtain ⟨a1, a2, _⟩ := hF.canon hx hc
  exact trim_exps_in_i64 x (by omega) (by have := hF.wf.2; omega) (lt_trans hF.p_lt (by norm_num))

/-- `x.round()` for a normal `x`: the trim amount, and — when the truncated value `t` is not zero —
    the subtraction (negative `x`, cast.rs:133) or addition (cast.rs:135) `t ∓ 1` with its
    `normalize` call -/
def RoundOk (x : Flt) : Prop :=
  TrimOk x ∧
    ∀ t : Flt, t = Flt.new x.sem x.sign x.exp
        ((x.mant >>> (((x.sem.p - 1 : Nat) : Int) - x.exp).toNat)
          <<< (((x.sem.p - 1 : Nat) : Int) - x.exp).toNat) →
      t.cat = .normal →
      AddSubOk t (Flt.one x.sem false)
        ∧ NormalizeOk (addOrSubNormals t (Flt.one x.sem false) x.sign).1

/-- **`round` on a canonical normal value.** -/
theorem round_no_overflow (x : Flt) (hF : FitsI64 x.sem) (hx : x.cat = .normal) (hc : x.Canonical) :
    RoundOk x := by
  refine ⟨trunc_no_overflow x hF hx hc, fun t ht hn => ?_⟩
  have hts : t.sem = x.sem := by rw [ht, Flt.new_sem]
  have htc : t.Canonical := by rw [ht]; exact clearLow_canonical x _ _ hx hc
  exact add_no_overflow t (Flt.one x.sem false) x.sign (hts ▸ hF) (by rw [hts]; rfl) htc
    (Flt.one_canonical _ _ hF.wf) hn rfl

/-! ### 5d. `scale` (functions.rs:224-245) -/

/-- the clamped scale amount, functions.rs:235 -/
def scaleClamp (x : Flt) (k : Int) : Int := max (-x.sem.scaleSpan) (min x.sem.scaleSpan k)

/-- Every integer expression of `x.scale(k, _)` for a normal `x` and an arbitrary `k`:

| Rust | expression | field |
|------|------------|-------|
| functions.rs:233 | `self.get_exp_bounds()` | `bounds` |
| functions.rs:234 | `upper - lower` | `range` |
| functions.rs:234 | `get_precision() as i64`, `upper - lower + precision` | `prec`, `plus_p` |
| functions.rs:234 | `span = upper - lower + precision + 1` (the model's `Sem.scaleSpan`) | `span` |
| functions.rs:235 | `-span`; `i64::clamp(-span, span)` asserts `-span ≤ span` | `clamp` |
| functions.rs:240 | `self.get_exp() + scale` (clamped `scale`) | `exp` | -/
structure ScaleOk (x : Flt) (k : Int) : Prop where
  bounds : BoundsOk x.sem
  range : I64 (x.sem.emax - x.sem.emin)
  prec : I64 x.sem.p
  plus_p : I64 (x.sem.emax - x.sem.emin + (x.sem.p : Int))
  span : I64 x.sem.scaleSpan
  clamp : I64 (-x.sem.scaleSpan) ∧ -x.sem.scaleSpan ≤ x.sem.scaleSpan
  exp : I64 (x.exp + scaleClamp x k)

/-- **`scale(k, rm)` on a canonical normal value, for every `k`**: neither the clamp, nor the
    exponent sum, nor the `normalize` call can overflow (this subsumes `C10.scale_exp_in_i64`). -/
theorem scale_no_overflow (x : Flt) (k : Int) (hF : FitsI64 x.sem) (hx : x.cat = .normal)
    (hc : x.Canonical) :
    ScaleOk x k ∧ NormalizeOk (Flt.new x.sem x.sign (x.exp + scaleClamp x k) x.mant) := by
  obtain ⟨_, _, c1, c2, c5, _, c7, c8⟩ := hF.canon hx hc
  obtain ⟨r1, r2, r3, r4, r5, p2, p3⟩ := hF.range
  have c7' : (1 : Int) ≤ (msb x.mant : Int) := by exact_mod_cast c7
  have c8' : (msb x.mant : Int) ≤ (x.sem.p : Int) := by exact_mod_cast c8
  have hspan : x.sem.scaleSpan = x.sem.emax - x.sem.emin + (x.sem.p : Int) + 1 := rfl
  have hk1 : -x.sem.scaleSpan ≤ scaleClamp x k := le_max_left _ _
  have hk2 : scaleClamp x k ≤ x.sem.scaleSpan := max_le (by omega) (min_le_left _ _)
  have he1 : 1 ≤ x.sem.e := by have := hF.wf.1; omega
  refine ⟨⟨exp_bounds_in_i64 x.sem he1 hF.e_le, ?_, ?_, ?_, ?_, ⟨?_, ?_⟩, ?_⟩, ?_⟩
  · unfold I64; omega
  · unfold I64; omega
  · unfold I64; omega
  · unfold I64; omega
  · unfold I64; omega
  · omega
  · unfold I64; omega
  · have hne : x.mant ≠ 0 := by omega
    have hnew : Flt.new x.sem x.sign (x.exp + scaleClamp x k) x.mant
        = ⟨x.sem, x.sign, x.exp + scaleClamp x k, x.mant, .normal⟩ := by
      unfold Flt.new; rw [if_neg hne]
    rw [hnew]
    apply normalize_exps_in_i64_gen ⟨x.sem, x.sign, x.exp + scaleClamp x k, x.mant, .normal⟩ hF.wf hF.e_le <;>
      (unfold I64; dsimp only; omega)

/-! ### 5e. `rem` (functions.rs:249-292) -/

/-- Every integer expression of one iteration of the loop of `rem` (functions.rs:273-287):

| Rust | expression | field |
|------|------------|-------|
| functions.rs:276 | `msb_index() as i64`, `lhs.get_exp() + …` | `lhs_msb`, `lhs_top` |
| functions.rs:277 | `msb_index() as i64`, `rhs.get_exp() + …` | `rhs_msb`, `rhs_top` |
| functions.rs:278 | `scale = lhs_top - rhs_top` | `scale` |
| functions.rs:283 | `scale - 1` | `scale1` |

The calls `rhs.scale(scale, _)`, `rhs.scale(scale - 1, _)` and `lhs.sub(diff)` are covered by
`rem_iter_no_overflow`. -/
structure RemTopsOk (lhs rhs : Flt) : Prop where
  lhs_msb : I64 (msb lhs.mant)
  lhs_top : I64 (lhs.exp + (msb lhs.mant : Int))
  rhs_msb : I64 (msb rhs.mant)
  rhs_top : I64 (rhs.exp + (msb rhs.mant : Int))
  scale : I64 (lhs.exp + (msb lhs.mant : Int) - (rhs.exp + (msb rhs.mant : Int)))
  scale1 : I64 (lhs.exp + (msb lhs.mant : Int) - (rhs.exp + (msb rhs.mant : Int)) - 1)

/-- the scale amount of an iteration, functions.rs:278 -/
def remScale (lhs rhs : Flt) : Int :=
  lhs.exp + (msb lhs.mant : Int) - (rhs.exp + (msb rhs.mant : Int))

/-- everything one iteration of the loop of `rem` computes with machine integers -/
structure RemIterOk (lhs rhs : Flt) : Prop where
  tops : RemTopsOk lhs rhs
  scale0 : ScaleOk rhs (remScale lhs rhs) ∧
    NormalizeOk (Flt.new rhs.sem rhs.sign (rhs.exp + scaleClamp rhs (remScale lhs rhs)) rhs.mant)
  scale1 : ScaleOk rhs (remScale lhs rhs - 1) ∧
    NormalizeOk (Flt.new rhs.sem rhs.sign (rhs.exp + scaleClamp rhs (remScale lhs rhs - 1)) rhs.mant)
  sub : AddSubOk lhs (remD lhs rhs) ∧ NormalizeOk (addOrSubNormals lhs (remD lhs rhs) true).1

/-- **One iteration of the loop of `rem`** on positive canonical normal `lhs ≥ rhs`. -/
theorem rem_iter_no_overflow (F : Sem) (hF : FitsI64 F) (lhs rhs : Flt) (hl : RemPos F lhs)
    (hr : RemPos F rhs) (hle : rhs.mag ≤ lhs.mag) : RemIterOk lhs rhs := by
  have hFl : FitsI64 lhs.sem := by rw [hl.sem]; exact hF
  have hFr : FitsI64 rhs.sem := by rw [hr.sem]; exact hF
  obtain ⟨a1, a2, _, _, _, _, a7, a8⟩ := hFl.canon hl.cat hl.can
  obtain ⟨b1, b2, _, _, _, _, b7, b8⟩ := hFr.canon hr.cat hr.can
  obtain ⟨_, _, _, _, _, _, p3⟩ := hFl.range
  obtain ⟨_, _, _, _, _, _, q3⟩ := hFr.range
  have a8' : (msb lhs.mant : Int) ≤ (lhs.sem.p : Int) := by exact_mod_cast a8
  have b8' : (msb rhs.mant : Int) ≤ (rhs.sem.p : Int) := by exact_mod_cast b8
  have a7' : (0 : Int) ≤ (msb lhs.mant : Int) := Int.natCast_nonneg _
  have b7' : (0 : Int) ≤ (msb rhs.mant : Int) := Int.natCast_nonneg _
  obtain ⟨k, hd, _⟩ := rem_step F hF.wf lhs rhs hl hr hle
  refine ⟨⟨?_, ?_, ?_, ?_, ?_, ?_⟩, scale_no_overflow rhs _ hFr hr.cat hr.can,
    scale_no_overflow rhs _ hFr hr.cat hr.can,
    add_no_overflow lhs (remD lhs rhs) true hFl (by rw [hd.sem, hl.sem]) hl.can hd.can hl.cat hd.cat⟩
    <;> (unfold I64; omega)

/-- the integer computations of the whole loop of `rem`, iteration by iteration (same recursion as
    the model's `remLoop`) -/
def RemLoopOk : Nat → Flt → Flt → Prop
  | 0, _, _ => True
  | fuel + 1, lhs, rhs =>
    (lhs.ge rhs && lhs.isNormal) = true →
      RemIterOk lhs rhs ∧ RemLoopOk fuel (lhs.sub (remD lhs rhs)) rhs

/-- **The loop of `rem`**: every iteration is overflow-free, for any number of iterations. -/
theorem remLoop_no_overflow (F : Sem) (hF : FitsI64 F) (rhs : Flt) (hr : RemPos F rhs) :
    ∀ (fuel : Nat) (lhs : Flt), RemSt F lhs → RemLoopOk fuel lhs rhs := by
  intro fuel
  induction fuel with
  | zero => intro _ _; trivial
  | succ fuel ih =>
    intro lhs hl hc
    rw [Bool.and_eq_true] at hc
    obtain ⟨hge, hn⟩ := hc
    have hn' : lhs.cat = .normal := by simpa [Flt.isNormal] using hn
    have hlp := hl.pos_of_normal hn'
    rw [ge_iff_val_rem hF.wf hl hr.toSt, hr.val_eq, hlp.val_eq] at hge
    obtain ⟨k, hd, hdmag, hd1, hd2, _⟩ := rem_step F hF.wf lhs rhs hlp hr hge
    obtain ⟨hst, _⟩ := sub_exact_rem F hF.wf lhs (remD lhs rhs) lhs.sem.rm hlp hd hd1 hd2.le
    exact ⟨rem_iter_no_overflow F hF lhs rhs hlp hr hge, ih _ hst⟩

/-- **`x.rem(y)` on canonical finite non-zero operands of a fitting format**: the loop runs on
    `|x|` and `|y|` and none of its iterations can overflow. -/
theorem rem_no_overflow (x y : Flt) (fuel : Nat) (hF : FitsI64 x.sem) (hs : y.sem = x.sem)
    (hx : x.Canonical) (hy : y.Canonical) (hcx : x.cat = .normal) (hcy : y.cat = .normal) :
    RemLoopOk fuel x.abs (if y.sign then y.neg else y) := by
  have hr : RemPos x.sem (if y.sign then y.neg else y) := by
    split_ifs with h
    · exact ⟨hs, hy, hcy, by simp [Flt.neg, h]⟩
    · exact ⟨hs, hy, hcy, by simpa using h⟩
  exact remLoop_no_overflow x.sem hF _ hr fuel x.abs ⟨rfl, hx, Or.inr ⟨hcx, rfl⟩⟩

/-! ### 6. The public calls on operands of any category, and the loops built from them
(`powi`, functions.rs:9-36; `sqrt`, functions.rs:43-76) -/

/-- `add_with_rm(a, b, _)` (`sub = false`) / `sub_with_rm(a, b, _)` (`sub = true`): only the
    `(Normal, Normal)` row of the table reaches integer arithmetic -/
def AddCallOk (a b : Flt) (sub : Bool) : Prop :=
  a.cat = .normal → b.cat = .normal → AddSubOk a b ∧ NormalizeOk (addOrSubNormals a b sub).1

/-- `mul_with_rm(a, b, _)` -/
def MulCallOk (a b : Flt) : Prop :=
  a.cat = .normal → b.cat = .normal → MulOk a b ∧ NormalizeOk (mulNormals a b (a.sign ^^ b.sign)).1

/-- `div_with_rm(a, b, _)` -/
def DivCallOk (a b : Flt) : Prop :=
  a.cat = .normal → b.cat = .normal → DivOk a b ∧ NormalizeOk (divNormals a b).1

/-- `x.scale(k, _)` -/
def ScaleCallOk (x : Flt) (k : Int) : Prop :=
  x.cat = .normal → ScaleOk x k ∧ NormalizeOk (Flt.new x.sem x.sign (x.exp + scaleClamp x k) x.mant)

theorem add_call_ok (a b : Flt) (sub : Bool) (hF : FitsI64 a.sem) (hs : b.sem = a.sem)
    (ha : a.Canonical) (hb : b.Canonical) : AddCallOk a b sub :=
  fun hca hcb => add_no_overflow a b sub hF hs ha hb hca hcb

theorem mul_call_ok (a b : Flt) (hF : FitsI64 a.sem) (hs : b.sem = a.sem)
    (ha : a.Canonical) (hb : b.Canonical) : MulCallOk a b :=
  fun hca hcb => mul_no_overflow a b _ hF hs ha hb hca hcb

theorem div_call_ok (a b : Flt) (hF : FitsI64 a.sem) (hs : b.sem = a.sem)
    (ha : a.Canonical) (hb : b.Canonical) : DivCallOk a b :=
  fun hca hcb => div_no_overflow a b hF hs ha hb hca hcb

theorem scale_call_ok (x : Flt) (k : Int) (hF : FitsI64 x.sem) (hc : x.Canonical) : ScaleCallOk x k :=
  fun hx => scale_no_overflow x k hF hx hc

/-- the model takes exactly these kernels on the `(Normal, Normal)` row (so the `…CallOk`
    predicates speak about the calls the model makes) -/
theorem calls_unfold (a b : Flt) (sub : Bool) (rm : RM) (ha : a.cat = .normal) (hb : b.cat = .normal) :
    addSub a b sub rm =
        (let r := (addOrSubNormals a b sub).1.normalize rm (addOrSubNormals a b sub).2
         if r.isZero then r.setSign (rm == .neg) else r)
      ∧ mulWithRm a b rm =
        (mulNormals a b (a.sign ^^ b.sign)).1.normalize rm (mulNormals a b (a.sign ^^ b.sign)).2
      ∧ divWithRm a b rm = (divNormals a b).1.normalize rm (divNormals a b).2 := by
  refine ⟨?_, ?_, ?_⟩ <;> simp [addSub, mulWithRm, divWithRm, ha, hb]

theorem FitsI64.increasePrecision {s : Sem} (h : FitsI64 s) (k : Nat) (hk : s.p + k < 2 ^ 60) :
    FitsI64 (s.increasePrecision k) :=
  ⟨Sem.increasePrecision_WF h.wf k, h.e_le, hk⟩

theorem FitsI64.withRm {s : Sem} (h : FitsI64 s) (rm : RM) : FitsI64 (s.withRm rm) := ⟨h.wf, h.e_le, h.p_lt⟩

theorem FitsI64.increaseExponent {s : Sem} (h : FitsI64 s) (he : s.e ≤ 61) : FitsI64 (s.increaseExponent 1) :=
  ⟨Sem.increaseExponent_WF h.wf 1, by simp only [Sem.increaseExponent]; omega, h.p_lt⟩

/-- the multiplications of the loop of `powi` (same recursion as the model's `powiLoop`;
    `n & 1`, `n >>= 1` on the `u64` counter cannot overflow) -/
def PowiLoopOk : Nat → Nat → Flt → Flt → Prop
  | 0, _, _, _ => True
  | fuel + 1, n, elem, val =>
    n ≠ 0 →
      (n % 2 = 1 → MulCallOk elem val) ∧ MulCallOk val val ∧
        PowiLoopOk fuel (n / 2) (if n % 2 = 1 then elem.mul val else elem) (val.mul val)

theorem powiLoop_no_overflow (s : Sem) (hF : FitsI64 s) :
    ∀ (fuel n : Nat) (elem val : Flt), elem.Canonical → val.Canonical → elem.sem = s → val.sem = s →
      PowiLoopOk fuel n elem val := by
  intro fuel
  induction fuel with
  | zero => intro _ _ _ _ _ _ _; trivial
  | succ fuel ih =>
    intro n elem val he hv hes hvs _
    have hFe : FitsI64 elem.sem := by rw [hes]; exact hF
    have hFv : FitsI64 val.sem := by rw [hvs]; exact hF
    have hm := mul_canonical elem val hFe.wf
    have hvv := mul_canonical val val hFv.wf
    refine ⟨fun _ => mul_call_ok elem val hFe (by rw [hes, hvs]) he hv,
      mul_call_ok val val hFv rfl hv hv, ?_⟩
    apply ih
    · split_ifs
      · exact hm.1
      · exact he
    · exact hvv.1
    · split_ifs
      · exact hm.2.trans hes
      · exact hes
    · exact hvv.2.trans hvs

/-- **`x.powi(n)`**: the cast into the working format (two more bits), every multiplication of the
    loop, and the cast back. -/
theorem powi_no_overflow (x : Flt) (n : Nat) (hF : FitsI64 x.sem) (hp : x.sem.p + 2 < 2 ^ 60)
    (hx : x.Canonical) :
    let sem := (x.sem.increasePrecision 2).withRm (powiInnerRm x.sem.rm)
    CastCallOk x sem ∧ PowiLoopOk 64 n (Flt.one sem false) (x.cast sem) ∧
      CastCallOk (powiLoop 64 n (Flt.one sem false) (x.cast sem)) x.sem := by
  intro sem
  have hS : FitsI64 sem := (hF.increasePrecision 2 hp).withRm _
  have hc := cast_canonical x sem hS.wf hx
  have hl := powiLoop_canonical 64 n (Flt.one sem false) (x.cast sem) sem hS.wf
    (Flt.one_canonical _ _ hS.wf) rfl hc.2
  exact ⟨cast_call_ok x sem hF hS hx,
    powiLoop_no_overflow sem hS 64 n _ _ (Flt.one_canonical _ _ hS.wf) hc.1 rfl hc.2,
    cast_call_ok _ x.sem (by rw [hl.2]; exact hS) hF hl.1⟩

/-- the calls of the Newton loop of `sqrt` (same recursion as the model's `sqrtLoop`) -/
def SqrtLoopOk (sem : Sem) : Nat → Flt → Flt → Flt → Prop
  | 0, _, _, _ => True
  | fuel + 1, target, x, prev =>
    DivCallOk target x ∧ AddCallOk x (target.div x) false ∧
      ScaleCallOk (x.add (target.div x)) (-1) ∧
      (if prev.lt ((x.add (target.div x)).scale (-1) .nte)
            || ((x.add (target.div x)).scale (-1) .nte).beq prev
        then CastCallOk ((x.add (target.div x)).scale (-1) .nte) sem
        else SqrtLoopOk sem fuel target ((x.add (target.div x)).scale (-1) .nte)
          ((x.add (target.div x)).scale (-1) .nte))

theorem sqrtLoop_no_overflow (sem W : Sem) (hS : FitsI64 sem) (hW : FitsI64 W) :
    ∀ (fuel : Nat) (target x prev : Flt), target.Canonical → x.Canonical → target.sem = W →
      x.sem = W → SqrtLoopOk sem fuel target x prev := by
  intro fuel
  induction fuel with
  | zero => intro _ _ _ _ _ _ _; trivial
  | succ fuel ih =>
    intro target x prev ht hx hts hxs
    have hFt : FitsI64 target.sem := by rw [hts]; exact hW
    have hFx : FitsI64 x.sem := by rw [hxs]; exact hW
    have hd := div_canonical target x hFt.wf
    have ha := add_canonical x (target.div x) hFx.wf (by rw [hd.2, hts, hxs]) hx hd.1
    have hFa : FitsI64 (x.add (target.div x)).sem := by rw [ha.2]; exact hFx
    have hsc := scale_canonical (x.add (target.div x)) (-1) .nte hFa.wf ha.1
    have hsem : ((x.add (target.div x)).scale (-1) .nte).sem = W := hsc.2.trans (ha.2.trans hxs)
    refine ⟨div_call_ok target x hFt (by rw [hts, hxs]) ht hx,
      add_call_ok x (target.div x) false hFx (by rw [hd.2, hts, hxs]) hx hd.1,
      scale_call_ok _ (-1) hFa ha.1, ?_⟩
    split_ifs
    · exact cast_call_ok _ sem (by rw [hsem]; exact hW) hS hsc.1
    · exact ih target _ _ ht hsc.1 hts hsem

/-- **`x.sqrt()`** for a canonical `x` of a fitting format with at most 61 exponent bits: the cast
    into the wider format (`increase_exponent(1)`, at most 62 exponent bits), `from_u64(wide, 2)`,
    and every call of every iteration of the Newton loop (for any number of iterations). -/
theorem sqrt_no_overflow (x : Flt) (fuel : Nat) (hF : FitsI64 x.sem) (he : x.sem.e ≤ 61)
    (hx : x.Canonical) :
    let wide := x.sem.increaseExponent 1
    let target := x.castWithRm wide .zero
    let two := fromU64 wide 2
    let x0 := if target.lt two then two else target
    CastCallOk x wide ∧ FromU64Ok wide 2 ∧ SqrtLoopOk x.sem fuel target x0 x0 := by
  intro wide target two x0
  have hW : FitsI64 wide := hF.increaseExponent he
  have h2 := fromU64_canonical wide 2 hW.wf
  have ht := castWithRm_canonical x wide .zero hW.wf hx
  have h0 : x0.Canonical ∧ x0.sem = wide := by
    show (if target.lt two then two else target).Canonical ∧ (if target.lt two then two else target).sem = wide
    split_ifs
    · exact h2
    · exact ht
  exact ⟨cast_call_ok x wide hF hW hx, fromU64_no_overflow wide 2 hW (by norm_num),
    sqrtLoop_no_overflow x.sem wide hF hW fuel target x0 x0 ht.1 h0.1 ht.2 h0.2⟩

/-! ### 7. `from_bits` (cast.rs:165-198), `as_native_float` (236-274), `utils::mask`
(private; reached with `FP32`/`FP64` only: `from_f32`, `from_f64`, `as_f32`, `as_f64`) -/

/-- Every integer expression of `from_bits(sem, float)` (`biased` = the exponent field):

| Rust | expression | field |
|------|------------|-------|
| cast.rs:167, 174, 190 | `float >> mlen`, `mask(mlen)` = `(1 << mlen) - 1`, `1u64 << mlen`: shift amounts `< 64` | `shl_mlen` |
| cast.rs:168, 179 | `mask(e)` = `(1 << e) - 1`: shift amount `< 64` | `shl_e` |
| cast.rs:172 | `float >> (e + mlen)`: `usize` sum, shift amount `< 64` | `shr_sign` |
| cast.rs:169 | `(… & mask(e)) as i64` keeps the value | `field` |
| cast.rs:186 | `biased_exp - sem.get_bias()` | `exp` |
| cast.rs:190 | `mantissa += 1u64 << mlen` (`mantissa < 2^mlen`): below `2^64` | `implicit` |
| cast.rs:193 | `exp += 1` | `exp1` | -/
structure FromBitsOk (sem : Sem) (biased : Nat) : Prop where
  shl_mlen : sem.p - 1 < 64
  shl_e : sem.e < 64
  shr_sign : sem.e + (sem.p - 1) < 64
  field : I64 (biased : Int)
  exp : I64 ((biased : Int) - sem.bias)
  implicit : 2 ^ (sem.p - 1) + 2 ^ (sem.p - 1) ≤ 2 ^ 64
  exp1 : I64 ((biased : Int) - sem.bias + 1)

/-- `from_bits`: no overflow for every format whose encoding fits in 64 bits (`e + p ≤ 64`). -/
theorem fromBits_no_overflow (sem : Sem) (biased : Nat) (hF : FitsI64 sem) (h64 : sem.e + sem.p ≤ 64)
    (hb : biased < 2 ^ sem.e) : FromBitsOk sem biased := by
  have he1 : 1 ≤ sem.e := by have := hF.wf.1; omega
  have hB := exp_bounds_in_i64 sem he1 hF.e_le
  obtain ⟨_, _, _, r4, _⟩ := range_small sem he1 hF.e_le
  have hbias : sem.bias = sem.emax := by rw [Sem.emax_eq he1]; rfl
  have hp2 := hF.wf.2
  have hbI : (biased : Int) < ((2 ^ sem.e : Nat) : Int) := by exact_mod_cast hb
  have h2e := hB.shl_e.2
  have hpow : 2 ^ (sem.p - 1) + 2 ^ (sem.p - 1) ≤ 2 ^ 64 := by
    rw [← two_mul, ← Nat.pow_succ']
    exact Nat.pow_le_pow_right (by norm_num) (by omega)
  unfold I64 at h2e
  refine ⟨by omega, by omega, by omega, ?_, ?_, hpow, ?_⟩ <;> (unfold I64; omega)

example (biased : Nat) (hb : biased < 2 ^ 8) : FromBitsOk FP32 biased :=
  fromBits_no_overflow FP32 biased (FitsI64.of_small (by decide) (by decide) (by decide)) (by decide) hb

example (biased : Nat) (hb : biased < 2 ^ 11) : FromBitsOk FP64 biased :=
  fromBits_no_overflow FP64 biased (FitsI64.of_small (by decide) (by decide) (by decide)) (by decide) hb

/-- Every integer expression of `x.as_native_float()` for a normal `x`:

| Rust | expression | field |
|------|------------|-------|
| cast.rs:243, 247, 263 | `mask(e)`, `mask(mlen)`: shift amounts `< 64` | `shl` |
| cast.rs:246 | `mlen - 1` (`usize`, checked), `1 << (mlen - 1)` | `nan_bit` |
| cast.rs:254 | `self.get_exp() + self.get_bias()` | `biased` |
| cast.rs:254 | `… as u64` (and `debug_assert!(exp > 0)`) | `biased_pos` |
| cast.rs:260, 268, 270, 271 | `m >> mlen`, `bits <<= e`, `bits <<= mlen`, `1 << mlen`: shift amounts `< 64`; the assembled word `sign·2^(e+mlen) + …` is below `2^64` | `word` | -/
structure AsNativeOk (x : Flt) : Prop where
  shl : x.sem.e < 64 ∧ x.sem.p - 1 < 64
  nan_bit : 1 ≤ x.sem.p - 1
  biased : I64 (x.exp + x.sem.bias)
  biased_pos : 0 < x.exp + x.sem.bias
  word : 1 + x.sem.e + (x.sem.p - 1) ≤ 64

/-- `as_native_float` on a canonical normal value of a format whose encoding fits in 64 bits. -/
theorem asNative_no_overflow (x : Flt) (hF : FitsI64 x.sem) (h64 : x.sem.e + x.sem.p ≤ 64)
    (hx : x.cat = .normal) (hc : x.Canonical) : AsNativeOk x := by
  have he1 : 1 ≤ x.sem.e := by have := hF.wf.1; omega
  obtain ⟨a1, a2, _⟩ := hF.canon hx hc
  obtain ⟨_, _, r3, r4, _⟩ := range_small x.sem he1 hF.e_le
  have hbias : x.sem.bias = x.sem.emax := by rw [Sem.emax_eq he1]; rfl
  have hp2 := hF.wf.2
  exact ⟨⟨by omega, by omega⟩, by omega, by unfold I64; omega, biased_exp_pos x hx hc, by omega⟩

/-! ### 8. `BigInt::get_loss_kind_for_bit` (bigint.rs:209-227): the one `usize` subtraction on a
shift amount inside `BigInt` -/

/-- bigint.rs:221 `bit - 1` is reached only when the bits below `bit` are not all zero, hence
    `bit ≥ 1` (for `bit = 0` the masked copy is zero and the function has returned `ExactlyZero`). -/
theorem loss_bit_sub_guard (m bits : Nat) (h : m % 2 ^ bits ≠ 0) : 1 ≤ bits := by
  rcases Nat.eq_zero_or_pos bits with h0 | h0
  · subst h0; exact absurd (Nat.mod_one m) h
  · exact h0

/-! ### 9. Summary for one format, and instances -/

/-- **C19, integer-overflow checks, arithmetic core**: for a well-formed format with at most 61
    exponent bits and a precision below `2^32`, on canonical operands, none of `get_exp_bounds`,
    `+`, `-`, `*`, `/`, `cast`, `scale`, `to_i64`, `trunc`, `round`, `rem`, `powi`, `sqrt`,
    `from_u64` evaluates an integer expression that overflows, goes negative at an unsigned type, or
    changes value in an `as` cast. -/
theorem core_no_overflow (s : Sem) (hF : s.WF) (he : s.e ≤ 61) (hp : s.p < 2 ^ 32) :
    BoundsOk s
    ∧ (∀ (a b : Flt) (sub : Bool), a.sem = s → b.sem = s → a.Canonical → b.Canonical →
        AddCallOk a b sub)
    ∧ (∀ a b : Flt, a.sem = s → b.sem = s → a.Canonical → b.Canonical → MulCallOk a b)
    ∧ (∀ a b : Flt, a.sem = s → b.sem = s → a.Canonical → b.Canonical → DivCallOk a b)
    ∧ (∀ (x : Flt) (tgt : Sem), x.sem = s → tgt.WF → tgt.e ≤ 61 → tgt.p < 2 ^ 32 → x.Canonical →
        CastCallOk x tgt)
    ∧ (∀ (x : Flt) (k : Int), x.sem = s → x.Canonical → ScaleCallOk x k)
    ∧ (∀ x : Flt, x.sem = s → x.Canonical → x.cat = .normal →
        ToIntOk x ∧ TrimOk x ∧ RoundOk x)
    ∧ (∀ v : Nat, v < 2 ^ 64 → FromU64Ok s v)
    ∧ (∀ (x y : Flt) (fuel : Nat), x.sem = s → y.sem = s → x.Canonical → y.Canonical →
        x.cat = .normal → y.cat = .normal → RemLoopOk fuel x.abs (if y.sign then y.neg else y))
    ∧ (∀ (x : Flt) (n : Nat), x.sem = s → x.Canonical →
        PowiLoopOk 64 n (Flt.one ((s.increasePrecision 2).withRm (powiInnerRm s.rm)) false)
          (x.cast ((s.increasePrecision 2).withRm (powiInnerRm s.rm))))
    ∧ (∀ (x : Flt) (fuel : Nat), x.sem = s → x.Canonical →
        SqrtLoopOk s fuel (x.castWithRm (s.increaseExponent 1) .zero)
          (if (x.castWithRm (s.increaseExponent 1) .zero).lt (fromU64 (s.increaseExponent 1) 2)
            then fromU64 (s.increaseExponent 1) 2 else x.castWithRm (s.increaseExponent 1) .zero)
          (if (x.castWithRm (s.increaseExponent 1) .zero).lt (fromU64 (s.increaseExponent 1) 2)
            then fromU64 (s.increaseExponent 1) 2 else x.castWithRm (s.increaseExponent 1) .zero)) := by
  have hS : FitsI64 s := FitsI64.of_small hF he hp
  refine ⟨exp_bounds_in_i64 s (by have := hF.1; omega) hS.e_le, ?_, ?_, ?_, ?_, ?_, ?_, ?_, ?_, ?_, ?_⟩
  · intro a b sub ha hb hca hcb
    exact add_call_ok a b sub (ha ▸ hS) (by rw [ha, hb]) hca hcb
  · intro a b ha hb hca hcb
    exact mul_call_ok a b (ha ▸ hS) (by rw [ha, hb]) hca hcb
  · intro a b ha hb hca hcb
    exact div_call_ok a b (ha ▸ hS) (by rw [ha, hb]) hca hcb
  · intro x tgt hx hT heT hpT hc
    exact cast_call_ok x tgt (hx ▸ hS) (FitsI64.of_small hT heT hpT) hc
  · intro x k hx hc
    exact scale_call_ok x k (hx ▸ hS) hc
  · intro x hx hc hn
    exact ⟨toI64_no_overflow x (hx ▸ hS) hn hc, trunc_no_overflow x (hx ▸ hS) hn hc,
      round_no_overflow x (hx ▸ hS) hn hc⟩
  · intro v hv
    exact fromU64_no_overflow s v hS hv
  · intro x y fuel hx hy hcx hcy hnx hny
    exact rem_no_overflow x y fuel (hx ▸ hS) (by rw [hx, hy]) hcx hcy hnx hny
  · intro x n hx hc
    have := (powi_no_overflow x n (hx ▸ hS) (by rw [hx]; omega) hc).2.1
    rw [hx] at this
    exact this
  · intro x fuel hx hc
    have := (sqrt_no_overflow x fuel (hx ▸ hS) (by rw [hx]; exact he) hc).2.2
    rw [hx] at this
    exact this

/-- the presets fit -/
example : FitsI64 FP16 ∧ FitsI64 FP32 ∧ FitsI64 FP64 ∧ FitsI64 FP128 ∧ FitsI64 FP256 :=
  ⟨FitsI64.of_small (by decide) (by decide) (by decide), FitsI64.of_small (by decide) (by decide) (by decide),
   FitsI64.of_small (by decide) (by decide) (by decide), FitsI64.of_small (by decide) (by decide) (by decide),
   FitsI64.of_small (by decide) (by decide) (by decide)⟩

/-- the hypotheses are discharged by `decide` on concrete operands: the largest FP16 value minus the
    smallest subnormal, and their quotient -/
example : AddCallOk ⟨FP16, false, 15, 2047, .normal⟩ ⟨FP16, false, -14, 1, .normal⟩ true
    ∧ DivCallOk ⟨FP16, false, 15, 2047, .normal⟩ ⟨FP16, false, -14, 1, .normal⟩ :=
  ⟨add_call_ok _ _ _ (FitsI64.of_small (by decide) (by decide) (by decide)) rfl (by decide) (by decide),
   div_call_ok _ _ (FitsI64.of_small (by decide) (by decide) (by decide)) rfl (by decide) (by decide)⟩

/-- the extreme format of the claim, `e = 61`: the largest and the smallest exponent in one
    subtraction (`bits = emax - emin = 2^61 - 3`) -/
example : AddSubOk ⟨⟨61, 24, .nte⟩, false, 2 ^ 60 - 1, 2 ^ 23, .normal⟩
    ⟨⟨61, 24, .nte⟩, false, 2 - 2 ^ 60, 1, .normal⟩ :=
  addSub_exps_in_i64 _ _ (by decide) (by decide)

end Arp.C19
