import Arp.Props.C17TanBig
import Arp.Props.C17PiTan
/-!
# C17 — `tan` at the standard formats, unconditionally, for `|x| ≤ 128`, `|tan x| ≤ 64`

`tan_accuracy_all`: the clause for a domain format (`8 ≤ p ≤ 2^(e-1) − 2`, `e ≤ 17`) given `PiOKAt`
of the two working formats, both branches (`|x| < 1` without `π`).  `tan_accuracy_<F>`: the instances
at FP16, bf16, FP32, FP64 and x87 in both nearest modes; any fuel `≥ 8` suffices.
-/
namespace Arp.C17
open Arp Arp.TrigErr

/-- **`tan` for every `|x| ≤ 128` with `|tan x| ≤ 64`**, given the accuracy of `π` -/
theorem tan_accuracy_all (x : Flt) (hF : x.sem.WF) (hp : 8 ≤ x.sem.p)
    (hdom : x.sem.p ≤ 2 ^ (x.sem.e - 1) - 2) (he17 : x.sem.e ≤ 17)
    (hrm : x.sem.rm = .nte ∨ x.sem.rm = .nta) (hc : x.Canonical) (hn : x.cat = .normal)
    (h128 : |x.val| ≤ 128) (htan : |Real.tan ((x.val : ℚ) : ℝ)| ≤ 64) {fuel0 : ℕ}
    (hpi1 : PiOKAt (((x.sem.increasePrecision x.sem.p).growLog 12).increaseExponent 4) fuel0)
    (hpi2 : PiOKAt (((((x.sem.increasePrecision x.sem.p).growLog 12).increaseExponent 4).growLog
      12).increaseExponent 4) fuel0) (fuel : ℕ) (hfuel : fuel0 ≤ fuel) :
    ∃ r, x.tanFuel fuel = some r ∧ (r.cat = .normal ∨ r.cat = .zero) ∧ r.Canonical ∧
      r.sem = x.sem ∧
      |((r.val : ℚ) : ℝ) - Real.tan ((x.val : ℚ) : ℝ)| ≤
        max (ulpR x.sem |Real.tan ((x.val : ℚ) : ℝ)|) ((2:ℝ) ^ (6 - 2 * (x.sem.p:ℤ))) := by
  by_cases hsmall : x.exp < 0
  · obtain ⟨r, h1, h2, _, h4, h5, h6⟩ :=
      tan_small_accuracy x hF hp hdom he17 hrm hc hn hsmall fuel
    refine ⟨r, h1, h2, h4, h5, le_trans h6 (le_trans ?_ (le_max_left _ _))⟩
    have := ulpR_pos x.sem |Real.tan ((x.val : ℚ) : ℝ)|
    linarith
  · exact tan_accuracy_of_pi' x hF hp hdom he17 hrm hc hn (by omega) h128 htan hpi1 hpi2 fuel hfuel

/-- **`tan` at FP16**, both nearest modes, canonical normal `|x| ≤ 128` with `|tan x| ≤ 64`,
every fuel `≥ 8` -/
theorem tan_accuracy_FP16 (x : Flt) (rm : RM) (hrm : rm = .nte ∨ rm = .nta)
    (hsem : x.sem = { FP16 with rm := rm }) (hc : x.Canonical) (hn : x.cat = .normal)
    (h128 : |x.val| ≤ 128) (htan : |Real.tan ((x.val : ℚ) : ℝ)| ≤ 64) (fuel : ℕ)
    (hfuel : 8 ≤ fuel) :
    ∃ r, x.tanFuel fuel = some r ∧ (r.cat = .normal ∨ r.cat = .zero) ∧ r.Canonical ∧
      r.sem = x.sem ∧
      |((r.val : ℚ) : ℝ) - Real.tan ((x.val : ℚ) : ℝ)| ≤
        max (ulpR x.sem |Real.tan ((x.val : ℚ) : ℝ)|) ((2:ℝ) ^ (6 - 2 * (x.sem.p:ℤ))) := by
  have hpi1 : PiOKAt (((x.sem.increasePrecision x.sem.p).growLog 12).increaseExponent 4) 8 := by
    rw [hsem]
    rcases hrm with h | h <;> subst h
    · exact piOK_tan_FP16_nte
    · exact piOK_tan_FP16_nta
  have hpi2 : PiOKAt (((((x.sem.increasePrecision x.sem.p).growLog 12).increaseExponent 4).growLog
      12).increaseExponent 4) 8 := by
    rw [hsem]
    rcases hrm with h | h <;> subst h
    · exact piOK_tansin_FP16_nte
    · exact piOK_tansin_FP16_nta
  apply tan_accuracy_all x _ _ _ _ _ hc hn h128 htan hpi1 hpi2 fuel hfuel
  all_goals rw [hsem]
  · show 2 ≤ FP16.e ∧ 2 ≤ FP16.p; decide
  · show 8 ≤ FP16.p; decide
  · show FP16.p ≤ 2 ^ (FP16.e - 1) - 2; decide
  · show FP16.e ≤ 17; decide
  · rcases hrm with h | h <;> subst h
    · exact Or.inl rfl
    · exact Or.inr rfl

/-- **`tan` at BF16**, both nearest modes, canonical normal `|x| ≤ 128` with `|tan x| ≤ 64`,
every fuel `≥ 8` -/
theorem tan_accuracy_BF16 (x : Flt) (rm : RM) (hrm : rm = .nte ∨ rm = .nta)
    (hsem : x.sem = { C15.BF16 with rm := rm }) (hc : x.Canonical) (hn : x.cat = .normal)
    (h128 : |x.val| ≤ 128) (htan : |Real.tan ((x.val : ℚ) : ℝ)| ≤ 64) (fuel : ℕ)
    (hfuel : 8 ≤ fuel) :
    ∃ r, x.tanFuel fuel = some r ∧ (r.cat = .normal ∨ r.cat = .zero) ∧ r.Canonical ∧
      r.sem = x.sem ∧
      |((r.val : ℚ) : ℝ) - Real.tan ((x.val : ℚ) : ℝ)| ≤
        max (ulpR x.sem |Real.tan ((x.val : ℚ) : ℝ)|) ((2:ℝ) ^ (6 - 2 * (x.sem.p:ℤ))) := by
  have hpi1 : PiOKAt (((x.sem.increasePrecision x.sem.p).growLog 12).increaseExponent 4) 8 := by
    rw [hsem]
    rcases hrm with h | h <;> subst h
    · exact piOK_tan_BF16_nte
    · exact piOK_tan_BF16_nta
  have hpi2 : PiOKAt (((((x.sem.increasePrecision x.sem.p).growLog 12).increaseExponent 4).growLog
      12).increaseExponent 4) 8 := by
    rw [hsem]
    rcases hrm with h | h <;> subst h
    · exact piOK_tansin_BF16_nte
    · exact piOK_tansin_BF16_nta
  apply tan_accuracy_all x _ _ _ _ _ hc hn h128 htan hpi1 hpi2 fuel hfuel
  all_goals rw [hsem]
  · show 2 ≤ C15.BF16.e ∧ 2 ≤ C15.BF16.p; decide
  · show 8 ≤ C15.BF16.p; decide
  · show C15.BF16.p ≤ 2 ^ (C15.BF16.e - 1) - 2; decide
  · show C15.BF16.e ≤ 17; decide
  · rcases hrm with h | h <;> subst h
    · exact Or.inl rfl
    · exact Or.inr rfl

/-- **`tan` at FP32**, both nearest modes, canonical normal `|x| ≤ 128` with `|tan x| ≤ 64`,
every fuel `≥ 8` -/
theorem tan_accuracy_FP32 (x : Flt) (rm : RM) (hrm : rm = .nte ∨ rm = .nta)
    (hsem : x.sem = { FP32 with rm := rm }) (hc : x.Canonical) (hn : x.cat = .normal)
    (h128 : |x.val| ≤ 128) (htan : |Real.tan ((x.val : ℚ) : ℝ)| ≤ 64) (fuel : ℕ)
    (hfuel : 8 ≤ fuel) :
    ∃ r, x.tanFuel fuel = some r ∧ (r.cat = .normal ∨ r.cat = .zero) ∧ r.Canonical ∧
      r.sem = x.sem ∧
      |((r.val : ℚ) : ℝ) - Real.tan ((x.val : ℚ) : ℝ)| ≤
        max (ulpR x.sem |Real.tan ((x.val : ℚ) : ℝ)|) ((2:ℝ) ^ (6 - 2 * (x.sem.p:ℤ))) := by
  have hpi1 : PiOKAt (((x.sem.increasePrecision x.sem.p).growLog 12).increaseExponent 4) 8 := by
    rw [hsem]
    rcases hrm with h | h <;> subst h
    · exact piOK_tan_FP32_nte
    · exact piOK_tan_FP32_nta
  have hpi2 : PiOKAt (((((x.sem.increasePrecision x.sem.p).growLog 12).increaseExponent 4).growLog
      12).increaseExponent 4) 8 := by
    rw [hsem]
    rcases hrm with h | h <;> subst h
    · exact piOK_tansin_FP32_nte
    · exact piOK_tansin_FP32_nta
  apply tan_accuracy_all x _ _ _ _ _ hc hn h128 htan hpi1 hpi2 fuel hfuel
  all_goals rw [hsem]
  · show 2 ≤ FP32.e ∧ 2 ≤ FP32.p; decide
  · show 8 ≤ FP32.p; decide
  · show FP32.p ≤ 2 ^ (FP32.e - 1) - 2; decide
  · show FP32.e ≤ 17; decide
  · rcases hrm with h | h <;> subst h
    · exact Or.inl rfl
    · exact Or.inr rfl

/-- **`tan` at FP64**, both nearest modes, canonical normal `|x| ≤ 128` with `|tan x| ≤ 64`,
every fuel `≥ 8` -/
theorem tan_accuracy_FP64 (x : Flt) (rm : RM) (hrm : rm = .nte ∨ rm = .nta)
    (hsem : x.sem = { FP64 with rm := rm }) (hc : x.Canonical) (hn : x.cat = .normal)
    (h128 : |x.val| ≤ 128) (htan : |Real.tan ((x.val : ℚ) : ℝ)| ≤ 64) (fuel : ℕ)
    (hfuel : 8 ≤ fuel) :
    ∃ r, x.tanFuel fuel = some r ∧ (r.cat = .normal ∨ r.cat = .zero) ∧ r.Canonical ∧
      r.sem = x.sem ∧
      |((r.val : ℚ) : ℝ) - Real.tan ((x.val : ℚ) : ℝ)| ≤
        max (ulpR x.sem |Real.tan ((x.val : ℚ) : ℝ)|) ((2:ℝ) ^ (6 - 2 * (x.sem.p:ℤ))) := by
  have hpi1 : PiOKAt (((x.sem.increasePrecision x.sem.p).growLog 12).increaseExponent 4) 8 := by
    rw [hsem]
    rcases hrm with h | h <;> subst h
    · exact piOK_tan_FP64_nte
    · exact piOK_tan_FP64_nta
  have hpi2 : PiOKAt (((((x.sem.increasePrecision x.sem.p).growLog 12).increaseExponent 4).growLog
      12).increaseExponent 4) 8 := by
    rw [hsem]
    rcases hrm with h | h <;> subst h
    · exact piOK_tansin_FP64_nte
    · exact piOK_tansin_FP64_nta
  apply tan_accuracy_all x _ _ _ _ _ hc hn h128 htan hpi1 hpi2 fuel hfuel
  all_goals rw [hsem]
  · show 2 ≤ FP64.e ∧ 2 ≤ FP64.p; decide
  · show 8 ≤ FP64.p; decide
  · show FP64.p ≤ 2 ^ (FP64.e - 1) - 2; decide
  · show FP64.e ≤ 17; decide
  · rcases hrm with h | h <;> subst h
    · exact Or.inl rfl
    · exact Or.inr rfl

/-- **`tan` at X87**, both nearest modes, canonical normal `|x| ≤ 128` with `|tan x| ≤ 64`,
every fuel `≥ 8` -/
theorem tan_accuracy_X87 (x : Flt) (rm : RM) (hrm : rm = .nte ∨ rm = .nta)
    (hsem : x.sem = { C15.X87 with rm := rm }) (hc : x.Canonical) (hn : x.cat = .normal)
    (h128 : |x.val| ≤ 128) (htan : |Real.tan ((x.val : ℚ) : ℝ)| ≤ 64) (fuel : ℕ)
    (hfuel : 8 ≤ fuel) :
    ∃ r, x.tanFuel fuel = some r ∧ (r.cat = .normal ∨ r.cat = .zero) ∧ r.Canonical ∧
      r.sem = x.sem ∧
      |((r.val : ℚ) : ℝ) - Real.tan ((x.val : ℚ) : ℝ)| ≤
        max (ulpR x.sem |Real.tan ((x.val : ℚ) : ℝ)|) ((2:ℝ) ^ (6 - 2 * (x.sem.p:ℤ))) := by
  have hpi1 : PiOKAt (((x.sem.increasePrecision x.sem.p).growLog 12).increaseExponent 4) 8 := by
    rw [hsem]
    rcases hrm with h | h <;> subst h
    · exact piOK_tan_X87_nte
    · exact piOK_tan_X87_nta
  have hpi2 : PiOKAt (((((x.sem.increasePrecision x.sem.p).growLog 12).increaseExponent 4).growLog
      12).increaseExponent 4) 8 := by
    rw [hsem]
    rcases hrm with h | h <;> subst h
    · exact piOK_tansin_X87_nte
    · exact piOK_tansin_X87_nta
  apply tan_accuracy_all x _ _ _ _ _ hc hn h128 htan hpi1 hpi2 fuel hfuel
  all_goals rw [hsem]
  · show 2 ≤ C15.X87.e ∧ 2 ≤ C15.X87.p; decide
  · show 8 ≤ C15.X87.p; decide
  · show C15.X87.p ≤ 2 ^ (C15.X87.e - 1) - 2; decide
  · show C15.X87.e ≤ 17; decide
  · rcases hrm with h | h <;> subst h
    · exact Or.inl rfl
    · exact Or.inr rfl

end Arp.C17
