import Arp.Lemmas.TrigTanCore
import Arp.Props.C17Tan
import Arp.Props.C17Big
import Mathlib.Analysis.Real.Pi.Irrational
/-!
# C17 — accuracy of `tan` for `1 ≤ |x| ≤ 128`, conditional on the computed `π`

For `|x| ≥ 1` the argument is reduced modulo `Float::pi` of the working format
`W' = ((F.increasePrecision p).growLog 12).increaseExponent 4`, and the nested `sin` reduces again
with `Float::pi` of its own working format `W'' = (W'.growLog 12).increaseExponent 4`; both constants
enter as hypotheses `PiOKAt`.

* `tan_accuracy_of_pi`: for `|cos x| ≥ 1/65` the result is within
  `max(one ulp of the exact value's binade, 2^(6-2p))` of `tan x`;
* `tan_accuracy_of_pi'`: the same under the hypothesis `|tan x| ≤ 64` of the property text
  (`cos x ≠ 0` because `π` is irrational).

The absolute term `2^(6-2p)` only matters for `|tan x| < 2^(7-p)`, i.e. next to the multiples of
`π`, where no lower bound of `|x − kπ|` is available for a general format.
-/
namespace Arp.C17
open Arp Arp.TrigErr Arp.RelErr Arp.SpecRound

/-- **`tan` for `1 ≤ |x| ≤ 128`, `|cos x| ≥ 1/65`, given the accuracy of `π`.** -/
theorem tan_accuracy_of_pi (x : Flt) (hF : x.sem.WF) (hp : 8 ≤ x.sem.p)
    (hdom : x.sem.p ≤ 2 ^ (x.sem.e - 1) - 2) (he17 : x.sem.e ≤ 17)
    (hrm : x.sem.rm = .nte ∨ x.sem.rm = .nta) (hc : x.Canonical) (hn : x.cat = .normal)
    (hbig : 0 ≤ x.exp) (h128 : |x.val| ≤ 128)
    (hcos : 1/65 ≤ |Real.cos ((x.val : ℚ) : ℝ)|) {fuel0 : ℕ}
    (hpi1 : PiOKAt (((x.sem.increasePrecision x.sem.p).growLog 12).increaseExponent 4) fuel0)
    (hpi2 : PiOKAt (((((x.sem.increasePrecision x.sem.p).growLog 12).increaseExponent 4).growLog
      12).increaseExponent 4) fuel0) (fuel : ℕ) (hfuel : fuel0 ≤ fuel) :
    ∃ r, x.tanFuel fuel = some r ∧ (r.cat = .normal ∨ r.cat = .zero) ∧ r.Canonical ∧
      r.sem = x.sem ∧
      |((r.val : ℚ) : ℝ) - Real.tan ((x.val : ℚ) : ℝ)| ≤
        max (ulpR x.sem |Real.tan ((x.val : ℚ) : ℝ)|) ((2:ℝ) ^ (6 - 2 * (x.sem.p:ℤ))) := by
  have habs : |x.val| = x.mag := by
    rw [Flt.val_normal hn]
    have := x.mag_nonneg
    cases x.sign
    · simp [abs_of_nonneg this]
    · simp [abs_of_nonneg this]
  rw [habs] at h128
  rw [cos_val_eq x hn] at hcos
  obtain ⟨r, q, neg, T, hfuelEq, hcat, hcan, hsem, hval, hq0, hq128, htan, hT128, herr⟩ :=
    tan_big_core x hF hp hdom he17 hrm hc hn hbig h128 hcos hpi1 hpi2 fuel hfuel
  have hemin8 : x.sem.emin ≤ -8 := by
    have := Sem.emin_eq x.sem
    have h2 : 10 ≤ 2 ^ (x.sem.e - 1) := by omega
    have : (10:ℤ) ≤ ((2 ^ (x.sem.e - 1) : ℕ) : ℤ) := by exact_mod_cast h2
    omega
  have hemax : 9 ≤ x.sem.emax := by have := Sqrt.emin_add_emax hF; omega
  refine ⟨r, hfuelEq, hcat, hcan, hsem, ?_⟩
  have htv := tan_val_eq x hn
  rw [htan] at htv
  have hdiff : |((r.val : ℚ) : ℝ) - Real.tan ((x.val : ℚ) : ℝ)| =
      |((rq x.sem x.sem.rm q : ℚ) : ℝ) - T| := by
    rw [htv, hval]
    cases neg <;> cases x.sign <;> simp
    · rw [← abs_neg]; congr 1; ring
    · rw [← abs_neg]; congr 1; ring
  have habsT : |Real.tan ((x.val : ℚ) : ℝ)| = |T| := by
    rw [htv]
    cases neg <;> cases x.sign <;> simp
  rw [hdiff, habsT]
  have hlog := Int.lt_zpow_succ_log_self (b := 2) (by norm_num) |T|
  have h4a : 4 * (2:ℝ) ^ (4 - 2 * (x.sem.p:ℤ)) = (2:ℝ) ^ (6 - 2 * (x.sem.p:ℤ)) := by
    rw [show (6 - 2 * (x.sem.p:ℤ)) = (4 - 2 * (x.sem.p:ℤ)) + 2 by ring,
      zpow_add₀ (by norm_num : (2:ℝ) ≠ 0)]
    norm_num; ring
  have := final_round_gen hF hrm hemax hq0 hq128 hT128 (by positivity) (le_refl _) (by positivity)
    herr (Int.log 2 |T|) (by simpa using hlog)
  rw [h4a] at this
  unfold ulpR
  exact this

/-- a rational number is not a zero of `cos` -/
theorem cos_rat_ne_zero (y : ℚ) : Real.cos ((y : ℚ) : ℝ) ≠ 0 := by
  intro h
  obtain ⟨k, hk⟩ := Real.cos_eq_zero_iff.mp h
  have hk2 : (2 * (k:ℝ) + 1) ≠ 0 := by
    have : (2 * k + 1 : ℤ) ≠ 0 := by omega
    exact_mod_cast this
  have hpi : Real.pi = ((2 * y / (2 * k + 1) : ℚ) : ℝ) := by
    push_cast
    field_simp
    linarith
  exact irrational_pi.ne_rat _ hpi

/-- `|tan y| ≤ 64` implies `|cos y| ≥ 1/65` for a rational `y` -/
theorem cos_ge_of_tan_le (y : ℚ) (h : |Real.tan ((y : ℚ) : ℝ)| ≤ 64) :
    1/65 ≤ |Real.cos ((y : ℚ) : ℝ)| := by
  have hc := cos_rat_ne_zero y
  have hc0 : 0 < |Real.cos ((y : ℚ) : ℝ)| := abs_pos.mpr hc
  rw [Real.tan_eq_sin_div_cos, abs_div, div_le_iff₀ hc0] at h
  have hpyth := Real.sin_sq_add_cos_sq ((y : ℚ) : ℝ)
  have hs : Real.sin ((y : ℚ) : ℝ) ^ 2 = |Real.sin ((y : ℚ) : ℝ)| ^ 2 := (sq_abs _).symm
  have hcs : Real.cos ((y : ℚ) : ℝ) ^ 2 = |Real.cos ((y : ℚ) : ℝ)| ^ 2 := (sq_abs _).symm
  rw [hs, hcs] at hpyth
  by_contra hcon
  have hlt := not_le.mp hcon
  have hs0 := abs_nonneg (Real.sin ((y : ℚ) : ℝ))
  nlinarith

/-- **`tan` for `1 ≤ |x| ≤ 128`, `|tan x| ≤ 64`, given the accuracy of `π`** -/
theorem tan_accuracy_of_pi' (x : Flt) (hF : x.sem.WF) (hp : 8 ≤ x.sem.p)
    (hdom : x.sem.p ≤ 2 ^ (x.sem.e - 1) - 2) (he17 : x.sem.e ≤ 17)
    (hrm : x.sem.rm = .nte ∨ x.sem.rm = .nta) (hc : x.Canonical) (hn : x.cat = .normal)
    (hbig : 0 ≤ x.exp) (h128 : |x.val| ≤ 128)
    (htan : |Real.tan ((x.val : ℚ) : ℝ)| ≤ 64) {fuel0 : ℕ}
    (hpi1 : PiOKAt (((x.sem.increasePrecision x.sem.p).growLog 12).increaseExponent 4) fuel0)
    (hpi2 : PiOKAt (((((x.sem.increasePrecision x.sem.p).growLog 12).increaseExponent 4).growLog
      12).increaseExponent 4) fuel0) (fuel : ℕ) (hfuel : fuel0 ≤ fuel) :
    ∃ r, x.tanFuel fuel = some r ∧ (r.cat = .normal ∨ r.cat = .zero) ∧ r.Canonical ∧
      r.sem = x.sem ∧
      |((r.val : ℚ) : ℝ) - Real.tan ((x.val : ℚ) : ℝ)| ≤
        max (ulpR x.sem |Real.tan ((x.val : ℚ) : ℝ)|) ((2:ℝ) ^ (6 - 2 * (x.sem.p:ℤ))) :=
  tan_accuracy_of_pi x hF hp hdom he17 hrm hc hn hbig h128 (cos_ge_of_tan_le x.val htan) hpi1 hpi2
    fuel hfuel

/-- `tan` with the existential form of the hypotheses on `π` -/
theorem tan_accuracy_of_piOK (x : Flt) (hF : x.sem.WF) (hp : 8 ≤ x.sem.p)
    (hdom : x.sem.p ≤ 2 ^ (x.sem.e - 1) - 2) (he17 : x.sem.e ≤ 17)
    (hrm : x.sem.rm = .nte ∨ x.sem.rm = .nta) (hc : x.Canonical) (hn : x.cat = .normal)
    (hbig : 0 ≤ x.exp) (h128 : |x.val| ≤ 128)
    (htan : |Real.tan ((x.val : ℚ) : ℝ)| ≤ 64)
    (hpi1 : PiOK (((x.sem.increasePrecision x.sem.p).growLog 12).increaseExponent 4))
    (hpi2 : PiOK (((((x.sem.increasePrecision x.sem.p).growLog 12).increaseExponent 4).growLog
      12).increaseExponent 4)) :
    ∃ fuel0, ∀ fuel, fuel0 ≤ fuel →
      ∃ r, x.tanFuel fuel = some r ∧ (r.cat = .normal ∨ r.cat = .zero) ∧ r.Canonical ∧
        r.sem = x.sem ∧
        |((r.val : ℚ) : ℝ) - Real.tan ((x.val : ℚ) : ℝ)| ≤
          max (ulpR x.sem |Real.tan ((x.val : ℚ) : ℝ)|) ((2:ℝ) ^ (6 - 2 * (x.sem.p:ℤ))) := by
  obtain ⟨f1, r1, h1⟩ := hpi1
  obtain ⟨f2, r2, h2⟩ := hpi2
  refine ⟨max f1 f2, fun fuel hf => ?_⟩
  exact tan_accuracy_of_pi' x hF hp hdom he17 hrm hc hn hbig h128 htan
    (PiOKAt.mono ⟨r1, h1⟩ (le_max_left f1 f2)) (PiOKAt.mono ⟨r2, h2⟩ (le_max_right f1 f2)) fuel hf

end Arp.C17
