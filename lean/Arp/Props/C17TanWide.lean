import Arp.Props.C17TanBig
import Arp.Props.C17StdTan
/-!
# C17 — `tan` without the restriction `e ≤ 17`

The hypothesis `e ≤ 17` of `tan_small_accuracy`, `tan_accuracy_of_pi`, `tan_accuracy_of_pi'` came from
the former, smaller bound `innerFuel` on the nested `sqrt`/`rem` loops; it is used only to show that
`innerFuel` exceeds the linear fuel bounds of `C12.sqrt_terminates` / `C11.rem_fuel`, and to bound the
working precision by `10^6` (hypothesis of `sin_accuracy_of_pi`).  With `innerFuel = 2^62` the same
proofs go through for `e ≤ 50`, `p ≤ 249000`.  The lemmas below are verbatim copies of
`tanCore_acc`, `sin_rel_tanW_big`, `tanCore_gen`, `tanCore_zero`, `tan_big_core`
(`Arp/Lemmas/TrigTan*.lean`) and of `tan_small_accuracy`, `tan_accuracy_of_pi`, `tan_accuracy_of_pi'`
(`Arp/Props/C17Tan.lean`, `C17TanBig.lean`) with the hypothesis
`e ≤ 17` replaced by `e ≤ 50 ∧ p ≤ 249000` and the numeric bound on `2^(e-1)` adapted
(suffix `_wide`).
-/
namespace Arp.TrigErr
open Arp Arp.SpecRound Arp.RelErr Arp.Ln2 Arp.Sqrt

set_option maxHeartbeats 400000 in
/-- **`tanCore` on an argument in `(0,1)`**: relative error `≤ 40·u` of the working format -/
theorem tanCore_acc_wide (F : Sem) (hF : F.WF) (hp : 8 ≤ F.p) (hdom : F.p ≤ 2 ^ (F.e - 1) - 2)
    (hrm : F.rm = .nte ∨ F.rm = .nta) (he17 : F.e ≤ 50) (hp6 : F.p ≤ 249000) {v : Flt} (hv : PosN (tanW F) v)
    (hv1 : v.mag < 1) (hvlo : (2:ℚ) ^ (F.emin - (F.p:ℤ) + 1) ≤ v.mag) (fuel : ℕ) :
    ∃ res, tanCore fuel (tanW F) v = some res ∧ PosN (tanW F) res ∧ res.mag ≤ 4 ∧
      |((res.mag : ℚ) : ℝ) - Real.tan ((v.mag : ℚ) : ℝ)| ≤
        40 * ((u (tanW F) : ℚ) : ℝ) * Real.tan ((v.mag : ℚ) : ℝ) := by
  have hW := tanW_WF hF
  have S := tanW_ctx F hF hp hdom hrm
  have hWemin := tanW_emin hF
  have hWemax := tanW_emax hF
  have hemin : F.emin = 2 - ((2 ^ (F.e - 1) : ℕ) : ℤ) := Sem.emin_eq F
  have hB : (F.p : ℤ) + 2 ≤ ((2 ^ (F.e - 1) : ℕ) : ℤ) := by
    have : F.p + 2 ≤ 2 ^ (F.e - 1) := by omega
    exact_mod_cast this
  obtain ⟨hp1, hp2⟩ := tanW_p_bounds hp
  have hu0 := RelErr.u_pos (tanW F)
  have hu23 := S.u_le
  have hu : u (tanW F) ≤ 1/1000 := by norm_num at hu23 ⊢; linarith
  have hur0 : (0:ℝ) < ((u (tanW F) : ℚ) : ℝ) := by exact_mod_cast hu0
  have hur : ((u (tanW F) : ℚ) : ℝ) ≤ 1/1000 := by
    have := (Rat.cast_le (K := ℝ)).mpr hu; push_cast at this ⊢; linarith
  have h16 := S.max16
  have hone : IsRep (tanW F) 1 := by
    have := Ln2.isRep_pow2 hW 0 (by have := Sem.emin_le_zero hW; omega)
      (by have := Sem.emax_pos hW; omega)
    simpa using this
  have hX0 := hv.mag_pos
  have hXr0 : (0:ℝ) < ((v.mag : ℚ) : ℝ) := by exact_mod_cast hX0
  have hXr1 : ((v.mag : ℚ) : ℝ) ≤ 1 := by exact_mod_cast le_of_lt hv1
  have hS0 : 0 < Real.sin ((v.mag : ℚ) : ℝ) := Real.sin_pos_of_pos_of_le_one hXr0 hXr1
  have heminpos : (0:ℚ) < (2:ℚ) ^ (tanW F).emin := by positivity
  -- `sin`
  obtain ⟨sx, hsinfuel, hsx, hs⟩ := sin_rel_tanW F hF hp hdom hrm hv hv1
    (F.emin - (F.p:ℤ) + 1) (by omega) hvlo fuel
  obtain ⟨hs0r, hs78r⟩ := tan_s_bound hXr0 hXr1 hur0 hur hs
  have hs0 := hsx.mag_pos
  have hs78 : sx.mag ≤ 7/8 := by
    have : ((sx.mag : ℚ) : ℝ) ≤ (((7/8 : ℚ)) : ℝ) := by push_cast; linarith
    exact (Rat.cast_le (K := ℝ)).mp this
  have hslo : v.mag / 4 ≤ sx.mag := by
    have h1 := relR_lower hs
    have h2 := sin_lower (le_of_lt hXr0) hXr1
    have h3 : (1/2) * Real.sin ((v.mag : ℚ) : ℝ) ≤
        (1 - ((u (tanW F) : ℚ) : ℝ)) * Real.sin ((v.mag : ℚ) : ℝ) :=
      mul_le_mul_of_nonneg_right (by linarith) (le_of_lt hS0)
    have : (((v.mag / 4 : ℚ)) : ℝ) ≤ ((sx.mag : ℚ) : ℝ) := by push_cast; linarith
    exact (Rat.cast_le (K := ℝ)).mp this
  have hslo2 : (2:ℚ) ^ (F.emin - (F.p:ℤ) - 1) ≤ sx.mag := by
    have e : (2:ℚ) ^ (F.emin - (F.p:ℤ) + 1) = (2:ℚ) ^ (F.emin - (F.p:ℤ) - 1) * 4 := by
      rw [show F.emin - (F.p:ℤ) + 1 = (F.emin - (F.p:ℤ) - 1) + 2 by ring,
        zpow_add₀ (by norm_num : (2:ℚ) ≠ 0)]; norm_num
    rw [e] at hvlo; linarith
  -- the square
  have hsqlo : (2:ℚ) ^ ((tanW F).emin + 8) ≤ sx.mag ^ 2 := by
    have h1 : ((2:ℚ) ^ (F.emin - (F.p:ℤ) - 1)) ^ 2 ≤ sx.mag ^ 2 :=
      pow_le_pow_left₀ (by positivity) hslo2 2
    refine le_trans ?_ h1
    rw [← zpow_natCast, ← zpow_mul]
    apply zpow_le_zpow_right₀ (by norm_num)
    rw [hWemin]; push_cast; omega
  obtain ⟨hsqP, hsq1, hsq2⟩ := sqr_posN S hsx (by linarith) hsqlo
  set sqm := sx.sqr.mag with hsqm
  have hs2le : sx.mag ^ 2 ≤ 49/64 := by nlinarith
  have hs2pos : 0 < sx.mag ^ 2 := by positivity
  have hsqm45 : sqm ≤ 4/5 := by nlinarith
  have hsqm0 : 0 < sqm := hsqP.mag_pos
  -- `1 − s²`
  have hd0lo : 1/5 ≤ 1 - sqm := by linarith
  have hd0hi : 1 - sqm ≤ 1 := by linarith
  have hd_nn := nn_sub hW (tanW F).rm (one_nn hW) (nn_of_posN hsqP) (by linarith)
    (by linarith : 1 - sqm ≤ maxFinite (tanW F))
  have hemin5 : (2:ℚ) ^ (tanW F).emin ≤ 1/16 := by
    calc (2:ℚ) ^ (tanW F).emin ≤ (2:ℚ) ^ (-4:ℤ) :=
          zpow_le_zpow_right₀ (by norm_num) (by rw [hWemin]; omega)
      _ = 1/16 := by norm_num
  have hdrel := rq_rel hW (q := 1 - sqm) (by linarith) (by linarith) (tanW F).rm
  set dq := rq (tanW F) (tanW F).rm (1 - sqm) with hdq
  have hdq1 : dq ≤ 1 := rq_le_of_rep hW hone (by linarith) hd0hi _
  have hdq8 : 1/8 ≤ dq := by
    have := (abs_le.mp hdrel).1
    nlinarith
  obtain ⟨hdP, hdmag⟩ := posN_of_nn hd_nn (by linarith)
  set dF := subWithRm (Flt.one (tanW F) false) sx.sqr (tanW F).rm with hdF
  -- the square root
  have hfuelB : (2 * dF.sem.emax - dF.sem.emin).toNat + 2 * dF.sem.p + 20 ≤ innerFuel := by
    rw [hdP.sem, hWemax, hWemin]
    have hpow : 2 ^ (F.e - 1) ≤ 2 ^ 49 := Nat.pow_le_pow_right (by norm_num) (by omega)
    have hpowz : ((2 ^ (F.e - 1) : ℕ) : ℤ) ≤ 562949953421312 := by exact_mod_cast hpow
    unfold innerFuel
    generalize ((2 ^ (F.e - 1) : ℕ) : ℤ) = B at *
    omega
  obtain ⟨b, hsqrt⟩ := sqrt_fuel_linear (x := dF) (by rw [hdP.sem]; exact hW)
    (by rw [hdP.sem]; exact hdP) hfuelB
  have hrmW : dF.sem.rm = .nte ∨ dF.sem.rm = .nta := by rw [hdP.sem, tanW_rm]; exact hrm
  obtain ⟨hbP, hb1, hb3, _⟩ := sqrt_bounds (x := dF) (by rw [hdP.sem]; exact hW)
    (by rw [hdP.sem]; exact hdP) hsqrt
  rw [hdP.sem] at hbP hb1
  rw [hdmag] at hb1
  have hbreal := (C12.sqrt_error_real dF innerFuel (by rw [hdP.sem]; exact hW) hdP.can hdP.cat
    hdP.sign b hsqrt).2.2 hrmW
  rw [hbP.sem, hdmag] at hbreal
  have hbpos := hbP.mag_pos
  have hulpb : (tanW F).ulp b.exp ≤ u (tanW F) * b.mag := by
    rcases posN_ulp_cases hW hbP with h | ⟨h1, h2⟩
    · exact h
    · exfalso
      rw [h2, RelErr.ulp_eq_u] at hb1
      have : b.mag + u (tanW F) * (2:ℚ) ^ (tanW F).emin ≤ 1/8 := by nlinarith
      have h3 : (b.mag + u (tanW F) * (2:ℚ) ^ (tanW F).emin) *
          (b.mag + u (tanW F) * (2:ℚ) ^ (tanW F).emin) ≤ 1/8 * (1/8) :=
        mul_le_mul this this (by positivity) (by norm_num)
      linarith
  have hb13 : 1/3 ≤ b.mag := by
    by_contra hcon
    have hlt := not_le.mp hcon
    have h1 : b.mag + (tanW F).ulp b.exp ≤ 1/3 + 1/1000 := by nlinarith
    have h0 : 0 ≤ b.mag + (tanW F).ulp b.exp := by
      have := (tanW F).ulp_pos b.exp; linarith
    have h3 : (b.mag + (tanW F).ulp b.exp) * (b.mag + (tanW F).ulp b.exp) ≤
        (1/3 + 1/1000) * (1/3 + 1/1000) := mul_le_mul h1 h1 h0 (by norm_num)
    norm_num at h3
    linarith
  have hb2 : b.mag ≤ 2 := by
    have h := hb3 (by rw [hdP.sem, tanW_rm]; exact hrm)
    rw [hdP.sem, hdmag] at h
    by_contra hcon
    have hlt := not_le.mp hcon
    have hge : 1 < b.mag - (tanW F).ulp b.exp := by nlinarith
    rcases h with h | h
    · linarith
    · have : 1 * 1 < (b.mag - (tanW F).ulp b.exp) * (b.mag - (tanW F).ulp b.exp) :=
        mul_lt_mul'' hge hge (by norm_num) (by norm_num)
      linarith
  -- the quotient
  have hq0le : sx.mag / b.mag ≤ 3 := by
    rw [div_le_iff₀ hbpos]; nlinarith
  have hq0lo : (2:ℚ) ^ (tanW F).emin ≤ sx.mag / b.mag := by
    have h1 : sx.mag / 2 ≤ sx.mag / b.mag := by
      apply div_le_div_of_nonneg_left (le_of_lt hs0) hbpos hb2
    have h2 : (2:ℚ) ^ (tanW F).emin ≤ (2:ℚ) ^ (F.emin - (F.p:ℤ) - 1) / 2 := by
      rw [div_eq_mul_inv, ← zpow_sub_one₀ (by norm_num : (2:ℚ) ≠ 0)]
      apply zpow_le_zpow_right₀ (by norm_num)
      rw [hWemin]; omega
    linarith
  have hq_nn := nn_div hW (tanW F).rm (nn_of_posN hsx) (nn_of_posN hbP) hbpos
    (by linarith : sx.mag / b.mag ≤ maxFinite (tanW F))
  have hqrel := rq_rel hW hq0lo (by linarith : sx.mag / b.mag ≤ maxFinite (tanW F)) (tanW F).rm
  set q := rq (tanW F) (tanW F).rm (sx.mag / b.mag) with hq
  have hq3 : q ≤ 4 := by
    have h3 : IsRep (tanW F) 4 := by
      have := Ln2.isRep_pow2 hW 2 (by have := Sem.emin_le_zero hW; omega)
        (by have := S.pemax; have := S.p24; omega)
      norm_num at this; exact this
    exact rq_le_of_rep hW h3 (le_trans (le_of_lt heminpos) hq0lo) (by linarith) _
  have hqpos : 0 < q := by
    have := (abs_le.mp hqrel).1
    have h0 : 0 < sx.mag / b.mag := lt_of_lt_of_le heminpos hq0lo
    nlinarith
  obtain ⟨hresP, hresmag⟩ := posN_of_nn hq_nn hqpos
  -- the model
  have hcore : tanCore fuel (tanW F) v = some (divWithRm sx b (tanW F).rm) := by
    unfold tanCore
    rw [hsinfuel]
    simp only
    have h1 : ((Flt.one (tanW F) false).sub sx.sqr).sqrtM = some b := hsqrt
    rw [h1]
    simp only
    unfold Flt.div
    rw [hsx.sem]
  refine ⟨_, hcore, hresP, by rw [hresmag]; exact hq3, ?_⟩
  rw [hresmag]
  -- the error propagation
  have c1 : |((sqm : ℚ) : ℝ) - ((sx.mag : ℚ) : ℝ) * ((sx.mag : ℚ) : ℝ)| ≤
      ((u (tanW F) : ℚ) : ℝ) * (((sx.mag : ℚ) : ℝ) * ((sx.mag : ℚ) : ℝ)) := by
    have : |sqm - sx.mag * sx.mag| ≤ u (tanW F) * (sx.mag * sx.mag) := by
      rw [abs_le]; constructor <;> nlinarith
    have := (Rat.cast_le (K := ℝ)).mpr this
    rw [Rat.cast_abs] at this
    push_cast at this; exact this
  have c2 : |((dq : ℚ) : ℝ) - (1 - ((sqm : ℚ) : ℝ))| ≤
      ((u (tanW F) : ℚ) : ℝ) * (1 - ((sqm : ℚ) : ℝ)) := by
    have := (Rat.cast_le (K := ℝ)).mpr hdrel
    rw [Rat.cast_abs] at this
    push_cast at this; exact this
  have c3 : |((b.mag : ℚ) : ℝ) - Real.sqrt ((dq : ℚ) : ℝ)| ≤
      ((u (tanW F) : ℚ) : ℝ) * ((b.mag : ℚ) : ℝ) := by
    refine le_trans (le_of_lt hbreal) ?_
    have := (Rat.cast_le (K := ℝ)).mpr hulpb
    push_cast at this; exact this
  have c4 : |((q : ℚ) : ℝ) - ((sx.mag : ℚ) : ℝ) / ((b.mag : ℚ) : ℝ)| ≤
      ((u (tanW F) : ℚ) : ℝ) * (((sx.mag : ℚ) : ℝ) / ((b.mag : ℚ) : ℝ)) := by
    have := (Rat.cast_le (K := ℝ)).mpr hqrel
    rw [Rat.cast_abs] at this
    push_cast at this; exact this
  exact tan_chain hXr0 hXr1 hur0 hur hs c1 c2 (by exact_mod_cast hbpos) c3 c4

/-- the nested `sin` of `tan` on a reduced argument in `[1, 8/5]`: relative error `≤ 2u` -/
theorem sin_rel_tanW_big_wide (F : Sem) (hF : F.WF) (hp : 8 ≤ F.p) (hdom : F.p ≤ 2 ^ (F.e - 1) - 2)
    (hrm : F.rm = .nte ∨ F.rm = .nta) (he17 : F.e ≤ 50) (hp6 : F.p ≤ 249000) {v : Flt} (hv : PosN (tanW F) v)
    (hv1 : 1 ≤ v.mag) (hv85 : v.mag ≤ 8/5) {fuel0 : ℕ} (hpi : PiOKAt (sinW (tanW F)) fuel0)
    (fuel : ℕ) (hfuel : fuel0 ≤ fuel) :
    ∃ sx, v.sinFuel fuel = some sx ∧ PosN (tanW F) sx ∧
      |((sx.mag : ℚ) : ℝ) - Real.sin ((v.mag : ℚ) : ℝ)| ≤
        2 * ((u (tanW F) : ℚ) : ℝ) * Real.sin ((v.mag : ℚ) : ℝ) := by
  have hW := tanW_WF hF
  have hWemin := tanW_emin hF
  have hemin : F.emin = 2 - ((2 ^ (F.e - 1) : ℕ) : ℤ) := Sem.emin_eq F
  have hB : (F.p : ℤ) + 2 ≤ ((2 ^ (F.e - 1) : ℕ) : ℤ) := by
    have : F.p + 2 ≤ 2 ^ (F.e - 1) := by omega
    exact_mod_cast this
  obtain ⟨hp1, hp2⟩ := tanW_p_bounds hp
  have hpow : 2 ^ (F.e - 1) ≤ 2 ^ 49 := Nat.pow_le_pow_right (by norm_num) (by omega)
  have hbig : 0 ≤ v.exp := by
    by_contra h
    have := mag_lt_one hv.cat hv.can (by omega)
    linarith
  have hval : v.val = v.mag := by
    rw [Flt.val_normal hv.cat, hv.sign]; simp
  have hpi' : PiOKAt ((v.sem.growLog 12).increaseExponent 4) fuel0 := by
    rw [hv.sem]; exact hpi
  obtain ⟨r, h1, h2, h4, h5, h6, h7⟩ := C17.sin_accuracy_of_pi v
    (by rw [hv.sem]; exact hW) (by rw [hv.sem]; omega) (by rw [hv.sem]; omega)
    (by rw [hv.sem]; exact tanW_dom hF hp hdom)
    (by rw [hv.sem, tanW_rm]; exact hrm) hv.can hv.cat hbig
    (by rw [hval, abs_of_pos hv.mag_pos]; linarith) hpi' fuel hfuel
  rw [hv.sem] at h5 h7
  rw [hval] at h7
  have hX0 := hv.mag_pos
  have hXr0 : (0:ℝ) < ((v.mag : ℚ) : ℝ) := by exact_mod_cast hX0
  have hXr1 : (1:ℝ) ≤ ((v.mag : ℚ) : ℝ) := by exact_mod_cast hv1
  have hXr85 : ((v.mag : ℚ) : ℝ) ≤ 8/5 := by
    have := (Rat.cast_le (K := ℝ)).mpr hv85; push_cast at this; exact this
  have hShalf : 1/2 ≤ Real.sin ((v.mag : ℚ) : ℝ) := by
    have := sin_lower_big (le_of_lt hXr0) hXr85; linarith
  have hS1 : Real.sin ((v.mag : ℚ) : ℝ) ≤ 1 := Real.sin_le_one _
  set S := Real.sin ((v.mag : ℚ) : ℝ) with hSdef
  have hS0 : 0 < S := by linarith
  rw [abs_of_pos hS0] at h7
  -- `ulpR ≤ u`
  have hur : ((u (tanW F) : ℚ) : ℝ) = (2:ℝ) ^ (1 - ((tanW F).p:ℤ)) := by
    unfold RelErr.u; push_cast; rfl
  have hlog : Int.log 2 S < 1 := by
    apply (Int.lt_zpow_iff_log_lt (b := 2) (by norm_num) hS0).mp
    norm_num; linarith
  have hulp : C17.ulpR (tanW F) S ≤ ((u (tanW F) : ℚ) : ℝ) := by
    unfold C17.ulpR
    rw [hur]
    apply zpow_le_zpow_right₀ (by norm_num)
    have : max (Int.log 2 S) (tanW F).emin ≤ 0 := max_le (by omega) (by rw [hWemin]; omega)
    omega
  have hfloor : (2:ℝ) ^ (-((tanW F).p:ℤ) - 6) ≤ ((u (tanW F) : ℚ) : ℝ) := by
    rw [hur]; exact zpow_le_zpow_right₀ (by norm_num) (by omega)
  have herr : |((r.val : ℚ) : ℝ) - S| ≤ ((u (tanW F) : ℚ) : ℝ) :=
    le_trans h7 (max_le hulp hfloor)
  have hu0 := RelErr.u_pos (tanW F)
  have hu1 : u (tanW F) ≤ 1/2 ^ 23 := by
    have := u_le_of_le_p (F := tanW F) (k := 24) (by omega)
    norm_num at this ⊢; linarith
  have hur0 : (0:ℝ) < ((u (tanW F) : ℚ) : ℝ) := by exact_mod_cast hu0
  have hur1 : ((u (tanW F) : ℚ) : ℝ) ≤ 1/4 := by
    have := (Rat.cast_le (K := ℝ)).mpr hu1; push_cast at this ⊢; linarith
  have hrpos : (0:ℝ) < ((r.val : ℚ) : ℝ) := by
    have := (abs_le.mp herr).1; linarith
  have hrposq : 0 < r.val := by exact_mod_cast hrpos
  have hrn : r.cat = .normal := by
    rcases h2 with h | h
    · exact h
    · exfalso; rw [Flt.val_zero h] at hrposq; exact lt_irrefl _ hrposq
  have hrsign : r.sign = false := by
    by_contra hsg
    have hsg' : r.sign = true := by simpa using hsg
    have hm := Flt.mag_pos r hrn h4
    rw [Flt.val_normal hrn, hsg'] at hrposq
    simp at hrposq
    linarith
  have hrP : PosN (tanW F) r := ⟨h5, h4, hrn, hrsign⟩
  have hrval : r.val = r.mag := by
    rw [Flt.val_normal hrn, hrsign]; simp
  rw [hrval] at herr
  refine ⟨r, h1, hrP, le_trans herr ?_⟩
  nlinarith

set_option maxHeartbeats 400000 in
/-- **`tanCore`** given the nested sine `sx` (relative error `≤ 2u`) of an angle `X` with
`cos X ≥ 1/66`: relative error `≤ 10^5·u` of the working format -/
theorem tanCore_gen_wide (F : Sem) (hF : F.WF) (hp : 8 ≤ F.p) (hdom : F.p ≤ 2 ^ (F.e - 1) - 2)
    (hrm : F.rm = .nte ∨ F.rm = .nta) (he17 : F.e ≤ 50) (hp6 : F.p ≤ 249000) {v sx : Flt} {fuel : ℕ} (X : ℝ)
    (hsinfuel : v.sinFuel fuel = some sx) (hsx : PosN (tanW F) sx)
    (hS0 : 0 < Real.sin X) (hC : 1/66 ≤ Real.cos X)
    (hs : |((sx.mag : ℚ) : ℝ) - Real.sin X| ≤ 2 * ((u (tanW F) : ℚ) : ℝ) * Real.sin X)
    (j : ℤ) (hj : 8 * F.emin - 10 ≤ j) (hslo2 : (2:ℚ) ^ j ≤ sx.mag) :
    ∃ res, tanCore fuel (tanW F) v = some res ∧ PosN (tanW F) res ∧ res.mag ≤ 128 ∧
      |((res.mag : ℚ) : ℝ) - Real.tan X| ≤ 100000 * ((u (tanW F) : ℚ) : ℝ) * Real.tan X := by
  have hW := tanW_WF hF
  have S := tanW_ctx F hF hp hdom hrm
  have hWemin := tanW_emin hF
  have hWemax := tanW_emax hF
  have hemin : F.emin = 2 - ((2 ^ (F.e - 1) : ℕ) : ℤ) := Sem.emin_eq F
  have hB : (F.p : ℤ) + 2 ≤ ((2 ^ (F.e - 1) : ℕ) : ℤ) := by
    have : F.p + 2 ≤ 2 ^ (F.e - 1) := by omega
    exact_mod_cast this
  obtain ⟨hp1, hp2⟩ := tanW_p_bounds hp
  have hu0 := RelErr.u_pos (tanW F)
  have hu31 : u (tanW F) ≤ 1 / 2 ^ 31 := by
    have := u_le_of_le_p (F := tanW F) (k := 32) (by omega)
    norm_num at this ⊢; linarith
  have hu : u (tanW F) ≤ 1/1000000 := by norm_num at hu31 ⊢; linarith
  have hur0 : (0:ℝ) < ((u (tanW F) : ℚ) : ℝ) := by exact_mod_cast hu0
  have hur31 : ((u (tanW F) : ℚ) : ℝ) ≤ 1 / 2 ^ 31 := by
    have := (Rat.cast_le (K := ℝ)).mpr hu31; push_cast at this ⊢; linarith
  have hur : ((u (tanW F) : ℚ) : ℝ) ≤ 1/1000000 := by norm_num at hur31 ⊢; linarith
  have h16 := S.max16
  have hmax128 : (128:ℚ) ≤ maxFinite (tanW F) := by
    have hpp : 1 ≤ (tanW F).p := by omega
    have h1 := pow_emax_le_maxFinite (F := tanW F) hpp
    have h2 : (2:ℚ) ^ (7:ℤ) ≤ (2:ℚ) ^ (tanW F).emax :=
      zpow_le_zpow_right₀ (by norm_num) (by rw [hWemax]; omega)
    norm_num at h2; linarith
  have hone : IsRep (tanW F) 1 := by
    have := Ln2.isRep_pow2 hW 0 (by have := Sem.emin_le_zero hW; omega)
      (by have := Sem.emax_pos hW; omega)
    simpa using this
  have heminpos : (0:ℚ) < (2:ℚ) ^ (tanW F).emin := by positivity
  have hpyth : Real.sin X * Real.sin X + Real.cos X * Real.cos X = 1 := by
    have := Real.sin_sq_add_cos_sq X; nlinarith
  have hs0 := hsx.mag_pos
  -- the square
  have hsqlo : (2:ℚ) ^ ((tanW F).emin + 8) ≤ sx.mag ^ 2 := by
    have h1 : ((2:ℚ) ^ j) ^ 2 ≤ sx.mag ^ 2 := pow_le_pow_left₀ (by positivity) hslo2 2
    refine le_trans ?_ h1
    rw [← zpow_natCast, ← zpow_mul]
    apply zpow_le_zpow_right₀ (by norm_num)
    rw [hWemin]; push_cast; omega
  -- a first bound `s ≤ 2`
  have hs2r : ((sx.mag : ℚ) : ℝ) ≤ 2 := by
    have h1 := relR_upper hs
    have h2 := Real.sin_le_one X
    nlinarith
  have hs2q : sx.mag ≤ 2 := by
    have : ((sx.mag : ℚ) : ℝ) ≤ (((2 : ℚ)) : ℝ) := by push_cast; exact hs2r
    exact (Rat.cast_le (K := ℝ)).mp this
  obtain ⟨hsqP, hsq1, hsq2⟩ := sqr_posN S hsx hs2q hsqlo
  set sqm := sx.sqr.mag with hsqm
  have c1 : |((sqm : ℚ) : ℝ) - ((sx.mag : ℚ) : ℝ) * ((sx.mag : ℚ) : ℝ)| ≤
      ((u (tanW F) : ℚ) : ℝ) * (((sx.mag : ℚ) : ℝ) * ((sx.mag : ℚ) : ℝ)) := by
    have : |sqm - sx.mag * sx.mag| ≤ u (tanW F) * (sx.mag * sx.mag) := by
      rw [abs_le]; constructor <;> nlinarith
    have := (Rat.cast_le (K := ℝ)).mpr this
    rw [Rat.cast_abs] at this
    push_cast at this; exact this
  obtain ⟨_, hs1r, hsq5000⟩ := tan_sq_bound_gen hS0 hC hpyth hur0 hur hs c1
  have hs1 : sx.mag ≤ 1 := by
    have : ((sx.mag : ℚ) : ℝ) ≤ (((1 : ℚ)) : ℝ) := by push_cast; exact hs1r
    exact (Rat.cast_le (K := ℝ)).mp this
  have hsqm5000 : sqm ≤ 1 - 1/5000 := by
    have : ((sqm : ℚ) : ℝ) ≤ (((1 - 1/5000 : ℚ)) : ℝ) := by push_cast; exact hsq5000
    exact (Rat.cast_le (K := ℝ)).mp this
  have hsqm0 : 0 < sqm := hsqP.mag_pos
  -- `1 − s²`
  have hd0lo : 1/5000 ≤ 1 - sqm := by linarith
  have hd0hi : 1 - sqm ≤ 1 := by linarith
  have hd_nn := nn_sub hW (tanW F).rm (one_nn hW) (nn_of_posN hsqP) (by linarith)
    (by linarith : 1 - sqm ≤ maxFinite (tanW F))
  have hemin5 : (2:ℚ) ^ (tanW F).emin ≤ 1/2 ^ 16 := by
    calc (2:ℚ) ^ (tanW F).emin ≤ (2:ℚ) ^ (-16:ℤ) :=
          zpow_le_zpow_right₀ (by norm_num) (by rw [hWemin]; omega)
      _ = 1/2 ^ 16 := by norm_num
  have hdrel := rq_rel hW (q := 1 - sqm) (by norm_num at hemin5 ⊢; linarith) (by linarith)
    (tanW F).rm
  set dq := rq (tanW F) (tanW F).rm (1 - sqm) with hdq
  have hdq1 : dq ≤ 1 := rq_le_of_rep hW hone (by linarith) hd0hi _
  have hdq8 : 1/8192 ≤ dq := by
    have := (abs_le.mp hdrel).1
    nlinarith
  obtain ⟨hdP, hdmag⟩ := posN_of_nn hd_nn (by linarith)
  set dF := subWithRm (Flt.one (tanW F) false) sx.sqr (tanW F).rm with hdF
  -- the square root
  have hfuelB : (2 * dF.sem.emax - dF.sem.emin).toNat + 2 * dF.sem.p + 20 ≤ innerFuel := by
    rw [hdP.sem, hWemax, hWemin]
    have hpow : 2 ^ (F.e - 1) ≤ 2 ^ 49 := Nat.pow_le_pow_right (by norm_num) (by omega)
    have hpowz : ((2 ^ (F.e - 1) : ℕ) : ℤ) ≤ 562949953421312 := by exact_mod_cast hpow
    unfold innerFuel
    generalize ((2 ^ (F.e - 1) : ℕ) : ℤ) = B at *
    omega
  obtain ⟨b, hsqrt⟩ := sqrt_fuel_linear (x := dF) (by rw [hdP.sem]; exact hW)
    (by rw [hdP.sem]; exact hdP) hfuelB
  have hrmW : dF.sem.rm = .nte ∨ dF.sem.rm = .nta := by rw [hdP.sem, tanW_rm]; exact hrm
  obtain ⟨hbP, hb1, hb3, _⟩ := sqrt_bounds (x := dF) (by rw [hdP.sem]; exact hW)
    (by rw [hdP.sem]; exact hdP) hsqrt
  rw [hdP.sem] at hbP hb1
  rw [hdmag] at hb1
  have hbreal := (C12.sqrt_error_real dF innerFuel (by rw [hdP.sem]; exact hW) hdP.can hdP.cat
    hdP.sign b hsqrt).2.2 hrmW
  rw [hbP.sem, hdmag] at hbreal
  have hbpos := hbP.mag_pos
  have hulpb : (tanW F).ulp b.exp ≤ u (tanW F) * b.mag := by
    rcases posN_ulp_cases hW hbP with h | ⟨h1, h2⟩
    · exact h
    · exfalso
      rw [h2, RelErr.ulp_eq_u] at hb1
      have : b.mag + u (tanW F) * (2:ℚ) ^ (tanW F).emin ≤ 1/128 := by
        norm_num at hemin5; nlinarith
      have h3 : (b.mag + u (tanW F) * (2:ℚ) ^ (tanW F).emin) *
          (b.mag + u (tanW F) * (2:ℚ) ^ (tanW F).emin) ≤ 1/128 * (1/128) :=
        mul_le_mul this this (by positivity) (by norm_num)
      norm_num at h3
      linarith
  have hb13 : 1/128 ≤ b.mag := by
    by_contra hcon
    have hlt := not_le.mp hcon
    have h1 : b.mag + (tanW F).ulp b.exp ≤ 1/128 + 1/128000000 := by nlinarith
    have h0 : 0 ≤ b.mag + (tanW F).ulp b.exp := by
      have := (tanW F).ulp_pos b.exp; linarith
    have h3 : (b.mag + (tanW F).ulp b.exp) * (b.mag + (tanW F).ulp b.exp) ≤
        (1/128 + 1/128000000) * (1/128 + 1/128000000) := mul_le_mul h1 h1 h0 (by norm_num)
    norm_num at h3
    linarith
  have hb2 : b.mag ≤ 2 := by
    have h := hb3 (by rw [hdP.sem, tanW_rm]; exact hrm)
    rw [hdP.sem, hdmag] at h
    by_contra hcon
    have hlt := not_le.mp hcon
    have hge : 1 < b.mag - (tanW F).ulp b.exp := by nlinarith
    rcases h with h | h
    · linarith
    · have : 1 * 1 < (b.mag - (tanW F).ulp b.exp) * (b.mag - (tanW F).ulp b.exp) :=
        mul_lt_mul'' hge hge (by norm_num) (by norm_num)
      linarith
  -- the quotient
  have hq0le : sx.mag / b.mag ≤ 128 := by
    rw [div_le_iff₀ hbpos]; nlinarith
  have hq0lo : (2:ℚ) ^ (tanW F).emin ≤ sx.mag / b.mag := by
    have h1 : sx.mag / 2 ≤ sx.mag / b.mag := by
      apply div_le_div_of_nonneg_left (le_of_lt hs0) hbpos hb2
    have h2 : (2:ℚ) ^ (tanW F).emin ≤ (2:ℚ) ^ j / 2 := by
      rw [div_eq_mul_inv, ← zpow_sub_one₀ (by norm_num : (2:ℚ) ≠ 0)]
      apply zpow_le_zpow_right₀ (by norm_num)
      rw [hWemin]; omega
    linarith
  have hq_nn := nn_div hW (tanW F).rm (nn_of_posN hsx) (nn_of_posN hbP) hbpos
    (by linarith : sx.mag / b.mag ≤ maxFinite (tanW F))
  have hqrel := rq_rel hW hq0lo (by linarith : sx.mag / b.mag ≤ maxFinite (tanW F)) (tanW F).rm
  set q := rq (tanW F) (tanW F).rm (sx.mag / b.mag) with hq
  have hq3 : q ≤ 128 := by
    have h3 : IsRep (tanW F) 128 := by
      have := Ln2.isRep_pow2 hW 7 (by have := Sem.emin_le_zero hW; omega)
        (by rw [hWemax]; omega)
      norm_num at this; exact this
    exact rq_le_of_rep hW h3 (le_trans (le_of_lt heminpos) hq0lo) hq0le _
  have hqpos : 0 < q := by
    have := (abs_le.mp hqrel).1
    have h0 : 0 < sx.mag / b.mag := lt_of_lt_of_le heminpos hq0lo
    nlinarith
  obtain ⟨hresP, hresmag⟩ := posN_of_nn hq_nn hqpos
  -- the model
  have hcore : tanCore fuel (tanW F) v = some (divWithRm sx b (tanW F).rm) := by
    unfold tanCore
    rw [hsinfuel]
    simp only
    have h1 : ((Flt.one (tanW F) false).sub sx.sqr).sqrtM = some b := hsqrt
    rw [h1]
    simp only
    unfold Flt.div
    rw [hsx.sem]
  refine ⟨_, hcore, hresP, by rw [hresmag]; exact hq3, ?_⟩
  rw [hresmag]
  -- the error propagation
  have c2 : |((dq : ℚ) : ℝ) - (1 - ((sqm : ℚ) : ℝ))| ≤
      ((u (tanW F) : ℚ) : ℝ) * (1 - ((sqm : ℚ) : ℝ)) := by
    have := (Rat.cast_le (K := ℝ)).mpr hdrel
    rw [Rat.cast_abs] at this
    push_cast at this; exact this
  have c3 : |((b.mag : ℚ) : ℝ) - Real.sqrt ((dq : ℚ) : ℝ)| ≤
      ((u (tanW F) : ℚ) : ℝ) * ((b.mag : ℚ) : ℝ) := by
    refine le_trans (le_of_lt hbreal) ?_
    have := (Rat.cast_le (K := ℝ)).mpr hulpb
    push_cast at this; exact this
  have c4 : |((q : ℚ) : ℝ) - ((sx.mag : ℚ) : ℝ) / ((b.mag : ℚ) : ℝ)| ≤
      ((u (tanW F) : ℚ) : ℝ) * (((sx.mag : ℚ) : ℝ) / ((b.mag : ℚ) : ℝ)) := by
    have := (Rat.cast_le (K := ℝ)).mpr hqrel
    rw [Rat.cast_abs] at this
    push_cast at this; exact this
  have hC0 : 0 < Real.cos X := by linarith
  have hK : Real.sin X * Real.sin X ≤ 4355 * (Real.cos X * Real.cos X) := by
    have : 1/4356 ≤ Real.cos X * Real.cos X := by nlinarith
    nlinarith
  have hchain := tan_chain_gen (K := 4355) hS0 hC0 hpyth (by norm_num) hK hur0
    (by norm_num at hur31 ⊢; linarith) hs c1 c2 (by exact_mod_cast hbpos) c3 c4
  rw [Real.tan_eq_sin_div_cos]
  refine le_trans hchain (mul_le_mul_of_nonneg_right ?_ (le_of_lt (div_pos hS0 hC0)))
  nlinarith

/-- `tanCore` on a zero reduced argument returns a zero -/
theorem tanCore_zero_wide (F : Sem) (hF : F.WF) (hp : 8 ≤ F.p) (hdom : F.p ≤ 2 ^ (F.e - 1) - 2)
    (hrm : F.rm = .nte ∨ F.rm = .nta) (he17 : F.e ≤ 50) (hp6 : F.p ≤ 249000) {v : Flt} (hvs : v.sem = tanW F)
    (hvc : v.Canonical) (hvz : v.cat = .zero) (fuel : ℕ) :
    ∃ res, tanCore fuel (tanW F) v = some res ∧ res.cat = .zero := by
  have hW := tanW_WF hF
  have hWemin := tanW_emin hF
  have hWemax := tanW_emax hF
  have hemin : F.emin = 2 - ((2 ^ (F.e - 1) : ℕ) : ℤ) := Sem.emin_eq F
  have hB : (F.p : ℤ) + 2 ≤ ((2 ^ (F.e - 1) : ℕ) : ℤ) := by
    have : F.p + 2 ≤ 2 ^ (F.e - 1) := by omega
    exact_mod_cast this
  obtain ⟨hp1, hp2⟩ := tanW_p_bounds hp
  have hone : IsRep (tanW F) 1 := by
    have := Ln2.isRep_pow2 hW 0 (by have := Sem.emin_le_zero hW; omega)
      (by have := Sem.emax_pos hW; omega)
    simpa using this
  have hmax1 : (1:ℚ) ≤ maxFinite (tanW F) := hone.le_maxFinite
  have hsin : v.sinFuel fuel = some v := by
    unfold Flt.sinFuel
    simp [Flt.isZero, hvz]
  obtain ⟨hzc, hzs⟩ := sqr_canonical v (by rw [hvs]; exact hW) hvc
  have hzcat : v.sqr.cat = .zero := powi2_zero_cat hvz
  have hznn : NN (tanW F) v.sqr 0 :=
    ⟨hzs.trans hvs, hzc, Or.inr hzcat, fun h => by rw [hzcat] at h; exact absurd h (by decide),
      Flt.val_zero hzcat⟩
  have hd_nn := nn_sub hW (tanW F).rm (one_nn hW) hznn (by norm_num) (by linarith)
  rw [sub_zero, rq_rep hW hone] at hd_nn
  obtain ⟨hdP, hdmag⟩ := posN_of_nn hd_nn (by norm_num)
  obtain ⟨h1P, h1mag⟩ := posN_of_nn (one_nn hW) (by norm_num)
  set dF := subWithRm (Flt.one (tanW F) false) v.sqr (tanW F).rm with hdF
  have hfuelB : (2 * dF.sem.emax - dF.sem.emin).toNat + 2 * dF.sem.p + 20 ≤ innerFuel := by
    rw [hdP.sem, hWemax, hWemin]
    have hpow : 2 ^ (F.e - 1) ≤ 2 ^ 49 := Nat.pow_le_pow_right (by norm_num) (by omega)
    have hpowz : ((2 ^ (F.e - 1) : ℕ) : ℤ) ≤ 562949953421312 := by exact_mod_cast hpow
    unfold innerFuel
    generalize ((2 ^ (F.e - 1) : ℕ) : ℤ) = B at *
    omega
  obtain ⟨b, hsqrt⟩ := sqrt_fuel_linear (x := dF) (by rw [hdP.sem]; exact hW)
    (by rw [hdP.sem]; exact hdP) hfuelB
  have hb1 : b = Flt.one (tanW F) false :=
    C12.sqrt_perfect_square dF (Flt.one (tanW F) false) innerFuel (by rw [hdP.sem]; exact hW)
      hdP.can hdP.cat hdP.sign (by rw [hdP.sem, tanW_rm]; exact hrm) (by rw [hdP.sem]; rfl)
      h1P.can h1P.cat h1P.sign (by rw [hdmag, h1mag]; norm_num) b hsqrt
  refine ⟨divWithRm v (Flt.one (tanW F) false) (tanW F).rm, ?_, divWithRm_zero_cat _ hvz h1P.cat⟩
  unfold tanCore
  rw [hsin]
  simp only
  have h1 : ((Flt.one (tanW F) false).sub v.sqr).sqrtM = some b := hsqrt
  rw [h1, hb1]
  simp only
  unfold Flt.div
  rw [hvs]

/-- **`tanFuel` for `1 ≤ |x| ≤ 128`, `|cos x| ≥ 1/65`** (given `π` in the working formats of `tan`
and of the nested `sin`): the result is the rounding of `q` with the sign `neg`, where `q` is
within `2^-(p+6)·|T| + 2^(4-2p)` of `T = ± tan |x|`. -/
theorem tan_big_core_wide (x : Flt) (hF : x.sem.WF) (hp : 8 ≤ x.sem.p)
    (hdom : x.sem.p ≤ 2 ^ (x.sem.e - 1) - 2) (he17 : x.sem.e ≤ 50) (hp6 : x.sem.p ≤ 249000)
    (hrm : x.sem.rm = .nte ∨ x.sem.rm = .nta)
    (hc : x.Canonical) (hn : x.cat = .normal) (hbig : 0 ≤ x.exp) (h128 : x.mag ≤ 128)
    (hcos : 1/65 ≤ |Real.cos ((x.mag : ℚ) : ℝ)|)
    {fuel0 : ℕ} (hpi1 : PiOKAt (tanW x.sem) fuel0) (hpi2 : PiOKAt (sinW (tanW x.sem)) fuel0)
    (fuel : ℕ) (hfuel : fuel0 ≤ fuel) :
    ∃ (r : Flt) (q : ℚ) (neg : Bool) (T : ℝ), x.tanFuel fuel = some r ∧
      (r.cat = .normal ∨ r.cat = .zero) ∧ r.Canonical ∧ r.sem = x.sem ∧
      r.val = (if neg then -1 else 1) * rq x.sem x.sem.rm q ∧ 0 ≤ q ∧ q ≤ 128 ∧
      Real.tan ((x.mag : ℚ) : ℝ) = (if neg = x.sign then 1 else -1) * T ∧ |T| ≤ 128 ∧
      |((q : ℚ) : ℝ) - T| ≤ (2:ℝ) ^ (-(x.sem.p:ℤ) - 6) * |T| + (2:ℝ) ^ (4 - 2 * (x.sem.p:ℤ)) := by
  have hW : (tanW x.sem).WF := tanW_WF hF
  have S' := tanW_ctx x.sem hF hp hdom hrm
  have hWemin := tanW_emin hF
  have hemin : x.sem.emin = 2 - ((2 ^ (x.sem.e - 1) : ℕ) : ℤ) := Sem.emin_eq x.sem
  have hB : (x.sem.p : ℤ) + 2 ≤ ((2 ^ (x.sem.e - 1) : ℕ) : ℤ) := by
    have : x.sem.p + 2 ≤ 2 ^ (x.sem.e - 1) := by omega
    exact_mod_cast this
  obtain ⟨hp1, hp2⟩ := tanW_p_bounds hp
  have hpow : 2 ^ (x.sem.e - 1) ≤ 2 ^ 49 := Nat.pow_le_pow_right (by norm_num) (by omega)
  obtain ⟨pi, hpiH, hpifuel⟩ := hpi1.piHat hW
  obtain ⟨a1, a2, a3, a4, a5⟩ := C06.widen_lossless_normal x (tanW x.sem) .none
    (by rw [tanW_e]; omega) (by omega) hF hW hn hc
  set v0 := x.castWithRm (tanW x.sem) .none with hv0
  obtain ⟨hPos, hmag⟩ := absOf_posN a1 a2 a3
  rw [a5] at hmag
  have hemin8 : x.sem.emin ≤ -8 := by
    have h2 : 10 ≤ 2 ^ (x.sem.e - 1) := by omega
    have : (10:ℤ) ≤ ((2 ^ (x.sem.e - 1) : ℕ) : ℤ) := by exact_mod_cast h2
    omega
  have hemax : 9 ≤ x.sem.emax := by have := Sqrt.emin_add_emax hF; omega
  have hX1 : 1 ≤ x.mag := one_le_mag hF (by omega) hn hc hbig
  have hfuelrem : (tanW x.sem).p + 10 ≤ innerFuel := by unfold innerFuel; omega
  obtain ⟨v4, neg, θq, hred, hv4, hθfix, hθ0, hθ85, θ, hθerr, htan, hθlo, hθhi, hcosθ⟩ :=
    tan_reduce hW S'.p24 S'.pemax hfuelrem hpiH hPos (by rw [hmag]; exact hX1)
      (by rw [hmag]; exact h128) v0.sign
  rw [hmag] at htan hcosθ
  rw [a4] at htan
  -- `tanFuel`
  have hfuelEq : x.tanFuel fuel =
      (tanCore fuel (tanW x.sem) v4).map (fun res => (if neg then res.neg else res).cast x.sem) := by
    rw [tanFuel_normal fuel x hn]
    have hd : decide (x.exp < 0) = false := by simp; omega
    rw [hd]
    unfold tanTail
    have hpf : piFuel fuel (((x.sem.increasePrecision x.sem.p).growLog 12).increaseExponent 4) =
        some pi := hpifuel fuel hfuel
    have hred' : tanRedCore pi
        (absOf (x.castWithRm (((x.sem.increasePrecision x.sem.p).growLog 12).increaseExponent 4)
          .none))
        (x.castWithRm (((x.sem.increasePrecision x.sem.p).growLog 12).increaseExponent 4)
          .none).sign = some (v4, neg) := hred
    rw [tanRed_big, hpf]
    simp only
    rw [hred']
    rfl
  -- the angle
  set ε : ℝ := (2:ℝ) ^ (-((tanW x.sem).p:ℤ)) with hε
  have hε0 : 0 < ε := by rw [hε]; positivity
  have hε32 : ε ≤ (2:ℝ) ^ (-(2 * (x.sem.p:ℤ)) - 16) := by
    rw [hε]; exact zpow_le_zpow_right₀ (by norm_num) (by omega)
  have hε32' : ε ≤ 1 / 2 ^ 32 := by
    calc ε ≤ (2:ℝ) ^ (-32:ℤ) := by
          rw [hε]; exact zpow_le_zpow_right₀ (by norm_num) (by omega)
      _ = 1 / 2 ^ 32 := by norm_num
  set δ : ℝ := 200 * ε with hδ
  have hδ0 : 0 ≤ δ := by rw [hδ]; positivity
  have hδ5 : δ ≤ 1/100000 := by rw [hδ]; norm_num at hε32' ⊢; linarith
  obtain ⟨hc65, hc66, hlip⟩ := tan_angle hδ0 hδ5 hθerr hθlo hθhi (by rw [← hcosθ]; exact hcos)
  set T : ℝ := Real.tan θ with hT
  have hT128 : |T| ≤ 128 := by
    rw [hT, Real.tan_eq_sin_div_cos, abs_div, abs_of_pos (by linarith : 0 < Real.cos θ),
      div_le_iff₀ (by linarith)]
    have := Real.abs_sin_le_one θ
    nlinarith
  -- the absolute part of the error
  set A : ℝ := (2:ℝ) ^ (4 - 2 * (x.sem.p:ℤ)) with hA
  have hA0 : 0 < A := by rw [hA]; positivity
  have hεA : 1048576 * ε ≤ A := by
    have e : A = 1048576 * (2:ℝ) ^ (-(2 * (x.sem.p:ℤ)) - 16) := by
      rw [hA, show (4 - 2 * (x.sem.p:ℤ)) = (-(2 * (x.sem.p:ℤ)) - 16) + 20 by ring,
        zpow_add₀ (by norm_num : (2:ℝ) ≠ 0)]
      norm_num; ring
    rw [e]; linarith
  set E6 : ℝ := (2:ℝ) ^ (-(x.sem.p:ℤ) - 6) with hE6
  have hE60 : 0 < E6 := by rw [hE6]; positivity
  have hE61 : E6 ≤ 1/64 := by
    calc E6 ≤ (2:ℝ) ^ (-6:ℤ) := zpow_le_zpow_right₀ (by norm_num) (by omega)
      _ = 1/64 := by norm_num
  rcases eq_or_lt_of_le hθ0 with hz | hpos
  · -- a zero reduced argument
    have hv4z : v4.cat = .zero := by
      rcases hv4.fin with h | h
      · have := nn_val_pos_normal hv4 h; linarith
      · exact h
    obtain ⟨res, hcore, hresz⟩ := tanCore_zero_wide x.sem hF hp hdom hrm he17 hp6 hv4.sem hv4.can hv4z fuel
    rw [hcore] at hfuelEq
    simp only [Option.map_some] at hfuelEq
    set y := (if neg then res.neg else res) with hy
    have hycat : y.cat = .zero := by
      rw [hy]; split <;> exact hresz
    have hyz : y.cat ≠ .normal := by rw [hycat]; decide
    obtain ⟨c1, c2, c3, c4⟩ := C06.cast_special_canonical y x.sem y.sem.rm hyz
    have hrcat : (y.cast x.sem).cat = .zero := by
      show (y.castWithRm x.sem y.sem.rm).cat = .zero
      rw [c2, hycat]
    refine ⟨y.cast x.sem, 0, neg, T, hfuelEq, Or.inr hrcat, c1, c4, ?_, le_refl _, by norm_num,
      htan, hT128, ?_⟩
    · rw [Flt.val_zero hrcat, rq_zero, mul_zero]
    · have hθabs : |θ| ≤ δ := by
        rw [← hz] at hθerr
        simpa [abs_neg] using hθerr
      have := tan_tiny (by linarith) hθabs
      simp only [Rat.cast_zero, zero_sub, abs_neg]
      have h1 : 0 ≤ E6 * |T| := mul_nonneg (le_of_lt hE60) (abs_nonneg _)
      rw [hδ] at this
      linarith
  · -- a positive reduced argument
    obtain ⟨hv4P, hv4mag⟩ := posN_of_nn hv4 hpos
    have hθr0 : (0:ℝ) < ((θq : ℚ) : ℝ) := by exact_mod_cast hpos
    have hθr85 : ((θq : ℚ) : ℝ) ≤ 8/5 := by
      have := (Rat.cast_le (K := ℝ)).mpr hθ85; push_cast at this; exact this
    have hS0 : 0 < Real.sin ((θq : ℚ) : ℝ) := sin_pos_big hθr0 hθr85
    have hunit : 1 / 2 ^ ((tanW x.sem).p - 1) ≤ θq := hθfix.pos_ge hpos
    have hu0 := RelErr.u_pos (tanW x.sem)
    have hur0 : (0:ℝ) < ((u (tanW x.sem) : ℚ) : ℝ) := by exact_mod_cast hu0
    have hur : ((u (tanW x.sem) : ℚ) : ℝ) = 2 * ε := by
      unfold RelErr.u
      push_cast
      rw [hε, show (1:ℤ) - ((tanW x.sem).p:ℤ) = -((tanW x.sem).p:ℤ) + 1 by ring,
        zpow_add_one₀ (by norm_num : (2:ℝ) ≠ 0)]
      ring
    -- the nested sine
    have hsin : ∃ sx, v4.sinFuel fuel = some sx ∧ PosN (tanW x.sem) sx ∧
        |((sx.mag : ℚ) : ℝ) - Real.sin ((θq : ℚ) : ℝ)| ≤
          2 * ((u (tanW x.sem) : ℚ) : ℝ) * Real.sin ((θq : ℚ) : ℝ) := by
      by_cases hlt1 : θq < 1
      · obtain ⟨sx, h1, h2, h3⟩ := sin_rel_tanW x.sem hF hp hdom hrm hv4P
          (by rw [hv4mag]; exact hlt1) (-(((tanW x.sem).p - 1 : ℕ) : ℤ)) (by omega)
          (by rw [hv4mag, zpow_neg, zpow_natCast, ← one_div]; exact hunit) fuel
        rw [hv4mag] at h3
        refine ⟨sx, h1, h2, le_trans h3 ?_⟩
        have : 0 ≤ ((u (tanW x.sem) : ℚ) : ℝ) * Real.sin ((θq : ℚ) : ℝ) :=
          mul_nonneg (le_of_lt hur0) (le_of_lt hS0)
        linarith
      · obtain ⟨sx, h1, h2, h3⟩ := sin_rel_tanW_big_wide x.sem hF hp hdom hrm he17 hp6 hv4P
          (by rw [hv4mag]; exact not_lt.mp hlt1) (by rw [hv4mag]; exact hθ85) hpi2 fuel hfuel
        rw [hv4mag] at h3
        exact ⟨sx, h1, h2, h3⟩
    obtain ⟨sx, hsinfuel, hsx, hs⟩ := hsin
    -- a lower bound of the sine
    have hslo : (2:ℚ) ^ (-(((tanW x.sem).p + 1 : ℕ) : ℤ)) ≤ sx.mag := by
      have h1 := relR_lower hs
      have h2 := sin_lower_big (le_of_lt hθr0) hθr85
      have h3 : (1/2) * Real.sin ((θq : ℚ) : ℝ) ≤
          (1 - 2 * ((u (tanW x.sem) : ℚ) : ℝ)) * Real.sin ((θq : ℚ) : ℝ) :=
        mul_le_mul_of_nonneg_right (by rw [hur]; norm_num at hε32'; linarith) (le_of_lt hS0)
      have h4 : (((θq / 4 : ℚ)) : ℝ) ≤ ((sx.mag : ℚ) : ℝ) := by push_cast; linarith
      have h5 : θq / 4 ≤ sx.mag := (Rat.cast_le (K := ℝ)).mp h4
      have e : (2:ℚ) ^ (-(((tanW x.sem).p + 1 : ℕ) : ℤ)) = 1 / 2 ^ ((tanW x.sem).p - 1) / 4 := by
        rw [zpow_neg, zpow_natCast, show (tanW x.sem).p + 1 = ((tanW x.sem).p - 1) + 2 by omega,
          pow_add]
        field_simp; norm_num
      rw [e]; linarith
    obtain ⟨res, hcore, hresP, hres128, hreserr⟩ := tanCore_gen_wide x.sem hF hp hdom hrm he17 hp6
      (((θq : ℚ) : ℝ)) hsinfuel hsx hS0 hc66 hs (-(((tanW x.sem).p + 1 : ℕ) : ℤ))
      (by push_cast; omega) hslo
    rw [hcore] at hfuelEq
    simp only [Option.map_some] at hfuelEq
    -- the signed working-format result
    set y := (if neg then res.neg else res) with hy
    have hy_sem : y.sem = tanW x.sem := by
      rw [hy]; split
      · exact hresP.sem
      · exact hresP.sem
    have hy_cat : y.cat = .normal := by
      rw [hy]; split
      · exact hresP.cat
      · exact hresP.cat
    have hy_can : y.Canonical := by
      rw [hy]; split
      · exact C01.canonical_neg hresP.can
      · exact hresP.can
    have hy_mag : y.mag = res.mag := by
      rw [hy]; split <;> rfl
    have hy_sign : y.sign = neg := by
      rw [hy]
      cases neg
      · simp only [Bool.false_eq_true, if_false]; exact hresP.sign
      · simp only [if_true]
        show (!res.sign) = true
        rw [hresP.sign]; rfl
    have hmaxF : (128:ℚ) ≤ maxFinite x.sem := by
      have hpp : 1 ≤ x.sem.p := by omega
      have h1 := pow_emax_le_maxFinite (F := x.sem) hpp
      have h2 : (2:ℚ) ^ (7:ℤ) ≤ (2:ℚ) ^ x.sem.emax :=
        zpow_le_zpow_right₀ (by norm_num) (by omega)
      norm_num at h2; linarith
    obtain ⟨c1, c2, c3, c4, c5⟩ := cast_signed hF hrm (by rw [hy_sem]; exact hW) hy_can hy_cat
      (by rw [hy_mag]; linarith)
    rw [hy_sign, hy_mag] at c5
    have hycast : y.cast x.sem = y.castWithRm x.sem x.sem.rm := by
      unfold Flt.cast; rw [hy_sem, tanW_rm]
    rw [← hycast] at c1 c3 c4 c5
    refine ⟨y.cast x.sem, res.mag, neg, T, hfuelEq, c1, c3, c4, c5, le_of_lt hresP.mag_pos,
      hres128, htan, hT128, ?_⟩
    -- the error
    set tq := Real.tan ((θq : ℚ) : ℝ) with htq
    have htq0 : 0 ≤ tq := by
      rw [htq, Real.tan_eq_sin_div_cos]
      exact div_nonneg (le_of_lt hS0) (by linarith)
    obtain ⟨l1, l2⟩ := abs_le.mp hlip
    have htqle : tq ≤ |T| + 4290 * δ := by
      have := le_abs_self T; linarith
    have hErel : 100000 * ((u (tanW x.sem) : ℚ) : ℝ) ≤ E6 := by
      rw [hur]
      have h1 : ε ≤ (2:ℝ) ^ (-(x.sem.p:ℤ) - 6 - 18) := by
        refine le_trans hε32 (zpow_le_zpow_right₀ (by norm_num) (by omega))
      have h2 : (2:ℝ) ^ (-(x.sem.p:ℤ) - 6 - 18) = E6 / 262144 := by
        rw [hE6, show (-(x.sem.p:ℤ) - 6 - 18) = (-(x.sem.p:ℤ) - 6) + (-18) by ring,
          zpow_add₀ (by norm_num : (2:ℝ) ≠ 0)]
        norm_num; ring
      rw [h2] at h1
      linarith
    have h1 : |((res.mag : ℚ) : ℝ) - tq| ≤ E6 * tq :=
      le_trans hreserr (mul_le_mul_of_nonneg_right hErel htq0)
    have h2 : E6 * tq ≤ E6 * (|T| + 4290 * δ) :=
      mul_le_mul_of_nonneg_left htqle (le_of_lt hE60)
    have h3 : |((res.mag : ℚ) : ℝ) - T| ≤ |((res.mag : ℚ) : ℝ) - tq| + |tq - T| :=
      abs_sub_le _ _ _
    have h4 : E6 * (4290 * δ) ≤ 1/64 * (4290 * δ) :=
      mul_le_mul_of_nonneg_right hE61 (by positivity)
    have h5 : E6 * (|T| + 4290 * δ) = E6 * |T| + E6 * (4290 * δ) := by ring
    rw [hδ] at h4 h5 hlip
    rw [hδ] at h2
    linarith

end Arp.TrigErr

namespace Arp.C17
open Arp Arp.TrigErr Arp.RelErr Arp.SpecRound

/-- **`tan` for `|x| < 1`** -/
theorem tan_small_accuracy_wide (x : Flt) (hF : x.sem.WF) (hp : 8 ≤ x.sem.p)
    (hdom : x.sem.p ≤ 2 ^ (x.sem.e - 1) - 2) (he17 : x.sem.e ≤ 50) (hp6 : x.sem.p ≤ 249000)
    (hrm : x.sem.rm = .nte ∨ x.sem.rm = .nta)
    (hc : x.Canonical) (hn : x.cat = .normal) (hsmall : x.exp < 0) (fuel : Nat) :
    ∃ r, x.tanFuel fuel = some r ∧ (r.cat = .normal ∨ r.cat = .zero) ∧ r.sign = x.sign ∧
      r.Canonical ∧ r.sem = x.sem ∧
      |((r.val : ℚ) : ℝ) - Real.tan ((x.val : ℚ) : ℝ)| ≤
        17/32 * ulpR x.sem |Real.tan ((x.val : ℚ) : ℝ)| := by
  have hW : (tanW x.sem).WF := tanW_WF hF
  obtain ⟨hp1, hp2⟩ := tanW_p_bounds hp
  -- the widened operand
  obtain ⟨a1, a2, a3, a4, a5⟩ := C06.widen_lossless_normal x (tanW x.sem) .none
    (by rw [tanW_e]; omega) (by omega) hF hW hn hc
  set v0 := x.castWithRm (tanW x.sem) .none with hv0
  obtain ⟨hPos, hmag⟩ := absOf_posN a1 a2 a3
  rw [a5] at hmag
  have hX0 : 0 < x.mag := Flt.mag_pos x hn hc
  have hX1 : x.mag < 1 := mag_lt_one hn hc hsmall
  have hXlo := (C10.mag_bounds x hn hc).1
  have hemin8 : x.sem.emin ≤ -8 := by
    have := Sem.emin_eq x.sem
    have h2 : 10 ≤ 2 ^ (x.sem.e - 1) := by omega
    have : (10:ℤ) ≤ ((2 ^ (x.sem.e - 1) : ℕ) : ℤ) := by exact_mod_cast h2
    omega
  have hemax : 9 ≤ x.sem.emax := by have := Sqrt.emin_add_emax hF; omega
  obtain ⟨res, hcore, hresP, hres4, hreserr⟩ := tanCore_acc_wide x.sem hF hp hdom hrm he17 hp6 hPos
    (by rw [hmag]; exact hX1)
    (by rw [hmag, show x.sem.emin - (x.sem.p:ℤ) + 1 = x.sem.emin - ((x.sem.p:ℤ) - 1) by ring]
        exact hXlo) fuel
  rw [hmag] at hreserr
  -- `tanFuel`
  have hfuelEq : x.tanFuel fuel =
      some ((if v0.sign then res.neg else res).cast x.sem) := by
    rw [tanFuel_normal fuel x hn]
    have hd : decide (x.exp < 0) = true := by simp [hsmall]
    rw [hd]
    unfold tanTail tanRed finishWith
    simp only [Bool.not_true, Bool.false_eq_true, if_false]
    have : tanCore fuel (((x.sem.increasePrecision x.sem.p).growLog 12).increaseExponent 4)
        (absOf (x.castWithRm (((x.sem.increasePrecision x.sem.p).growLog 12).increaseExponent 4)
          .none)) = some res := hcore
    rw [this]
    rfl
  -- the signed working-format result
  set y := (if v0.sign then res.neg else res) with hy
  have hy_sem : y.sem = tanW x.sem := by
    rw [hy]; split
    · exact hresP.sem
    · exact hresP.sem
  have hy_cat : y.cat = .normal := by
    rw [hy]; split
    · exact hresP.cat
    · exact hresP.cat
  have hy_can : y.Canonical := by
    rw [hy]; split
    · exact C01.canonical_neg hresP.can
    · exact hresP.can
  have hy_mag : y.mag = res.mag := by
    rw [hy]; split <;> rfl
  have hy_sign : y.sign = x.sign := by
    rw [hy, a4]
    cases x.sign
    · simp only [Bool.false_eq_true, if_false]; exact hresP.sign
    · simp only [if_true]
      show (!res.sign) = true
      rw [hresP.sign]; rfl
  have hmaxF : (4:ℚ) ≤ maxFinite x.sem := by
    have hpp : 1 ≤ x.sem.p := by omega
    have h1 := pow_emax_le_maxFinite (F := x.sem) hpp
    have h2 : (2:ℚ) ^ (2:ℤ) ≤ (2:ℚ) ^ x.sem.emax :=
      zpow_le_zpow_right₀ (by norm_num) (by omega)
    norm_num at h2; linarith
  obtain ⟨c1, c2, c3, c4, c5⟩ := cast_signed hF hrm (by rw [hy_sem]; exact hW) hy_can hy_cat
    (by rw [hy_mag]; linarith)
  rw [hy_sign, hy_mag] at c5
  rw [hy_sign] at c2
  have hycast : y.cast x.sem = y.castWithRm x.sem x.sem.rm := by
    unfold Flt.cast; rw [hy_sem, tanW_rm]
  rw [← hycast] at c1 c2 c3 c4 c5
  refine ⟨y.cast x.sem, hfuelEq, c1, c2, c3, c4, ?_⟩
  -- the error
  have hXr0 : (0:ℝ) < ((x.mag : ℚ) : ℝ) := by exact_mod_cast hX0
  have hXr1 : ((x.mag : ℚ) : ℝ) ≤ 1 := by exact_mod_cast le_of_lt hX1
  have hS0 : 0 < Real.sin ((x.mag : ℚ) : ℝ) := Real.sin_pos_of_pos_of_le_one hXr0 hXr1
  have hC1 : Real.cos ((x.mag : ℚ) : ℝ) ≤ 1 := Real.cos_le_one _
  have hChalf : 1/2 ≤ Real.cos ((x.mag : ℚ) : ℝ) := by
    have := cos_lower ((x.mag : ℚ) : ℝ)
    have : ((x.mag : ℚ) : ℝ) ^ 2 ≤ 1 := by nlinarith
    linarith
  have hC0 : 0 < Real.cos ((x.mag : ℚ) : ℝ) := by linarith
  set T := Real.tan ((x.mag : ℚ) : ℝ) with hT
  have hTdef : T = Real.sin ((x.mag : ℚ) : ℝ) / Real.cos ((x.mag : ℚ) : ℝ) :=
    Real.tan_eq_sin_div_cos _
  have hTge : Real.sin ((x.mag : ℚ) : ℝ) ≤ T := by
    rw [hTdef, le_div_iff₀ hC0]
    nlinarith
  have hT0 : 0 < T := by linarith
  have hT2 : T < 2 := by
    rw [hTdef, div_lt_iff₀ hC0]
    have := Real.sin_le_one ((x.mag : ℚ) : ℝ)
    have hpyth := Real.sin_sq_add_cos_sq ((x.mag : ℚ) : ℝ)
    nlinarith
  have htv := tan_val_eq x hn
  rw [← hT] at htv
  have habsT : |Real.tan ((x.val : ℚ) : ℝ)| = T := by
    rw [htv]
    cases x.sign
    · simp [abs_of_pos hT0]
    · simp [abs_of_pos hT0]
  have hdiff : |(((y.cast x.sem).val : ℚ) : ℝ) - Real.tan ((x.val : ℚ) : ℝ)| =
      |((rq x.sem x.sem.rm res.mag : ℚ) : ℝ) - T| := by
    rw [htv, c5]
    cases x.sign
    · simp
    · simp only [if_true]
      push_cast
      rw [show (-1 : ℝ) * ((rq x.sem x.sem.rm res.mag : ℚ) : ℝ) - -1 * T
        = -(((rq x.sem x.sem.rm res.mag : ℚ) : ℝ) - T) by ring, abs_neg]
  rw [hdiff, habsT]
  -- the relative error of the working-format value
  have hrel : |((res.mag : ℚ) : ℝ) - T| ≤ (2:ℝ) ^ (-(x.sem.p:ℤ) - 6) * T := by
    refine le_trans hreserr (mul_le_mul_of_nonneg_right ?_ (le_of_lt hT0))
    have hur : ((u (tanW x.sem) : ℚ) : ℝ) = (2:ℝ) ^ (1 - ((tanW x.sem).p:ℤ)) := by
      unfold RelErr.u; push_cast; rfl
    rw [hur]
    have h1 : (2:ℝ) ^ (1 - ((tanW x.sem).p:ℤ)) ≤ (2:ℝ) ^ (-(x.sem.p:ℤ) - 6 - 6) :=
      zpow_le_zpow_right₀ (by norm_num) (by omega)
    have h2 : (2:ℝ) ^ (-(x.sem.p:ℤ) - 6 - 6) = (2:ℝ) ^ (-(x.sem.p:ℤ) - 6) / 64 := by
      rw [show (-(x.sem.p:ℤ) - 6 - 6) = (-(x.sem.p:ℤ) - 6) + (-6) by ring,
        zpow_add₀ (by norm_num : (2:ℝ) ≠ 0)]
      norm_num; ring
    have hpos : (0:ℝ) < (2:ℝ) ^ (-(x.sem.p:ℤ) - 6) := by positivity
    rw [h2] at h1
    linarith
  -- the binade
  have hlog1 : (2:ℝ) ^ (Int.log 2 T) ≤ T := Int.zpow_log_le_self (by norm_num) hT0
  have hlog2 : T < (2:ℝ) ^ (Int.log 2 T + 1) := Int.lt_zpow_succ_log_self (by norm_num) T
  set E := Int.log 2 T with hE
  have hElt : E < 1 := by
    have : (2:ℝ) ^ E < (2:ℝ) ^ (1:ℤ) := by rw [zpow_one]; linarith
    exact (zpow_lt_zpow_iff_right₀ (by norm_num : (1:ℝ) < 2)).mp this
  have hEmin : x.sem.emin - ((x.sem.p:ℤ) - 1) ≤ E + 1 := by
    have h1r : ((((2:ℚ) ^ (x.sem.emin - ((x.sem.p:ℤ) - 1)) : ℚ)) : ℝ) ≤ ((x.mag : ℚ) : ℝ) := by
      exact_mod_cast hXlo
    push_cast at h1r
    have h2 := sin_lower (le_of_lt hXr0) hXr1
    have h3 : (2:ℝ) ^ (x.sem.emin - ((x.sem.p:ℤ) - 1) - 1) < (2:ℝ) ^ (E + 1) := by
      have e : (2:ℝ) ^ (x.sem.emin - ((x.sem.p:ℤ) - 1) - 1) =
          (2:ℝ) ^ (x.sem.emin - ((x.sem.p:ℤ) - 1)) / 2 := by
        rw [zpow_sub_one₀ (by norm_num : (2:ℝ) ≠ 0)]; ring
      rw [e]
      have hpos : (0:ℝ) < (2:ℝ) ^ (x.sem.emin - ((x.sem.p:ℤ) - 1)) := by positivity
      linarith
    have := (zpow_lt_zpow_iff_right₀ (by norm_num : (1:ℝ) < 2)).mp h3
    omega
  have := rel_round hF hrm hresP.mag_pos (by linarith) hT0 hrel E hlog2 hEmin (by omega)
  unfold ulpR
  exact this

/-- **`tan` for `1 ≤ |x| ≤ 128`, `|cos x| ≥ 1/65`, given the accuracy of `π`.** -/
theorem tan_accuracy_of_pi_wide (x : Flt) (hF : x.sem.WF) (hp : 8 ≤ x.sem.p)
    (hdom : x.sem.p ≤ 2 ^ (x.sem.e - 1) - 2) (he17 : x.sem.e ≤ 50) (hp6 : x.sem.p ≤ 249000)
    (hrm : x.sem.rm = .nte ∨ x.sem.rm = .nta) (hc : x.Canonical) (hn : x.cat = .normal)
    (hbig : 0 ≤ x.exp) (h128 : |x.val| ≤ 128)
    (hcos : 1/65 ≤ |Real.cos ((x.val : ℚ) : ℝ)|) {fuel0 : ℕ}
    (hpi1 : PiOKAt (((x.sem.increasePrecision x.sem.p).growLog 12).increaseExponent 4) fuel0)
    (hpi2 : PiOKAt (((((x.sem.increasePrecision x.sem.p).growLog 12).increaseExponent 4).growLog
      12).increaseExponent 4) fuel0) (fuel : ℕ) (hfuel : fuel0 ≤ fuel) :
    ∃ r, x.tanFuel fuel = some r ∧ (r.cat = .normal ∨ r.cat = .zero) ∧ r.Canonical ∧
      r.sem = x.sem ∧
      |((r.val : ℚ) : ℝ) - Real.tan ((x.val : ℚ) : ℝ)| ≤
        max (ulpR x.sem |Real.tan ((x.val : ℚ) : ℝ)|) ((2:ℝ) ^ (6 - 2 * (x.sem.p:ℤ))) := by
  have habs : |x.val| = x.mag := by
    rw [Flt.val_normal hn]
    have := x.mag_nonneg
    cases x.sign
    · simp [abs_of_nonneg this]
    · simp [abs_of_nonneg this]
  rw [habs] at h128
  rw [cos_val_eq x hn] at hcos
  obtain ⟨r, q, neg, T, hfuelEq, hcat, hcan, hsem, hval, hq0, hq128, htan, hT128, herr⟩ :=
    tan_big_core_wide x hF hp hdom he17 hp6 hrm hc hn hbig h128 hcos hpi1 hpi2 fuel hfuel
  have hemin8 : x.sem.emin ≤ -8 := by
    have := Sem.emin_eq x.sem
    have h2 : 10 ≤ 2 ^ (x.sem.e - 1) := by omega
    have : (10:ℤ) ≤ ((2 ^ (x.sem.e - 1) : ℕ) : ℤ) := by exact_mod_cast h2
    omega
  have hemax : 9 ≤ x.sem.emax := by have := Sqrt.emin_add_emax hF; omega
  refine ⟨r, hfuelEq, hcat, hcan, hsem, ?_⟩
  have htv := tan_val_eq x hn
  rw [htan] at htv
  have hdiff : |((r.val : ℚ) : ℝ) - Real.tan ((x.val : ℚ) : ℝ)| =
      |((rq x.sem x.sem.rm q : ℚ) : ℝ) - T| := by
    rw [htv, hval]
    cases neg <;> cases x.sign <;> simp
    · rw [← abs_neg]; congr 1; ring
    · rw [← abs_neg]; congr 1; ring
  have habsT : |Real.tan ((x.val : ℚ) : ℝ)| = |T| := by
    rw [htv]
    cases neg <;> cases x.sign <;> simp
  rw [hdiff, habsT]
  have hlog := Int.lt_zpow_succ_log_self (b := 2) (by norm_num) |T|
  have h4a : 4 * (2:ℝ) ^ (4 - 2 * (x.sem.p:ℤ)) = (2:ℝ) ^ (6 - 2 * (x.sem.p:ℤ)) := by
    rw [show (6 - 2 * (x.sem.p:ℤ)) = (4 - 2 * (x.sem.p:ℤ)) + 2 by ring,
      zpow_add₀ (by norm_num : (2:ℝ) ≠ 0)]
    norm_num; ring
  have := final_round_gen hF hrm hemax hq0 hq128 hT128 (by positivity) (le_refl _) (by positivity)
    herr (Int.log 2 |T|) (by simpa using hlog)
  rw [h4a] at this
  unfold ulpR
  exact this

/-- **`tan` for `1 ≤ |x| ≤ 128`, `|tan x| ≤ 64`, given the accuracy of `π`** -/
theorem tan_accuracy_of_pi_wide' (x : Flt) (hF : x.sem.WF) (hp : 8 ≤ x.sem.p)
    (hdom : x.sem.p ≤ 2 ^ (x.sem.e - 1) - 2) (he17 : x.sem.e ≤ 50) (hp6 : x.sem.p ≤ 249000)
    (hrm : x.sem.rm = .nte ∨ x.sem.rm = .nta) (hc : x.Canonical) (hn : x.cat = .normal)
    (hbig : 0 ≤ x.exp) (h128 : |x.val| ≤ 128)
    (htan : |Real.tan ((x.val : ℚ) : ℝ)| ≤ 64) {fuel0 : ℕ}
    (hpi1 : PiOKAt (((x.sem.increasePrecision x.sem.p).growLog 12).increaseExponent 4) fuel0)
    (hpi2 : PiOKAt (((((x.sem.increasePrecision x.sem.p).growLog 12).increaseExponent 4).growLog
      12).increaseExponent 4) fuel0) (fuel : ℕ) (hfuel : fuel0 ≤ fuel) :
    ∃ r, x.tanFuel fuel = some r ∧ (r.cat = .normal ∨ r.cat = .zero) ∧ r.Canonical ∧
      r.sem = x.sem ∧
      |((r.val : ℚ) : ℝ) - Real.tan ((x.val : ℚ) : ℝ)| ≤
        max (ulpR x.sem |Real.tan ((x.val : ℚ) : ℝ)|) ((2:ℝ) ^ (6 - 2 * (x.sem.p:ℤ))) :=
  tan_accuracy_of_pi_wide x hF hp hdom he17 hp6 hrm hc hn hbig h128 (cos_ge_of_tan_le x.val htan) hpi1 hpi2
    fuel hfuel

end Arp.C17
