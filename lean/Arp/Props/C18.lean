import Arp.Props.C16
/-!
# C18 — `powi`, `pow`: identities and special operands
-/
namespace Arp.C18
open Arp

/-! ### `powi` -/

theorem powiLoop_zero (fuel : Nat) (e v : Flt) : powiLoop fuel 0 e v = e := by
  cases fuel <;> simp [powiLoop]

/-- the internal format of `powi`: two more significand bits; the intermediate products are
    rounded to nearest (ties-away if that is the format's mode, ties-even otherwise) -/
def powiSem (F : Sem) : Sem := (F.increasePrecision 2).withRm (powiInnerRm F.rm)

theorem powi_def (x : Flt) (n : Nat) :
    x.powi n = (powiLoop 64 n (Flt.one (powiSem x.sem) false) (x.cast (powiSem x.sem))).castWithRm
      x.sem x.sem.rm := rfl

theorem powiSem_WF {F : Sem} (hF : F.WF) : (powiSem F).WF :=
  Sem.withRm_WF (Sem.increasePrecision_WF hF 2) _

/-- `x^0` is `1.0` of the internal (p+2)-bit format cast back — for EVERY `x`, NaN and
    infinities included (the loop body is never entered). -/
theorem powi_zero (x : Flt) :
    x.powi 0 = (Flt.one ((x.sem.increasePrecision 2).withRm (powiInnerRm x.sem.rm)) false).castWithRm
      x.sem x.sem.rm := by
  rw [powi_def]; simp only [powiLoop_zero]; rfl

/-- … which is exactly `1.0` in every well-formed format -/
theorem powi_zero_eq_one (x : Flt) (hF : x.sem.WF) : x.powi 0 = Flt.one x.sem false := by
  rw [powi_zero]
  exact C16.cast_one _ _ false _ (powiSem_WF hF) hF

/-- `1.0 · y = y` exactly, in every mode (canonical `y` of the same format, special values included) -/
theorem one_mul (G : Sem) (y : Flt) (rm : RM) (hG : G.WF) (hs : y.sem = G) (hy : y.Canonical) :
    mulWithRm (Flt.one G false) y rm = y := by
  have hGp : 1 ≤ G.p := by have := hG.2; omega
  by_cases hn : y.cat = .normal
  · apply Flt.eq_of_toRes_eq ((mulWithRm_sem_tr _ _ _).trans hs.symm) hn
    rw [C01.mul_correct (Flt.one G false) y rm hG hs (Flt.one_canonical G false hG) hy]
    simp only [Spec.mul, Spec.isNan, Spec.isInf, Spec.isZero, hn, Flt.one,
      show (Cat.normal == Cat.nan) = false from rfl, show (Cat.normal == Cat.inf) = false from rfl,
      show (Cat.normal == Cat.zero) = false from rfl, Bool.or_self, Bool.and_self,
      Bool.false_eq_true, if_false, Bool.false_xor]
    have h1 := C16.one_mag G false hGp
    simp only [Flt.one] at h1
    rw [h1, _root_.one_mul, ← hs, round_canonical_exact y rm (by rw [hs]; exact hG) hn hy]
    simp [Flt.toRes, hn]
  · obtain ⟨he, hm⟩ := (Flt.canonical_special hn).mp hy
    obtain ⟨ys, ysg, ye, ym, yc⟩ := y
    simp only at hs he hm hn
    subst hs he hm
    cases yc <;> simp_all [mulWithRm, Flt.one, Flt.nan, Flt.inf, Flt.zero]

/-- `x^1 = x` exactly, for every canonical `x` (special values included), every mode. -/
theorem powi_one (x : Flt) (hF : x.sem.WF) (hx : x.Canonical) : x.powi 1 = x := by
  have hW := powiSem_WF hF
  have hc := cast_canonical x _ hW hx
  have hl : ∀ e v : Flt, powiLoop 64 1 e v = e.mul v := by
    intro e v
    rw [show (64 : Nat) = 63 + 1 from rfl]
    simp only [powiLoop, Nat.one_ne_zero, if_false, Nat.one_mod, if_true, Nat.reduceDiv]
  rw [powi_def]
  simp only [hl]
  unfold Flt.mul
  rw [one_mul _ _ _ hW hc.2 hc.1]
  exact C06.widen_narrow_id x (powiSem x.sem) _ _ (le_refl _)
    (by simp [powiSem, Sem.increasePrecision, Sem.withRm]) hF hW hx

/-! ### `pow` -/

theorem beq_one_iff (x : Flt) : x.beq (Flt.one x.sem false) = true ↔ x = Flt.one x.sem false := by
  obtain ⟨s, sg, e, m, c⟩ := x
  constructor
  · intro h
    cases c <;> simp_all [Flt.beq, Flt.one]
  · intro h
    rw [h]; simp [Flt.beq, Flt.one]

/-- `x^(±0) = 1` for EVERY `x`, NaN included -/
theorem pow_zero_exp (f : Nat) (x n : Flt) (hn : n.cat = .zero) :
    x.powFuel f n = some (Flt.one x.sem false) := by
  unfold Flt.powFuel
  by_cases hb : x.beq (Flt.one x.sem false) = true
  · simp only [hb, if_true]
    rw [(beq_one_iff x).mp hb]; rfl
  · simp [hb, Flt.isInf, Flt.isNan, Flt.isZero, hn]

/-- `1^n = 1` for EVERY `n`, NaN and infinities included -/
theorem pow_one_base (f : Nat) (F : Sem) (n : Flt) :
    (Flt.one F false).powFuel f n = some (Flt.one F false) := by
  unfold Flt.powFuel
  have : (Flt.one F false).beq (Flt.one (Flt.one F false).sem false) = true :=
    (beq_one_iff _).mpr rfl
  simp only [this, if_true]

/-- a negative base (normal or `−∞`) with a finite non-zero exponent gives NaN -/
theorem pow_negative_base (f : Nat) (x n : Flt) (hx : x.cat = .normal ∨ x.cat = .inf)
    (hs : x.sign = true) (hn : n.cat = .normal) : x.powFuel f n = some (Flt.nan x.sem true) := by
  have hb : x.beq (Flt.one x.sem false) = false := by
    rcases hx with hx | hx <;> simp [Flt.beq, hx, hs, Flt.one]
  unfold Flt.powFuel
  rcases hx with hx | hx <;> simp [hb, Flt.isInf, Flt.isNan, Flt.isZero, hn, hx, hs]

/-- a NaN base gives NaN unless the exponent is a zero -/
theorem pow_nan (f : Nat) (x n : Flt) (hx : x.cat = .nan) (hn : n.cat ≠ .zero) :
    x.powFuel f n = some (Flt.nan x.sem x.sign) := by
  have hb : x.beq (Flt.one x.sem false) = false := by simp [Flt.beq, hx]
  unfold Flt.powFuel
  cases hc : n.cat <;> simp_all [Flt.isInf, Flt.isNan, Flt.isZero]

/-- a NaN or infinite exponent gives NaN unless the base is exactly `1.0` -/
theorem pow_nan_exp (f : Nat) (x n : Flt) (hn : n.cat = .nan ∨ n.cat = .inf)
    (hx : x ≠ Flt.one x.sem false) : x.powFuel f n = some (Flt.nan x.sem x.sign) := by
  have hb : x.beq (Flt.one x.sem false) = false := by
    rw [← Bool.not_eq_true, beq_one_iff]; exact hx
  unfold Flt.powFuel
  rcases hn with hn | hn <;> simp [hb, Flt.isInf, Flt.isNan, hn]

/-- a zero base with a finite non-zero exponent: `±∞` for negative, `±0` for positive exponents -/
theorem pow_zero_base (f : Nat) (x n : Flt) (hx : x.cat = .zero) (hn : n.cat = .normal) :
    x.powFuel f n = some (if n.sign then Flt.inf x.sem x.sign else Flt.zero x.sem x.sign) := by
  have hb : x.beq (Flt.one x.sem false) = false := by simp [Flt.beq, hx, Flt.one]
  unfold Flt.powFuel
  simp [hb, Flt.isInf, Flt.isNan, Flt.isZero, hn, hx]

/-! ### Concrete FP16 instances -/

example : (⟨FP16, true, 0, 0, .nan⟩ : Flt).powi 0 = ⟨FP16, false, 0, 1024, .normal⟩ := by decide
example : (⟨FP16, false, 1, 1536, .normal⟩ : Flt).powi 1 = ⟨FP16, false, 1, 1536, .normal⟩ := by decide
example : (⟨FP16, false, -14, 3, .normal⟩ : Flt).powi 1 = ⟨FP16, false, -14, 3, .normal⟩ :=
  powi_one _ (by decide) (by decide)
example : (⟨FP16, true, 0, 0, .nan⟩ : Flt).powFuel 0 (Flt.zero FP16 true)
    = some ⟨FP16, false, 0, 1024, .normal⟩ := by decide
example : (Flt.one FP16 false).powFuel 0 (Flt.nan FP16 false) = some (Flt.one FP16 false) := by decide
example : (⟨FP16, true, 1, 1024, .normal⟩ : Flt).powFuel 0 ⟨FP16, false, 1, 1024, .normal⟩
    = some ⟨FP16, true, 0, 0, .nan⟩ := by decide

end Arp.C18
