import Arp.Lemmas.SigmoidErr
import Arp.Lemmas.ExpWide
import Arp.Props.C16Exp
/-!
# C16 — accuracy of `Float::sigmoid` against `1/(1 + e^-x)`

Property clause: *"In the nearest rounding modes and for formats whose precision does not exceed
their exponent range, … sigmoid(x) is within two ulps of 1/(1+e^-x) on the same domain as exp
(finite |x| ≤ 1024) and equals 1/2 at zero; sigmoid(+inf) = 1, sigmoid(-inf) = +0"* (special
operands: `Arp/Props/C16.lean`).

Model (after the repair `99df2ba`): the operand is widened exactly to `W` = the caller's format `F`
with 8 more bits of precision (same exponent width, same mode); `ex := exp x`, `s := ex + 1`,
`q := ex / s` are computed in `W`; the result is `1` if `ex = +∞`, else `q` cast once to `F`.

Main results (`x.sem.rm ∈ {nte, nta}`, `8 ≤ p`, canonical finite non-zero `x`, `|x| ≤ 1024`, fuel
`≥ redBound x.exp + 1`; `σ = 1/(1 + e^-x)`): the result `r` is canonical, of the format of `x`,
non-negative, finite, `≤ 1`, `+0` only if `e^x < 2^(emin-p+1)`, and
`WithinUlps r σ (4177/8192)` (`4177/8192 = 1/2 + (81/32)/256 ≈ 0.5099`; a fortiori two ulps):

* `sigmoid_accuracy`     — hypothesis `p + 8 ≤ 2^(E-1) - 2` (the working format `W` is in the domain
  of the clause too; this implies the domain condition for `F`);
* `sigmoid_accuracy_all` — `p ≤ 2^(E-1) - 2` and (`p + 8 ≤ 2^(E-1) - 2` or `12 ≤ E`);
* `sigmoid_accuracy_gen` — every format of the domain, `p ≤ 2^(E-1) - 2`, with the side condition
  `p + 8 ≤ 2^(E-1) - 2  ∨  e^x ≤ 2^(emax+1) - 4  ∨  2^(emax+1) ≤ e^x`.

About the side condition.  For a format within 8 bits of the edge of the domain, one ulp of the top
binade of `W` is at most 2, and if `ex` is one of the largest finite numbers of `W` then `ex + 1`
overflows, `ex / ∞ = +0`, and `sigmoid` returns `+0` instead of `1`.  This happens in the model and
in the Rust implementation for formats OUTSIDE the domain of the clause, e.g. `⟨5, 20⟩`,
`x = 0xb1721·2^-16 ≈ 11.09034`: `sigmoid x = +0`.  Inside the domain it requires
`2^(emax+1) - 4 < e^x < 2^(emax+1)` with `|x| ≤ 1024`, i.e. one of the 56 formats `5 ≤ E ≤ 11`,
`2^(E-1) - 10 < p ≤ 2^(E-1) - 2`, and an operand within `2^-(emax-1)` (relative) below `2^(E-1)·ln 2`:
numerically no operand of these formats is that close (the nearest one misses the window by a
factor `≥ 8`: `e^x ≤ 2^(emax+1) - 33`), so the clause holds there as well, but this is an
arithmetical accident of the binary expansion of `ln 2` which is not proved here.
`exp` in `W` is covered by `Arp/Lemmas/ExpWide.lean` (`exp_all` for `16 ≤ p ≤ 2^(E-1) + 6`).

Error budget: in `W` (`u_W = u/256`) the analysis of the former model applies verbatim
(`Sigm.sig_pos`: `q` is within `81/32` ulps of `W`, `25/16` for `x > 0`); the final cast adds half an
ulp of `F` (`Sigm.sig_final`).  Numerics (model against mpmath, exhaustive for `E = 5`, `p = 8..14`,
random for `⟨6,22⟩ ⟨6,30⟩ ⟨8,24⟩ ⟨11,53⟩ ⟨7,62⟩`, both modes): worst error `0.5068` ulp.

History.  Before the repair the model was `fl(ex / fl(ex + 1))` with `ex = exp x` already rounded to
`F`; for that model the two-ulp clause was false and kernel-checked counter-examples were part of
this file (`sigmoid_two_ulps_counterexample`: `⟨5, 14, nte⟩`, `x = -5571/2048`, result
`0x3f44·2^-18`, `2.14` ulps; `sigmoid_two_ulps_counterexample_fp32`: binary32,
`x = -0x85088d·2^-21`, result `0xfc74d1·2^-30`, `2.40` ulps; binary64 reached `2.43` ulps); the
strongest true bound there was `81/32` ulps (`sigmoid_accuracy_partial`).  With the repair these
operands give `0x3f46·2^-18` and `0xfc74cf·2^-30` (both within `0.51` ulp); the old statements no
longer describe the model and have been dropped.
-/

namespace Arp.C16.Sigm
open Arp Arp.SpecRound Arp.Sqrt Arp.RelErr Arp.ExpErr Arp.SigmoidErr Arp.C16.ExpAcc

/-- `sigmoid` on a finite non-zero operand: `exp`, `+ 1`, `/` in the format `W = F` with 8 more bits,
    one final cast -/
theorem sigmoidFuel_normal (x : Flt) (fuel : ℕ) (hn : x.cat = .normal) :
    x.sigmoidFuel fuel = ((x.cast (x.sem.increasePrecision 8)).expFuel fuel).map (fun ex =>
      if ex.isInf then Flt.one x.sem false
      else (ex.div (ex.add (Flt.one (x.sem.increasePrecision 8) false))).cast x.sem) := by
  unfold Flt.sigmoidFuel
  simp only [Flt.isZero, Flt.isInf, Flt.isNan, hn]
  cases (x.cast (x.sem.increasePrecision 8)).expFuel fuel with
  | none => simp
  | some ex => by_cases h : ex.cat = Cat.inf <;> simp [h]

theorem withinUlps_mono {res : Flt} {t c c' : ℝ} (h : WithinUlps res t c) (hcc : c ≤ c') :
    WithinUlps res t c' := fun k h0 h1 h2 =>
  le_trans (h k h0 h1 h2) (mul_le_mul_of_nonneg_right hcc (by positivity))

/-- the structural part of the claim: a canonical non-negative finite value of the format, at most 1 -/
def SigBase (F : Sem) (r : Flt) : Prop :=
  r.Canonical ∧ r.sem = F ∧ r.sign = false ∧ (r.cat = .normal ∨ r.cat = .zero) ∧
    0 ≤ r.val ∧ r.val ≤ 1

theorem cast_ulp (F : Sem) (k : ℤ) : ((F.ulp k : ℚ) : ℝ) = (2:ℝ) ^ (k - ((F.p:ℤ) - 1)) := by
  rw [Sem.ulp_def]; push_cast; rfl

theorem unit_mul_pow (p : ℕ) (k : ℤ) :
    (2:ℝ) ^ (-(p:ℤ)) * (2:ℝ) ^ (k + 1) = (2:ℝ) ^ (k - ((p:ℤ) - 1)) := by
  rw [← zpow_add₀ (by norm_num : (2:ℝ) ≠ 0)]; congr 1; ring

/-! ### (a) `e^x` overflows in `W`: the result is `1` -/

/-- an overflowing `exp` means `t > 2^P` for every `P + 1 ≤ emax` -/
theorem pow_lt_of_overflow {G : Sem} (hG : G.WF) {P : ℕ} (hpe : (P:ℤ) + 1 ≤ G.emax) {t : ℝ}
    (ht : ((maxFinite G : ℚ) : ℝ) * (1 - (2:ℝ) ^ (-(G.p:ℤ))) < t) : (2:ℝ) ^ (P:ℤ) < t := by
  have hp1 : 1 ≤ G.p := by have := hG.2; omega
  have hMF : (2:ℝ) ^ G.emax ≤ ((maxFinite G : ℚ) : ℝ) := by
    have := pow_emax_le_maxFinite (F := G) hp1
    have h : (((2:ℚ) ^ G.emax : ℚ) : ℝ) ≤ ((maxFinite G : ℚ) : ℝ) := by exact_mod_cast this
    push_cast at h; exact h
  have ha : (2:ℝ) ^ (-(G.p:ℤ)) ≤ 1 / 2 := by
    calc (2:ℝ) ^ (-(G.p:ℤ)) ≤ (2:ℝ) ^ (-1:ℤ) := zpow_le_zpow_right₀ (by norm_num) (by omega)
      _ = 1 / 2 := by norm_num
  have hpe' : (2:ℝ) ^ ((P:ℤ) + 1) ≤ (2:ℝ) ^ G.emax := zpow_le_zpow_right₀ (by norm_num) hpe
  have hpp : (2:ℝ) ^ ((P:ℤ) + 1) = 2 * (2:ℝ) ^ (P:ℤ) := by
    rw [zpow_add_one₀ (by norm_num)]; ring
  have hP : (0:ℝ) < (2:ℝ) ^ (P:ℤ) := by positivity
  nlinarith

/-- `ex + 1` does not overflow when `e^x ≤ 2^(emax+1) - 4` and one ulp of the top binade of the
    working format is at most 2 -/
theorem no_ovf_of_small {W : Sem} (hulp : W.ulp W.emax ≤ 2) {a : Flt}
    {t : ℝ} (ht : t ≤ (2:ℝ) ^ (W.emax + 1) - 4)
    (hk : |((a.mag : ℚ) : ℝ) - t| ≤ (1 / 2 + 1 / 8) * (2:ℝ) ^ (W.emax - ((W.p:ℤ) - 1))) :
    a.mag + 1 < nearThreshold W := by
  have hU0 := W.ulp_pos W.emax
  have hnt : nearThreshold W = (2:ℚ) ^ (W.emax + 1) - W.ulp W.emax / 2 := by
    unfold nearThreshold
    rw [maxFinite_eq, sub_mul, W.pow_mul_ulp, half_ulp]; ring
  have hUR : (2:ℝ) ^ (W.emax - ((W.p:ℤ) - 1)) ≤ 2 := by
    have : ((W.ulp W.emax : ℚ) : ℝ) ≤ ((2:ℚ) : ℝ) := by exact_mod_cast hulp
    rw [cast_ulp] at this; push_cast at this; exact this
  have hUR0 : (0:ℝ) < (2:ℝ) ^ (W.emax - ((W.p:ℤ) - 1)) := by positivity
  obtain ⟨_, g2⟩ := abs_le.mp hk
  have hreal : ((a.mag + 1 : ℚ) : ℝ) < ((nearThreshold W : ℚ) : ℝ) := by
    rw [hnt]; push_cast; rw [cast_ulp]
    nlinarith
  exact_mod_cast hreal

/-- the result `1` for `t > 2^p` -/
theorem sig_one {F : Sem} (hF : F.WF) {t : ℝ} (htp : (2:ℝ) ^ (F.p:ℤ) < t) :
    SigBase F (Flt.one F false) ∧ WithinUlps (Flt.one F false) (t / (1 + t)) (1 / 2) := by
  have hp1 : 1 ≤ F.p := by have := hF.2; omega
  have hone : (Flt.one F false).val = 1 := by
    rw [Flt.val_normal rfl]; exact C16.one_mag F false hp1
  refine ⟨⟨Flt.one_canonical F false hF, rfl, rfl, Or.inl rfl, by rw [hone]; norm_num,
    by rw [hone]⟩, ?_⟩
  intro k hk _ h2
  have hs1 : (Flt.one F false).sem = F := rfl
  rw [hone] at h2 ⊢
  rw [hs1] at hk ⊢
  push_cast at h2 ⊢
  have hk0 : 0 ≤ k := by
    have h1 : (2:ℝ) ^ (0:ℤ) < (2:ℝ) ^ (k + 1) := by rw [zpow_zero]; exact h2
    have := (zpow_lt_zpow_iff_right₀ (by norm_num : (1:ℝ) < 2)).mp h1
    omega
  have hP : (0:ℝ) < (2:ℝ) ^ (F.p:ℤ) := by positivity
  have ht0 : 0 < t := by linarith
  have e : (1:ℝ) - t / (1 + t) = 1 / (1 + t) := by field_simp; ring
  rw [e, abs_of_pos (by positivity)]
  have h1 : 1 / (1 + t) ≤ (2:ℝ) ^ (-(F.p:ℤ)) := by
    rw [zpow_neg, ← one_div]
    exact one_div_le_one_div_of_le hP (by linarith)
  have h2' : (2:ℝ) ^ (k - ((F.p:ℤ) - 1)) = 2 * (2:ℝ) ^ (k - (F.p:ℤ)) := by
    rw [show k - ((F.p:ℤ) - 1) = (k - (F.p:ℤ)) + 1 by ring, zpow_add_one₀ (by norm_num)]; ring
  have h3 : (2:ℝ) ^ (-(F.p:ℤ)) ≤ (2:ℝ) ^ (k - (F.p:ℤ)) :=
    zpow_le_zpow_right₀ (by norm_num) (by omega)
  rw [h2']; linarith

/-! ### (d) `e^x` underflows to `+0`: the result is `+0` -/

theorem sig_zero {F : Sem} (hF : F.WF) {ex : Flt}
    (hcan : ex.Canonical) (hsem : ex.sem = F) (hz : ex.cat = .zero) (hsg : ex.sign = false)
    {t : ℝ} (ht0 : 0 < t) (ht : t < (2:ℝ) ^ (F.emin - ((F.p:ℤ) - 1))) :
    SigBase F (ex.div (ex.add (Flt.one F false))) ∧
      (ex.div (ex.add (Flt.one F false))).cat = .zero ∧
      WithinUlps (ex.div (ex.add (Flt.one F false))) (t / (1 + t)) 1 := by
  have hp1 : 1 ≤ F.p := by have := hF.2; omega
  have hFe : ex.sem.WF := by rw [hsem]; exact hF
  obtain ⟨hb, hb1⟩ := ECf.one_posN hF
  have hs1 : (Flt.one F false).sem = ex.sem := hsem.symm
  -- the sum is `1`
  have hc := C01.add_correct ex (Flt.one F false) ex.sem.rm hFe hs1 hcan hb.can
  obtain ⟨hscan, hssem⟩ := add_canonical ex (Flt.one F false) hFe hs1 hcan hb.can
  have hvb : (Flt.one F false).val = 1 := by rw [Flt.val_normal hb.cat, hb.sign, ← hb1]; rfl
  have hres : (ex.add (Flt.one F false)).toRes = Spec.round F F.rm false 1 := by
    show (addWithRm ex (Flt.one F false) ex.sem.rm).toRes = _
    rw [hc, hsem]
    simp only [Spec.add, Spec.isNan, Spec.isInf, Spec.isZero, hz, hb.cat, Flt.val_zero hz, hvb]
    simp only [Spec.roundQ, zero_add, if_neg (one_ne_zero), if_pos (zero_lt_one)]
    simp
  obtain ⟨e, m, hfin, _⟩ := round_exact hF (by norm_num : (0:ℚ) < 1) (isRep_one' hF) F.rm false
  obtain ⟨hsP, _⟩ := posN_of_round hF (hssem.trans hsem) (by norm_num) hfin hres
  -- the quotient is `+0`
  have hs2 : (ex.add (Flt.one F false)).sem = ex.sem := hssem
  have hd := C01.div_correct ex (ex.add (Flt.one F false)) ex.sem.rm hFe hs2 hcan hscan
  obtain ⟨hrcan, hrsem⟩ := div_canonical ex (ex.add (Flt.one F false)) hFe
  have hrres : (ex.div (ex.add (Flt.one F false))).toRes = .zero false := by
    show (divWithRm ex (ex.add (Flt.one F false)) ex.sem.rm).toRes = _
    rw [hd]
    simp [Spec.div, Spec.isNan, Spec.isInf, Spec.isZero, hz, hsP.cat, hsg, hsP.sign]
  obtain ⟨hrz, hrs⟩ := toRes_zero hrres
  have hv : (ex.div (ex.add (Flt.one F false))).val = 0 := Flt.val_zero hrz
  refine ⟨⟨hrcan, hrsem.trans hsem, hrs, Or.inr hrz, by rw [hv], by rw [hv]; norm_num⟩, hrz, ?_⟩
  intro k hk _ _
  rw [hv, hrsem, hsem] at *
  push_cast
  rw [zero_sub, abs_neg, abs_of_pos (by positivity)]
  have h1 : t / (1 + t) ≤ t := by
    rw [div_le_iff₀ (by linarith)]; nlinarith
  have h2 : (2:ℝ) ^ (F.emin - ((F.p:ℤ) - 1)) ≤ (2:ℝ) ^ (k - ((F.p:ℤ) - 1)) :=
    zpow_le_zpow_right₀ (by norm_num) (by omega)
  linarith


/-! ### `e^x` is rounded to a positive finite number `a`: the result is `fl(a / fl(a + 1))` -/

/-- what `exp_all` says about a finite non-zero `a = exp x` (constant `1/2 + 1/64`) -/
def ExpClause (F : Sem) (a : Flt) (t : ℝ) : Prop :=
  ∀ k : ℤ, F.emin ≤ k → t < (2:ℝ) ^ (k + 1) → ((a.mag : ℚ) : ℝ) < (2:ℝ) ^ (k + 1) →
    |((a.mag : ℚ) : ℝ) - t| ≤ 33 / 64 * (2:ℝ) ^ (k - ((F.p:ℤ) - 1))

theorem sig_pos_base {F : Sem} (hF : F.WF) (hrm : F.rm = .nte ∨ F.rm = .nta)
    {a : Flt} (ha : PosN F a)
    (hno : a.mag + 1 < nearThreshold F) :
    SigBase F (a.div (a.add (Flt.one F false))) := by
  obtain ⟨hsP, _, _, hS1, hAS⟩ := sig_add_one hF hrm ha hno
  obtain ⟨h1, h2, h3, h4, h5, h6, _, _⟩ := sig_div_val hF hrm ha hsP hS1 hAS
  exact ⟨h2, h1, h3, h4, h5, h6⟩

/-- **crude budget**: `e^x ≥ 1` (non-negative `x`), `25/16` ulps -/
theorem sig_pos_crude {F : Sem} (hF : F.WF) (hp : 8 ≤ F.p) (hrm : F.rm = .nte ∨ F.rm = .nta)
    {a : Flt} (ha : PosN F a)
    (hno : a.mag + 1 < nearThreshold F) {t : ℝ} (ht1 : 1 ≤ t)
    (hk : ExpClause F a t) :
    WithinUlps (a.div (a.add (Flt.one F false))) (t / (1 + t)) (25 / 16) := by
  obtain ⟨hsP, _, hSerr, hS1, hAS⟩ := sig_add_one hF hrm ha hno
  obtain ⟨hrsem, _, _, _, _, _, hhalf, _⟩ := sig_div_val hF hrm ha hsP hS1 hAS
  set s := a.add (Flt.one F false) with hsdef
  set r := a.div s with hrdef
  have ht0 : 0 < t := by linarith
  intro k hkmin hσ hr
  rw [hrsem] at hkmin ⊢
  set A : ℝ := ((a.mag : ℚ) : ℝ) with hA
  set S : ℝ := ((s.mag : ℚ) : ℝ) with hS
  set R : ℝ := ((r.val : ℚ) : ℝ) with hR
  have hA0 : 0 < A := by rw [hA]; exact_mod_cast ha.mag_pos
  have hS0 : 0 < S := by rw [hS]; exact_mod_cast hsP.mag_pos
  set u : ℝ := (2:ℝ) ^ (-(F.p:ℤ)) with hu
  have hu0 : 0 < u := by positivity
  have hu8 : u ≤ 1 / 256 := by
    calc u ≤ (2:ℝ) ^ (-8:ℤ) := zpow_le_zpow_right₀ (by norm_num) (by omega)
      _ = 1 / 256 := by norm_num
  -- the binade of the result: `k ≥ -1`
  have hσ2 : 1 / 2 ≤ t / (1 + t) := by
    rw [div_le_div_iff₀ (by norm_num) (by linarith)]; linarith
  have hk1 : -1 ≤ k := by
    have h1 : (2:ℝ) ^ (-1:ℤ) < (2:ℝ) ^ (k + 1) := by
      have : (2:ℝ) ^ (-1:ℤ) = 1 / 2 := by norm_num
      rw [this]; linarith
    have := (zpow_lt_zpow_iff_right₀ (by norm_num : (1:ℝ) < 2)).mp h1
    omega
  have huU : u ≤ (2:ℝ) ^ (k - ((F.p:ℤ) - 1)) := zpow_le_zpow_right₀ (by norm_num) (by omega)
  -- the sum
  have hSe : |S - (1 + A)| ≤ u * S := by
    have h1 := le_trans hSerr (posN_half_ulp_rel hF hsP hS1)
    have h2 : ((|s.mag - (a.mag + 1)| : ℚ) : ℝ) ≤ (((2:ℚ) ^ (-(F.p:ℤ)) * s.mag : ℚ) : ℝ) := by
      exact_mod_cast h1
    push_cast at h2
    rw [show (1:ℝ) + A = A + 1 by ring]
    exact h2
  -- the quotient
  have hrq : r.val < (2:ℚ) ^ (k + 1) := by
    have : ((r.val : ℚ) : ℝ) < (((2:ℚ) ^ (k + 1) : ℚ) : ℝ) := by push_cast; exact hr
    exact_mod_cast this
  have hRe : |R - A / S| ≤ (2:ℝ) ^ (k - ((F.p:ℤ) - 1)) / 2 := by
    have h1 := hhalf k hkmin hrq
    have h2 : ((|r.val - a.mag / s.mag| : ℚ) : ℝ) ≤ ((F.ulp k / 2 : ℚ) : ℝ) := by
      exact_mod_cast h1
    rw [Rat.cast_div, cast_ulp] at h2
    push_cast at h2
    exact h2
  -- `exp`
  have hAt : |A - t| ≤ 33 / 32 * u * max A t := by
    have hn : (2:ℝ) ^ F.emin ≤ max A t := by
      have h1 : (2:ℝ) ^ F.emin ≤ 1 := zpow_le_one_of_nonpos₀ (by norm_num) (Sem.emin_le_zero hF)
      exact le_trans (le_trans h1 ht1) (le_max_right _ _)
    have := spec_rel (F := F) hA0 (by norm_num : (0:ℝ) ≤ 33 / 64) hk hn
    calc |A - t| ≤ 33 / 64 * 2 * (2:ℝ) ^ (-(F.p:ℤ)) * max A t := this
      _ = 33 / 32 * u * max A t := by rw [hu]; ring
  exact sig_crude hu0 hu8 hA0 ht0 hS0 hSe hRe huU hAt

/-- **sharp budget**: `e^x < 1` (negative `x`): `(1/2 + 1/(1+A) + (33/32)/((1+A)(1+t)))` ulps -/
theorem sig_pos_sharp {F : Sem} (hF : F.WF) (hp : 8 ≤ F.p) (hrm : F.rm = .nte ∨ F.rm = .nta)
    {a : Flt} (ha : PosN F a)
    (hno : a.mag + 1 < nearThreshold F) {t : ℝ} (ht0 : 0 < t) (ht1 : t < 1)
    (hk : ExpClause F a t) :
    a.mag ≤ 1 ∧
    WithinUlps (a.div (a.add (Flt.one F false))) (t / (1 + t))
      (1 / 2 + 1 / (1 + ((a.mag : ℚ) : ℝ)) +
        (33 / 32) / ((1 + ((a.mag : ℚ) : ℝ)) * (1 + t))) := by
  have ha1 : a.mag ≤ 1 := le_one_of_spec hF (by omega) ha ht1 hk
  refine ⟨ha1, ?_⟩
  obtain ⟨hsP, _, _, hS1, hAS⟩ := sig_add_one hF hrm ha hno
  obtain ⟨hS2, hSerr⟩ := sig_add_small hF hrm ha hno ha1
  obtain ⟨hrsem, _, _, _, _, hr1, hhalf, hmono⟩ := sig_div_val hF hrm ha hsP hS1 hAS
  set s := a.add (Flt.one F false) with hsdef
  set r := a.div s with hrdef
  set A : ℝ := ((a.mag : ℚ) : ℝ) with hA
  set S : ℝ := ((s.mag : ℚ) : ℝ) with hS
  set R : ℝ := ((r.val : ℚ) : ℝ) with hR
  have hA0 : 0 < A := by rw [hA]; exact_mod_cast ha.mag_pos
  have hS1R : 1 ≤ S := by rw [hS]; exact_mod_cast hS1
  have hS2R : S ≤ 2 := by rw [hS]; exact_mod_cast hS2
  have hS0 : 0 < S := by linarith
  have hR1 : R ≤ 1 := by rw [hR]; exact_mod_cast hr1
  set u : ℝ := (2:ℝ) ^ (-(F.p:ℤ)) with hu
  have hSe : |S - (1 + A)| ≤ u := by
    have h2 : ((|s.mag - (a.mag + 1)| : ℚ) : ℝ) ≤ ((F.ulp 0 / 2 : ℚ) : ℝ) := by
      exact_mod_cast hSerr
    rw [Rat.cast_div, cast_ulp] at h2
    push_cast at h2
    rw [show (1:ℝ) + A = A + 1 by ring]
    have e : (2:ℝ) ^ (0 - ((F.p:ℤ) - 1)) / 2 = u := by
      rw [hu, show (0:ℤ) - ((F.p:ℤ) - 1) = -(F.p:ℤ) + 1 by ring, zpow_add_one₀ (by norm_num)]
      ring
    rw [e] at h2; exact h2
  have hσ1 : t / (1 + t) < 1 := by rw [div_lt_one (by linarith)]; linarith
  set c : ℝ := 1 / 2 + 1 / (1 + A) + (33 / 32) / ((1 + A) * (1 + t)) with hc
  have hc0 : 0 ≤ c := by rw [hc]; positivity
  -- the claim for binades up to `0`
  have key : ∀ k : ℤ, F.emin ≤ k → k ≤ 0 → t / (1 + t) < (2:ℝ) ^ (k + 1) → R < (2:ℝ) ^ (k + 1) →
      |R - t / (1 + t)| ≤ c * (2:ℝ) ^ (k - ((F.p:ℤ) - 1)) := by
    intro k hkmin hk0 hσ hr
    have hrq : r.val < (2:ℚ) ^ (k + 1) := by
      have : ((r.val : ℚ) : ℝ) < (((2:ℚ) ^ (k + 1) : ℚ) : ℝ) := by push_cast; exact hr
      exact_mod_cast this
    have hB : (0:ℝ) < (2:ℝ) ^ (k + 1) := by positivity
    have hQB : A / S < (2:ℝ) ^ (k + 1) := by
      have h1 := hmono k hkmin (by have := Sem.emax_pos hF; omega) hrq
      have h2 : ((a.mag / s.mag : ℚ) : ℝ) < (((2:ℚ) ^ (k + 1) : ℚ) : ℝ) := by exact_mod_cast h1
      push_cast at h2; exact h2
    have hRe : |R - A / S| ≤ u * (2:ℝ) ^ (k + 1) / 2 := by
      have h1 := hhalf k hkmin hrq
      have h2 : ((|r.val - a.mag / s.mag| : ℚ) : ℝ) ≤ ((F.ulp k / 2 : ℚ) : ℝ) := by
        exact_mod_cast h1
      rw [Rat.cast_div, cast_ulp] at h2
      push_cast at h2
      rw [hu, unit_mul_pow]; exact h2
    have hAt : |A - t| ≤ 33 / 32 * (u * (2:ℝ) ^ (k + 1)) := by
      have e2 : (2:ℝ) ^ (k + 1 + 1) = 2 * (2:ℝ) ^ (k + 1) := by
        rw [zpow_add_one₀ (by norm_num)]; ring
      have h1 : t < (2:ℝ) ^ (k + 1 + 1) := by
        rw [div_lt_iff₀ (by linarith)] at hσ
        rw [e2]; nlinarith
      have h2 : A < (2:ℝ) ^ (k + 1 + 1) := by
        rw [div_lt_iff₀ hS0] at hQB
        rw [e2]; nlinarith
      have h3 := hk (k + 1) (by omega) h1 h2
      have e3 : (2:ℝ) ^ (k + 1 - ((F.p:ℤ) - 1)) = 2 * (u * (2:ℝ) ^ (k + 1)) := by
        rw [hu, unit_mul_pow, show k + 1 - ((F.p:ℤ) - 1) = (k - ((F.p:ℤ) - 1)) + 1 by ring,
          zpow_add_one₀ (by norm_num)]; ring
      rw [e3] at h3; linarith
    have := sig_sharp hB hA0 ht0 hS1R hSe hQB hRe hAt
    rw [hu, unit_mul_pow] at this
    exact this
  intro k hkmin hσ hr
  rw [hrsem] at hkmin ⊢
  by_cases hk0 : k ≤ 0
  · exact key k hkmin hk0 hσ hr
  · have h0 := key 0 (Sem.emin_le_zero hF) (le_refl _) (by norm_num; linarith)
      (by norm_num; linarith)
    have hmonoU : (2:ℝ) ^ (0 - ((F.p:ℤ) - 1)) ≤ (2:ℝ) ^ (k - ((F.p:ℤ) - 1)) :=
      zpow_le_zpow_right₀ (by norm_num) (by omega)
    exact le_trans h0 (mul_le_mul_of_nonneg_left hmonoU hc0)


/-- the three constants for a finite non-zero `exp x` -/
theorem sig_pos {F : Sem} (hF : F.WF) (hp : 8 ≤ F.p) (hrm : F.rm = .nte ∨ F.rm = .nta)
    {a : Flt} (ha : PosN F a)
    (hno : a.mag + 1 < nearThreshold F) {t : ℝ} (ht0 : 0 < t)
    (hk : ExpClause F a t) :
    SigBase F (a.div (a.add (Flt.one F false))) ∧
    (a.div (a.add (Flt.one F false))).cat = .normal ∧
    WithinUlps (a.div (a.add (Flt.one F false))) (t / (1 + t)) (81 / 32) ∧
    (1 ≤ t → WithinUlps (a.div (a.add (Flt.one F false))) (t / (1 + t)) (25 / 16)) ∧
    (1 / 4 ≤ t → WithinUlps (a.div (a.add (Flt.one F false))) (t / (1 + t)) 2) := by
  refine ⟨sig_pos_base hF hrm ha hno, (sig_div_posN hF (by omega) hrm ha hno).cat, ?_⟩
  by_cases ht1 : 1 ≤ t
  · have h := sig_pos_crude hF hp hrm ha hno ht1 hk
    exact ⟨withinUlps_mono h (by norm_num), fun _ => h, fun _ => withinUlps_mono h (by norm_num)⟩
  · have ht1' : t < 1 := not_le.mp ht1
    obtain ⟨ha1, h⟩ := sig_pos_sharp hF hp hrm ha hno ht0 ht1' hk
    have hA0 : (0:ℝ) < ((a.mag : ℚ) : ℝ) := by exact_mod_cast ha.mag_pos
    obtain ⟨c1, c2⟩ := sig_sharp_const hA0 ht0
    refine ⟨withinUlps_mono h c1, fun h1 => absurd h1 ht1,
      fun h4 => withinUlps_mono h (c2 ?_ h4)⟩
    -- `a ≥ 49/200`
    have hA1 : ((a.mag : ℚ) : ℝ) ≤ 1 := by exact_mod_cast ha1
    have h0 := hk 0 (Sem.emin_le_zero hF) (by norm_num; linarith) (by norm_num; linarith)
    have hU : (2:ℝ) ^ (0 - ((F.p:ℤ) - 1)) ≤ 1 / 128 := by
      calc (2:ℝ) ^ (0 - ((F.p:ℤ) - 1)) ≤ (2:ℝ) ^ (-7:ℤ) :=
            zpow_le_zpow_right₀ (by norm_num) (by omega)
        _ = 1 / 128 := by norm_num
    obtain ⟨g1, _⟩ := abs_le.mp h0
    linarith

/-- `1/(1 + e^-v) = e^v/(1 + e^v)` -/
theorem sigmoid_eq (v : ℝ) : 1 / (1 + Real.exp (-v)) = Real.exp v / (1 + Real.exp v) := by
  have h := Real.exp_pos v
  rw [Real.exp_neg]
  field_simp
  ring

/-! ### the final cast from the working format `W` (8 more bits, same exponent range) to `F` -/

/-- `W` is `F` with 8 more bits of precision -/
structure Wider (F W : Sem) : Prop where
  e : W.e = F.e
  p : W.p = F.p + 8
  rm : W.rm = F.rm

theorem wider_inc (F : Sem) : Wider F (F.increasePrecision 8) := ⟨rfl, rfl, rfl⟩

theorem Wider.emin {F W : Sem} (h : Wider F W) : W.emin = F.emin := by
  unfold Sem.emin Sem.bias; rw [h.e]

theorem Wider.emax {F W : Sem} (h : Wider F W) : W.emax = F.emax := by
  unfold Sem.emax Sem.bias; rw [h.e]

theorem Wider.wf {F W : Sem} (h : Wider F W) (hF : F.WF) : W.WF :=
  ⟨by rw [h.e]; exact hF.1, by rw [h.p]; have := hF.2; omega⟩

/-- one ulp of `W` is `1/256` ulp of `F` -/
theorem Wider.ulp {F W : Sem} (h : Wider F W) (k : ℤ) :
    (2:ℝ) ^ (k - ((W.p:ℤ) - 1)) = (2:ℝ) ^ (k - ((F.p:ℤ) - 1)) / 256 := by
  rw [h.p, show k - (((F.p + 8 : ℕ) : ℤ) - 1) = (k - ((F.p:ℤ) - 1)) - 8 by push_cast; ring,
    zpow_sub₀ (by norm_num : (2:ℝ) ≠ 0)]
  norm_num

/-- a zero of `W` is cast to the zero of `F` -/
theorem cast_zero_sig {F W : Sem} (hF : F.WF) (hW : W.WF) {q : Flt} (hqs : q.sem = W)
    (hqc : q.Canonical) (hz : q.cat = .zero) (hsg : q.sign = false) :
    (q.cast F).Canonical ∧ (q.cast F).sem = F ∧ (q.cast F).cat = .zero ∧
      (q.cast F).sign = false := by
  obtain ⟨h1, h2⟩ := cast_canonical q F hF hqc
  have hres : (q.cast F).toRes = .zero false := by
    show (q.castWithRm F q.sem.rm).toRes = _
    rw [C06.cast_correct q F q.sem.rm (by rw [hqs]; exact hW) hF hqc]
    simp [Spec.cast, hz, hsg]
  obtain ⟨h3, h4⟩ := toRes_zero hres
  exact ⟨h1, h2, h3, h4⟩

/-- **the final cast**: a positive value `q ≤ 1` of `W` within `c` ulps (of `W`) of `σ < 1` is cast to
    a value of `F` within `1/2 + c/256` ulps of `σ`; the result is `+0` only if
    `σ ≤ (1/2 + c/256)` smallest subnormals of `F` -/
theorem sig_final {F W : Sem} (hF : F.WF) (hrm : F.rm = .nte ∨ F.rm = .nta) (hw : Wider F W)
    {q : Flt} (hq : PosN W q) (hq1 : q.mag ≤ 1) {σ c : ℝ} (hσ1 : σ < 1) (hc0 : 0 ≤ c)
    (hc4 : c ≤ 4) (hWq : WithinUlps q σ c) :
    SigBase F (q.cast F) ∧ WithinUlps (q.cast F) σ (1 / 2 + c / 256) ∧
      ((q.cast F).cat = .zero → σ ≤ (1 / 2 + c / 256) * (2:ℝ) ^ (F.emin - ((F.p:ℤ) - 1))) := by
  have hW := hw.wf hF
  have hp1 : 1 ≤ F.p := by have := hF.2; omega
  obtain ⟨hrsem, hres⟩ := cast_toRes hF hW hw.rm hq
  obtain ⟨hrcan, _⟩ := cast_canonical q F hF hq.can
  have hq0 := hq.mag_pos
  have hqv : q.val = q.mag := posN_val hq
  set r := q.cast F with hrdef
  set Q : ℝ := ((q.mag : ℚ) : ℝ) with hQ
  have hQ0 : 0 < Q := by rw [hQ]; exact_mod_cast hq0
  have hQ1 : Q ≤ 1 := by rw [hQ]; exact_mod_cast hq1
  -- the clause of `q`, with the ulp of `F`
  have hclause : ∀ k : ℤ, F.emin ≤ k → σ < (2:ℝ) ^ (k + 1) → Q < (2:ℝ) ^ (k + 1) →
      |Q - σ| ≤ c / 256 * (2:ℝ) ^ (k - ((F.p:ℤ) - 1)) := by
    intro k hk h1 h2
    have := hWq k (by rw [hq.sem, hw.emin]; exact hk) h1 (by rw [hqv]; exact h2)
    rw [hqv, hq.sem, hw.ulp] at this
    linarith
  -- the rounding
  have hcases : (r.cat = .zero ∧ r.sign = false ∧ q.mag ≤ F.ulp F.emin / 2 ∧ r.val = 0) ∨
      (PosN F r ∧ r.mag ≤ 1 ∧ |r.mag - q.mag| ≤ F.ulp r.exp / 2 ∧ r.val = r.mag ∧
        ∀ c', IsRep F c' → 0 < c' → c' ≤ q.mag → c' ≤ r.mag) := by
    rcases round_tri hF hrm hrsem hq0 hres with ⟨_, _, h⟩ | ⟨h1, h2, h⟩ | ⟨hp, hm, herr, e, m, hfin⟩
    · exfalso
      have h1 := maxFinite_lt_nearThreshold F
      have h2 := pow_emax_le_maxFinite (F := F) hp1
      have h3 : (2:ℚ) ^ (1:ℤ) ≤ (2:ℚ) ^ F.emax :=
        zpow_le_zpow_right₀ (by norm_num) (by have := Sem.emax_pos hF; omega)
      norm_num at h3
      linarith
    · exact Or.inl ⟨h1, h2, h, Flt.val_zero h1⟩
    · refine Or.inr ⟨hp, ?_, herr, posN_val hp, fun c' hc' hc0' hle => ?_⟩
      · rw [hm]; exact rnd_le hF F.rm hq0 (isRep_one' hF) hq1
      · rw [hm]; exact rnd_ge_fin hF F.rm hc0' hc' hle hfin
  set R : ℝ := ((r.val : ℚ) : ℝ) with hR
  -- facts about the value of the result
  have hR01 : 0 ≤ r.val ∧ r.val ≤ 1 := by
    rcases hcases with ⟨_, _, _, hv⟩ | ⟨hp, h1, _, hv, _⟩
    · rw [hv]; norm_num
    · rw [hv]; exact ⟨le_of_lt hp.mag_pos, h1⟩
  have hhalf : ∀ k : ℤ, F.emin ≤ k → R < (2:ℝ) ^ (k + 1) →
      |R - Q| ≤ (2:ℝ) ^ (k - ((F.p:ℤ) - 1)) / 2 ∧ (k + 1 ≤ F.emax → Q < (2:ℝ) ^ (k + 1)) := by
    intro k hk hr
    have hrq : r.val < (2:ℚ) ^ (k + 1) := by
      have : ((r.val : ℚ) : ℝ) < (((2:ℚ) ^ (k + 1) : ℚ) : ℝ) := by push_cast; exact hr
      exact_mod_cast this
    have hkey : |r.val - q.mag| ≤ F.ulp k / 2 ∧ (k + 1 ≤ F.emax → q.mag < (2:ℚ) ^ (k + 1)) := by
      rcases hcases with ⟨_, _, hle, hv⟩ | ⟨hp, _, herr, hv, hmono⟩
      · rw [hv, zero_sub, abs_neg, abs_of_pos hq0]
        have hm := F.ulp_mono hk
        refine ⟨by linarith, fun _ => ?_⟩
        have h2 : F.ulp F.emin ≤ (2:ℚ) ^ (k + 1) := by
          rw [Sem.ulp_def]
          exact zpow_le_zpow_right₀ (by norm_num) (by have := hF.2; omega)
        have := F.ulp_pos F.emin
        linarith
      · rw [hv] at hrq ⊢
        refine ⟨posN_half_ulp hF hp herr hk hrq, fun hke => ?_⟩
        by_contra hcon
        have hrep : IsRep F ((2:ℚ) ^ (k + 1)) := isRep_pow hF _ (by have := hF.2; omega) hke
        have := hmono _ hrep (by positivity) (not_lt.mp hcon)
        linarith
    obtain ⟨k1, k2⟩ := hkey
    constructor
    · have h2 : ((|r.val - q.mag| : ℚ) : ℝ) ≤ ((F.ulp k / 2 : ℚ) : ℝ) := by exact_mod_cast k1
      rw [Rat.cast_div, cast_ulp] at h2
      push_cast at h2
      exact h2
    · intro hke
      have h2 : ((q.mag : ℚ) : ℝ) < (((2:ℚ) ^ (k + 1) : ℚ) : ℝ) := by exact_mod_cast k2 hke
      push_cast at h2; exact h2
  have hsg : r.sign = false := by
    rcases hcases with ⟨_, h, _⟩ | ⟨hp, _⟩
    · exact h
    · exact hp.sign
  have hcat : r.cat = .normal ∨ r.cat = .zero := by
    rcases hcases with ⟨h, _⟩ | ⟨hp, _⟩
    · exact Or.inr h
    · exact Or.inl hp.cat
  have hc' : (0:ℝ) ≤ 1 / 2 + c / 256 := by positivity
  -- the claim for binades up to 0
  have key : ∀ k : ℤ, F.emin ≤ k → k ≤ 0 → σ < (2:ℝ) ^ (k + 1) → R < (2:ℝ) ^ (k + 1) →
      |R - σ| ≤ (1 / 2 + c / 256) * (2:ℝ) ^ (k - ((F.p:ℤ) - 1)) := by
    intro k hk hk0 hσ hr
    obtain ⟨h1, h2⟩ := hhalf k hk hr
    have h3 := hclause k hk hσ (h2 (by have := Sem.emax_pos hF; omega))
    have e : R - σ = (R - Q) + (Q - σ) := by ring
    rw [e]
    have := abs_add_le (R - Q) (Q - σ)
    linarith
  refine ⟨⟨hrcan, hrsem, hsg, hcat, hR01.1, hR01.2⟩, ?_, ?_⟩
  · intro k hkmin hσ hr
    rw [hrsem] at hkmin ⊢
    have hR1 : R ≤ 1 := by rw [hR]; exact_mod_cast hR01.2
    by_cases hk0 : k ≤ 0
    · exact key k hkmin hk0 hσ hr
    · have h0 := key 0 (Sem.emin_le_zero hF) (le_refl _) (by norm_num; linarith)
        (by norm_num; linarith)
      have hmonoU : (2:ℝ) ^ (0 - ((F.p:ℤ) - 1)) ≤ (2:ℝ) ^ (k - ((F.p:ℤ) - 1)) :=
        zpow_le_zpow_right₀ (by norm_num) (by omega)
      exact le_trans h0 (mul_le_mul_of_nonneg_left hmonoU hc')
  · intro hz
    rcases hcases with ⟨_, _, hle, _⟩ | ⟨hp, _⟩
    swap
    · rw [hp.cat] at hz; exact absurd hz (by simp)
    have hleR : Q ≤ (2:ℝ) ^ (F.emin - ((F.p:ℤ) - 1)) / 2 := by
      have h2 : ((q.mag : ℚ) : ℝ) ≤ ((F.ulp F.emin / 2 : ℚ) : ℝ) := by exact_mod_cast hle
      rw [Rat.cast_div, cast_ulp] at h2
      push_cast at h2; exact h2
    set η : ℝ := (2:ℝ) ^ (F.emin - ((F.p:ℤ) - 1)) with hη
    have hη0 : 0 < η := by positivity
    have hηe : 2 * η ≤ (2:ℝ) ^ F.emin := by
      have : η ≤ (2:ℝ) ^ (F.emin - 1) := zpow_le_zpow_right₀ (by norm_num) (by have := hF.2; omega)
      have e : (2:ℝ) ^ F.emin = 2 * (2:ℝ) ^ (F.emin - 1) := by
        rw [show F.emin = (F.emin - 1) + 1 by ring, zpow_add_one₀ (by norm_num)]; ring_nf
      linarith
    have hQe : Q < (2:ℝ) ^ (F.emin + 1) := by
      have : (2:ℝ) ^ (F.emin + 1) = 2 * (2:ℝ) ^ F.emin := by
        rw [zpow_add_one₀ (by norm_num)]; ring
      have hpe : (0:ℝ) < (2:ℝ) ^ F.emin := by positivity
      linarith
    by_cases hσe : σ < (2:ℝ) ^ (F.emin + 1)
    · have := hclause F.emin (le_refl _) hσe hQe
      obtain ⟨g1, _⟩ := abs_le.mp this
      rw [← hη] at this g1
      linarith
    · exfalso
      have hσge := not_lt.mp hσe
      -- relative form: `Q ≥ σ/2`
      have hrel := spec_rel (F := F) (A := Q) (t := σ) (c := c / 256) hQ0 (by positivity) hclause
        (le_trans (le_trans (zpow_le_zpow_right₀ (by norm_num) (by omega)) hσge) (le_max_right _ _))
      have hmax : max Q σ = σ := max_eq_right (by linarith)
      rw [hmax] at hrel
      have hu : (2:ℝ) ^ (-(F.p:ℤ)) ≤ 1 / 4 := by
        calc (2:ℝ) ^ (-(F.p:ℤ)) ≤ (2:ℝ) ^ (-2:ℤ) :=
              zpow_le_zpow_right₀ (by norm_num) (by have := hF.2; omega)
          _ = 1 / 4 := by norm_num
      have hu0 : (0:ℝ) < (2:ℝ) ^ (-(F.p:ℤ)) := by positivity
      have hσ0 : 0 < σ := by
        have : (0:ℝ) < (2:ℝ) ^ (F.emin + 1) := by positivity
        linarith
      have hcoef : c / 256 * 2 * (2:ℝ) ^ (-(F.p:ℤ)) ≤ 1 / 2 := by nlinarith
      obtain ⟨g1, _⟩ := abs_le.mp hrel
      have : c / 256 * 2 * (2:ℝ) ^ (-(F.p:ℤ)) * σ ≤ 1 / 2 * σ :=
        mul_le_mul_of_nonneg_right hcoef (le_of_lt hσ0)
      have hpe : (2:ℝ) ^ (F.emin + 1) = 2 * (2:ℝ) ^ F.emin := by
        rw [zpow_add_one₀ (by norm_num)]; ring
      nlinarith

/-! ### the three outcomes of `exp` in the working format -/

/-- **core**: `ex` is what `exp` delivers in the working format `W` (`RoundSpec`), `t = e^x`; the
    no-overflow condition `hno` for `ex + 1` is automatic when `W` is in the domain of `exp` -/
theorem sigmoid_core {F W : Sem} (hF : F.WF) (hp : 8 ≤ F.p) (hrm : F.rm = .nte ∨ F.rm = .nta)
    (hw : Wider F W) {ex : Flt} (hcan : ex.Canonical) (hsem : ex.sem = W) {t : ℝ} (ht0 : 0 < t)
    (hspec8 : RoundSpec W ex t (1 / 8)) (h64 : ex.cat ≠ .inf → RoundSpec W ex t (1 / 64))
    (hpow : ex.cat = .inf → (2:ℝ) ^ (F.p:ℤ) < t)
    (hno : PosN W ex → ex.mag + 1 < nearThreshold W) :
    SigBase F (if ex.isInf then Flt.one F false
      else (ex.div (ex.add (Flt.one W false))).cast F) ∧
    ((if ex.isInf then Flt.one F false
      else (ex.div (ex.add (Flt.one W false))).cast F).cat = .zero →
        t < (2:ℝ) ^ (F.emin - ((F.p:ℤ) - 1))) ∧
    WithinUlps (if ex.isInf then Flt.one F false
      else (ex.div (ex.add (Flt.one W false))).cast F) (t / (1 + t)) (4177 / 8192) := by
  have hW := hw.wf hF
  have hWrm : W.rm = .nte ∨ W.rm = .nta := by rw [hw.rm]; exact hrm
  have hσ1 : t / (1 + t) < 1 := by rw [div_lt_one (by linarith)]; linarith
  have hσ0 : 0 < t / (1 + t) := by positivity
  set η : ℝ := (2:ℝ) ^ (F.emin - ((F.p:ℤ) - 1)) with hη
  have hη0 : 0 < η := by positivity
  have hη4 : η ≤ 1 / 4 := by
    calc η ≤ (2:ℝ) ^ (-2:ℤ) :=
          zpow_le_zpow_right₀ (by norm_num) (by have := Sem.emin_le_zero hF; omega)
      _ = 1 / 4 := by norm_num
  rcases hspec8.1 with ⟨hinf, _, _⟩ | ⟨hz, hzs, hlt⟩ | ⟨hpN, _, _⟩
  · -- overflow
    have hi : ex.isInf = true := by simp [Flt.isInf, hinf]
    rw [if_pos hi]
    obtain ⟨b, w⟩ := sig_one hF (hpow hinf)
    exact ⟨b, fun h => absurd (show (Flt.one F false).cat = .normal from rfl) (by rw [h]; simp),
      withinUlps_mono w (by norm_num)⟩
  · -- underflow to zero in `W`
    have hi : ¬ ex.isInf = true := by simp [Flt.isInf, hz]
    rw [if_neg hi]
    obtain ⟨⟨q1, q2, _, _, _, _⟩, q7, _⟩ := sig_zero hW hcan hsem hz hzs ht0 hlt
    obtain ⟨c1, c2, c3, c4⟩ := cast_zero_sig hF hW q2 q1 q7
      (by obtain ⟨⟨_, _, h, _⟩, _⟩ := sig_zero hW hcan hsem hz hzs ht0 hlt; exact h)
    have hv := Flt.val_zero c3
    have hηW : (2:ℝ) ^ (W.emin - ((W.p:ℤ) - 1)) = η / 256 := by
      rw [hw.emin, hw.ulp]
    rw [hηW] at hlt
    have htη : t < η := by linarith
    refine ⟨⟨c1, c2, c4, Or.inr c3, by rw [hv], by rw [hv]; norm_num⟩, fun _ => htη, ?_⟩
    intro k hk _ _
    rw [hv, c2] at *
    push_cast
    rw [zero_sub, abs_neg, abs_of_pos hσ0]
    have h1 : t / (1 + t) ≤ t := by
      rw [div_le_iff₀ (by linarith)]; nlinarith
    have h2 : η ≤ (2:ℝ) ^ (k - ((F.p:ℤ) - 1)) :=
      zpow_le_zpow_right₀ (by norm_num) (by omega)
    have h3 : (0:ℝ) < (2:ℝ) ^ (k - ((F.p:ℤ) - 1)) := by positivity
    linarith
  · -- a positive finite `exp x`
    have hi : ¬ ex.isInf = true := by simp [Flt.isInf, hpN.cat]
    rw [if_neg hi]
    obtain ⟨hc64, _⟩ := h64 (by rw [hpN.cat]; simp)
    have hk' : ExpClause W ex t := by
      rcases hc64 with ⟨hinf, _⟩ | ⟨hz, _⟩ | ⟨_, hk, _⟩
      · rw [hpN.cat] at hinf; exact absurd hinf (by simp)
      · rw [hpN.cat] at hz; exact absurd hz (by simp)
      · intro k a1 a2 a3
        have := hk k a1 a2 a3
        norm_num at this ⊢
        exact this
    obtain ⟨⟨b1, b2, b3, _, _, b6⟩, hcat, w1, _, _⟩ :=
      sig_pos hW (by rw [hw.p]; omega) hWrm hpN (hno hpN) ht0 hk'
    have hq : PosN W (ex.div (ex.add (Flt.one W false))) := ⟨b2, b1, hcat, b3⟩
    have hq1 : (ex.div (ex.add (Flt.one W false))).mag ≤ 1 := by
      rw [← posN_val hq]; exact b6
    obtain ⟨f1, f2, f3⟩ := sig_final hF hrm hw hq hq1 hσ1 (by norm_num) (by norm_num) w1
    have e : (1:ℝ) / 2 + 81 / 32 / 256 = 4177 / 8192 := by norm_num
    rw [e] at f2 f3
    refine ⟨f1, fun hz => ?_, f2⟩
    have h := f3 hz
    rw [← hη] at h
    rw [div_le_iff₀ (by linarith)] at h
    by_contra hcon
    have hge : η ≤ t := not_lt.mp hcon
    nlinarith

end Arp.C16.Sigm

namespace Arp.C16
open Arp Arp.SpecRound Arp.Sqrt Arp.RelErr Arp.ExpErr Arp.SigmoidErr Arp.C16.ExpAcc Arp.C16.Sigm

/-- **C16, accuracy of `sigmoid`, general form** (see `sigmoid_accuracy`) -/
theorem sigmoid_accuracy_gen (x : Flt) (hF : x.sem.WF) (hp : 8 ≤ x.sem.p)
    (hdom : x.sem.p ≤ 2 ^ (x.sem.e - 1) - 2) (hrm : x.sem.rm = .nte ∨ x.sem.rm = .nta)
    (hc : x.Canonical) (hn : x.cat = .normal) (hx : |x.val| ≤ 1024)
    (fuel : ℕ) (hfuel : C19.redBound x.exp + 1 ≤ fuel)
    (hedge : x.sem.p + 8 ≤ 2 ^ (x.sem.e - 1) - 2 ∨
      Real.exp ((x.val : ℚ) : ℝ) ≤ (2:ℝ) ^ (x.sem.emax + 1) - 4 ∨
      (2:ℝ) ^ (x.sem.emax + 1) ≤ Real.exp ((x.val : ℚ) : ℝ)) :
    ∃ r, x.sigmoidFuel fuel = some r ∧ r.Canonical ∧ r.sem = x.sem ∧ r.sign = false ∧
      (r.cat = .normal ∨ r.cat = .zero) ∧
      (r.cat = .zero →
        Real.exp ((x.val : ℚ) : ℝ) < (2:ℝ) ^ (x.sem.emin - ((x.sem.p:ℤ) - 1))) ∧
      0 ≤ r.val ∧ r.val ≤ 1 ∧
      WithinUlps r (1 / (1 + Real.exp (-((x.val : ℚ) : ℝ)))) (4177 / 8192) ∧
      WithinUlps r (1 / (1 + Real.exp (-((x.val : ℚ) : ℝ)))) 2 := by
  set W := x.sem.increasePrecision 8 with hWdef
  have hw : Wider x.sem W := wider_inc x.sem
  have hW : W.WF := hw.wf hF
  -- the operand in the working format
  obtain ⟨a1, a2, a3, a4, a5⟩ := C06.widen_lossless_normal x W x.sem.rm (le_refl _)
    (by rw [hw.p]; omega) hF hW hn hc
  have hxexp := C19.widen_exp_le x W x.sem.rm (le_refl _) (by rw [hw.p]; omega) hF hW hn hc
  have hcast : x.cast W = x.castWithRm W x.sem.rm := rfl
  set xw := x.castWithRm W x.sem.rm with hxw
  have hval : xw.val = x.val := by
    rw [Flt.val_normal a2, Flt.val_normal hn, a4, a5]
  have hWp : W.p = x.sem.p + 8 := hw.p
  have hWe : W.e = x.sem.e := hw.e
  obtain ⟨ex, h1, hcan, hsem, hspec8, h64⟩ := ExpWide.exp_all_wide xw (by rw [a1]; exact hW)
    (by rw [a1, hWp]; omega) (by rw [a1, hWp, hWe]; omega) (by rw [a1, hWp]; omega)
    (by rw [a1, hw.rm]; exact hrm) a3 a2 (by rw [hval]; exact hx) fuel
    (le_trans (Nat.add_le_add_right (C19.redBound_mono hxexp) 1) hfuel)
  rw [a1] at hsem hspec8 h64
  rw [hval] at hspec8 h64
  set t : ℝ := Real.exp ((x.val : ℚ) : ℝ) with ht
  have ht0 : 0 < t := Real.exp_pos _
  rw [sigmoid_eq]
  have hWemax : W.emax = ((2 ^ (x.sem.e - 1) : ℕ) : ℤ) - 1 := by
    rw [Sem.emax_eq (by rw [hWe]; have := hF.1; omega), hWe]
  have hpe : (x.sem.p:ℤ) + 1 ≤ W.emax := by
    rw [hWemax]
    generalize 2 ^ (x.sem.e - 1) = n at hdom ⊢
    omega
  -- a finite `exp` result comes with the constant `1/64`
  have h64' : ex.cat ≠ .inf → RoundSpec W ex t (1 / 64) := by
    intro hne
    have hlt : t < (2:ℝ) ^ (W.emax + 1) := by
      by_contra hcon
      exact hne (hspec8.2 (not_lt.mp hcon))
    apply h64
    cases hs : xw.sign
    · right
      have hvm : xw.val = xw.mag := posN_val ⟨a1, a3, a2, hs⟩
      rw [ht, ← hval, hvm, ← a1] at hlt
      have h' := exp_lt_e (by rw [a1]; exact hW) a3 a2 hlt
      rw [a1] at h'
      have hWe' : (W.e : ℤ) = (x.sem.e : ℤ) := by rw [hWe]
      omega
    · left; rfl
  have hpow : ex.cat = .inf → (2:ℝ) ^ (x.sem.p:ℤ) < t := by
    intro hinf
    rcases hspec8.1 with ⟨_, _, hgt⟩ | ⟨hz, _⟩ | ⟨hpN, _⟩
    · exact pow_lt_of_overflow hW hpe hgt
    · rw [hinf] at hz; exact absurd hz (by simp)
    · rw [hpN.cat] at hinf; exact absurd hinf (by simp)
  -- `ex + 1` does not overflow
  have hno : PosN W ex → ex.mag + 1 < nearThreshold W := by
    intro hpN
    by_cases hdomW : x.sem.p + 8 ≤ 2 ^ (x.sem.e - 1) - 2
    · refine no_ovf_of_hpe ?_ hpN
      rw [hWemax, hWp]
      generalize 2 ^ (x.sem.e - 1) = n at hdomW hdom ⊢
      push_cast
      omega
    · rcases hedge with h | h | h
      · exact absurd h hdomW
      · have hulp : W.ulp W.emax ≤ 2 := by
          rw [Sem.ulp_def]
          calc (2:ℚ) ^ (W.emax - ((W.p:ℤ) - 1)) ≤ (2:ℚ) ^ (1:ℤ) := by
                apply zpow_le_zpow_right₀ (by norm_num)
                rw [hWemax, hWp]
                generalize 2 ^ (x.sem.e - 1) = n at hdomW hdom ⊢
                push_cast
                omega
            _ = 2 := by norm_num
        have hEm : x.sem.emax = W.emax := hw.emax.symm
        rw [hEm] at h
        rcases hspec8.1 with ⟨hinf, _⟩ | ⟨hz, _⟩ | ⟨_, hk, _⟩
        · rw [hpN.cat] at hinf; exact absurd hinf (by simp)
        · rw [hpN.cat] at hz; exact absurd hz (by simp)
        · have hA : ((ex.mag : ℚ) : ℝ) < (2:ℝ) ^ (W.emax + 1) := by
            have := lt_of_le_of_lt hpN.isRep.le_maxFinite (maxFinite_lt_sr W)
            have h2 : ((ex.mag : ℚ) : ℝ) < (((2:ℚ) ^ (W.emax + 1) : ℚ) : ℝ) := by
              exact_mod_cast this
            push_cast at h2; exact h2
          exact no_ovf_of_small hulp h
            (hk W.emax (Sem.emin_le_emax hW) (by linarith) hA)
      · exfalso
        have hEm : x.sem.emax = W.emax := hw.emax.symm
        rw [hEm] at h
        have := hspec8.2 h
        rw [hpN.cat] at this; exact absurd this (by simp)
  obtain ⟨⟨b1, b2, b3, b4, b5, b6⟩, hz, w⟩ := sigmoid_core hF hp hrm hw hcan hsem ht0 hspec8 h64' hpow
    hno
  rw [sigmoidFuel_normal x fuel hn, hcast, h1]
  simp only [Option.map_some]
  exact ⟨_, rfl, b1, b2, b3, b4, hz, b5, b6, w, withinUlps_mono w (by norm_num)⟩

/-- `e^v ≤ 2^1536` for `v ≤ 1024` -/
theorem exp_le_two_pow_1536 {v : ℝ} (hv : v ≤ 1024) : Real.exp v ≤ (2:ℝ) ^ (1536:ℤ) := by
  have h1 : Real.exp v ≤ Real.exp 1024 := Real.exp_le_exp.mpr hv
  have e9 := Real.exp_one_lt_d9
  have hpos := Real.exp_pos 1
  have h2 : Real.exp (1024:ℝ) = (Real.exp 1 * Real.exp 1) ^ 512 := by
    rw [← Real.exp_add, ← Real.exp_nat_mul]; norm_num
  have h3 : Real.exp 1 * Real.exp 1 ≤ 8 := by nlinarith
  have h4 : (Real.exp 1 * Real.exp 1) ^ 512 ≤ (8:ℝ) ^ 512 :=
    pow_le_pow_left₀ (by positivity) h3 512
  have h5 : (8:ℝ) ^ 512 = (2:ℝ) ^ (1536:ℤ) := by
    rw [show (8:ℝ) = 2 ^ 3 by norm_num, ← pow_mul, show (1536:ℤ) = ((3 * 512 : ℕ) : ℤ) by norm_num,
      zpow_natCast]
  rw [h2] at h1
  exact le_trans h1 (le_trans h4 (le_of_eq h5))

/-- **C16, accuracy of `sigmoid`** for every format of the domain whose working format (8 more
    bits) is in the domain of `exp` as well, or whose exponent width is at least 12 (then
    `e^1024 < 2^1536` is far below the overflow threshold) -/
theorem sigmoid_accuracy_all (x : Flt) (hF : x.sem.WF) (hp : 8 ≤ x.sem.p)
    (hdom : x.sem.p ≤ 2 ^ (x.sem.e - 1) - 2) (hrm : x.sem.rm = .nte ∨ x.sem.rm = .nta)
    (hc : x.Canonical) (hn : x.cat = .normal) (hx : |x.val| ≤ 1024)
    (fuel : ℕ) (hfuel : C19.redBound x.exp + 1 ≤ fuel)
    (hfmt : x.sem.p + 8 ≤ 2 ^ (x.sem.e - 1) - 2 ∨ 12 ≤ x.sem.e) :
    ∃ r, x.sigmoidFuel fuel = some r ∧ r.Canonical ∧ r.sem = x.sem ∧ r.sign = false ∧
      (r.cat = .normal ∨ r.cat = .zero) ∧
      (r.cat = .zero →
        Real.exp ((x.val : ℚ) : ℝ) < (2:ℝ) ^ (x.sem.emin - ((x.sem.p:ℤ) - 1))) ∧
      0 ≤ r.val ∧ r.val ≤ 1 ∧
      WithinUlps r (1 / (1 + Real.exp (-((x.val : ℚ) : ℝ)))) (4177 / 8192) ∧
      WithinUlps r (1 / (1 + Real.exp (-((x.val : ℚ) : ℝ)))) 2 := by
  refine sigmoid_accuracy_gen x hF hp hdom hrm hc hn hx fuel hfuel ?_
  rcases hfmt with h | h
  · exact Or.inl h
  · right; left
    have hv : ((x.val : ℚ) : ℝ) ≤ 1024 := by
      have : x.val ≤ 1024 := le_trans (le_abs_self _) hx
      exact_mod_cast this
    have h1 := exp_le_two_pow_1536 hv
    have h2 : (2:ℝ) ^ (2048:ℤ) ≤ (2:ℝ) ^ (x.sem.emax + 1) := by
      apply zpow_le_zpow_right₀ (by norm_num)
      rw [Sem.emax_eq (by omega)]
      have : 2 ^ 11 ≤ 2 ^ (x.sem.e - 1) := Nat.pow_le_pow_right (by norm_num) (by omega)
      have h11 : (2:ℕ) ^ 11 = 2048 := by norm_num
      generalize 2 ^ (x.sem.e - 1) = n at this ⊢
      omega
    have h3 : (2:ℝ) ^ (2048:ℤ) = (2:ℝ) ^ (1536:ℤ) * (2:ℝ) ^ (512:ℤ) := by
      rw [← zpow_add₀ (by norm_num : (2:ℝ) ≠ 0)]; norm_num
    have h4 : (2:ℝ) ≤ (2:ℝ) ^ (512:ℤ) := by
      calc (2:ℝ) = (2:ℝ) ^ (1:ℤ) := by norm_num
        _ ≤ (2:ℝ) ^ (512:ℤ) := zpow_le_zpow_right₀ (by norm_num) (by norm_num)
    have h5 : (4:ℝ) ≤ (2:ℝ) ^ (1536:ℤ) := by
      calc (4:ℝ) = (2:ℝ) ^ (2:ℤ) := by norm_num
        _ ≤ (2:ℝ) ^ (1536:ℤ) := zpow_le_zpow_right₀ (by norm_num) (by norm_num)
    rw [h3] at h2
    generalize (2:ℝ) ^ (1536:ℤ) = A at h1 h2 h5
    generalize (2:ℝ) ^ (512:ℤ) = B at h2 h4
    generalize (2:ℝ) ^ (x.sem.emax + 1) = T at h2 ⊢
    nlinarith

/-- **C16, accuracy of `sigmoid`.** -/
theorem sigmoid_accuracy (x : Flt) (hF : x.sem.WF) (hp : 8 ≤ x.sem.p)
    (hdomW : x.sem.p + 8 ≤ 2 ^ (x.sem.e - 1) - 2) (hrm : x.sem.rm = .nte ∨ x.sem.rm = .nta)
    (hc : x.Canonical) (hn : x.cat = .normal) (hx : |x.val| ≤ 1024)
    (fuel : ℕ) (hfuel : C19.redBound x.exp + 1 ≤ fuel) :
    ∃ r, x.sigmoidFuel fuel = some r ∧ r.Canonical ∧ r.sem = x.sem ∧ r.sign = false ∧
      (r.cat = .normal ∨ r.cat = .zero) ∧
      (r.cat = .zero →
        Real.exp ((x.val : ℚ) : ℝ) < (2:ℝ) ^ (x.sem.emin - ((x.sem.p:ℤ) - 1))) ∧
      0 ≤ r.val ∧ r.val ≤ 1 ∧
      WithinUlps r (1 / (1 + Real.exp (-((x.val : ℚ) : ℝ)))) (4177 / 8192) ∧
      WithinUlps r (1 / (1 + Real.exp (-((x.val : ℚ) : ℝ)))) 2 :=
  sigmoid_accuracy_gen x hF hp (by omega) hrm hc hn hx fuel hfuel (Or.inl hdomW)

end Arp.C16
