import Arp.Props.C09
import Arp.Model.Str
import Mathlib.Data.Nat.Digits.Defs
/-!
# C13 ↔ C09 — the digits printed by the limb-level `to_digits::<10>` are the digits the
# display theorems talk about

`Flt.convertNormalToString` (Arp/Model/Str.lean) extracts decimal digits with
`decDigits n = (Nat.toDigits 10 n).map (· - '0')` on a `Nat`; the Rust code calls
`BigInt::to_digits::<10>` on a limb vector (`Limbs.toDigits 10`, Arp/Model/Limbs.lean).
`limbs_toDigits_eq_decDigits` identifies the two for every well-formed limb list of at most 5000
words, i.e. for every integer below `2^320000` however it is laid out in limbs (leading zero words
allowed).
-/
namespace Arp.C13
open Arp

/-- the character of a decimal digit decodes to the digit -/
theorem digitChar_sub_zero : ∀ d, d < 10 → (Nat.digitChar d).toNat - '0'.toNat = d := by decide

/-- `Nat.toDigits 10` (core, most significant first, characters) against `Nat.digits 10`
    (Mathlib, least significant first, numbers), for positive arguments -/
theorem toDigits_map_eq_digits_reverse (n : Nat) (hn : 0 < n) :
    (Nat.toDigits 10 n).map (fun c => c.toNat - '0'.toNat) = (Nat.digits 10 n).reverse := by
  induction n using Nat.strong_induction_on with
  | _ n ih =>
    rw [Nat.toDigits_eq_if (b := 10) (n := n) (by norm_num)]
    by_cases h : n < 10
    · rw [if_pos h, Nat.digits_of_lt 10 n hn.ne' h]
      simp only [List.map_cons, List.map_nil, List.reverse_cons, List.reverse_nil, List.nil_append]
      rw [digitChar_sub_zero n h]
    · rw [if_neg h, Nat.digits_def' (by norm_num) hn, List.reverse_cons, List.map_append,
        ih (n / 10) (Nat.div_lt_self hn (by norm_num)) (Nat.div_pos (by omega) (by norm_num))]
      simp only [List.map_cons, List.map_nil]
      rw [digitChar_sub_zero (n % 10) (Nat.mod_lt _ (by norm_num))]

/-- the digit list of the display model is Mathlib's digit list, most significant first -/
theorem decDigits_eq_digits_reverse (n : Nat) : decDigits n = (Nat.digits 10 n).reverse := by
  unfold decDigits
  by_cases h : n = 0
  · rw [if_pos h, h, Nat.digits_zero, List.reverse_nil]
  · rw [if_neg h]; exact toDigits_map_eq_digits_reverse n (Nat.pos_of_ne_zero h)

/-- **C13 ↔ C09.**  On every well-formed limb list of at most 5000 words the limb-level
    `to_digits::<10>` returns exactly the digit list used by the display model. -/
theorem limbs_toDigits_eq_decDigits {l : List Nat} (hl : Limbs.WF l) (hlen : l.length ≤ 5000) :
    Limbs.toDigits 10 l = decDigits (Limbs.val l) := by
  rw [C09.toDigits_ten_val hl hlen, decDigits_eq_digits_reverse]

/-- … and it does so without hitting the `num_digits - k` underflow (no panic) -/
theorem limbs_toDigits_ok {l : List Nat} (hl : Limbs.WF l) (hlen : l.length ≤ 5000) :
    Limbs.toDigitsOk 10 l = true := C09.toDigitsOk_ten hl hlen

/-! ### every integer below `2^320000` has such a limb representation -/

/-- the `k` low limbs of `n`, little endian -/
def limbsOfNat : Nat → Nat → List Nat
  | 0, _ => []
  | k + 1, n => n % Limbs.B :: limbsOfNat k (n / Limbs.B)

theorem limbsOfNat_length (k n : Nat) : (limbsOfNat k n).length = k := by
  induction k generalizing n with
  | zero => rfl
  | succ k ih => simp [limbsOfNat, ih]

theorem limbsOfNat_WF (k n : Nat) : Limbs.WF (limbsOfNat k n) := by
  induction k generalizing n with
  | zero => intro w hw; simp [limbsOfNat] at hw
  | succ k ih =>
    intro w hw
    simp only [limbsOfNat, List.mem_cons] at hw
    rcases hw with rfl | hw
    · exact Nat.mod_lt _ Limbs.B_pos
    · exact ih _ w hw

theorem limbsOfNat_val (k n : Nat) : Limbs.val (limbsOfNat k n) = n % Limbs.B ^ k := by
  induction k generalizing n with
  | zero => simp [limbsOfNat, Nat.mod_one]
  | succ k ih =>
    simp only [limbsOfNat, Limbs.val_cons, ih]
    rw [Nat.pow_succ, Nat.mul_comm (Limbs.B ^ k) Limbs.B, Nat.mod_mul]

/-- Every integer of up to 320 000 bits is the value of a well-formed limb list of 5000 words, and
    on EVERY well-formed representation of it of at most 5000 words the limb algorithm prints the
    digits of the display model. -/
theorem digits_of_bounded (n : Nat) (hn : n < 2 ^ 320000) :
    (∃ l, Limbs.WF l ∧ l.length ≤ 5000 ∧ Limbs.val l = n) ∧
    (∀ l, Limbs.WF l → l.length ≤ 5000 → Limbs.val l = n →
      Limbs.toDigits 10 l = decDigits n ∧ Limbs.toDigitsOk 10 l = true) := by
  refine ⟨⟨limbsOfNat 5000 n, limbsOfNat_WF _ _, by rw [limbsOfNat_length], ?_⟩, ?_⟩
  · have hB : Limbs.B ^ 5000 = 2 ^ 320000 := by rw [Limbs.B_pow, ← pow_mul]
    rw [limbsOfNat_val, hB]
    exact Nat.mod_eq_of_lt hn
  · intro l hl hlen hv
    exact ⟨hv ▸ limbs_toDigits_eq_decDigits hl hlen, limbs_toDigits_ok hl hlen⟩

/-- The byte string of digits built by `convert_normal_to_string` (`digits`, before padding and the
    decimal point), computed from ANY limb representation `l` of the reduced integer. -/
theorem display_digits_from_limbs (x : Flt) (l : List Nat) (hl : Limbs.WF l)
    (hlen : l.length ≤ 5000)
    (hv : Limbs.val l
      = (reducePrinted x.sem.p x.convertToInteger.1 x.convertToInteger.2).1) :
    (Limbs.toDigits 10 l).map (· + 48)
      = (decDigits (reducePrinted x.sem.p x.convertToInteger.1 x.convertToInteger.2).1).map
          (· + 48) := by
  rw [limbs_toDigits_eq_decDigits hl hlen, hv]

example : Limbs.toDigits 10 [90210, 0] = decDigits 90210 := by decide
example : decDigits 90210 = [9, 0, 2, 1, 0] := by decide
example : decDigits 0 = [] := by decide

end Arp.C13
