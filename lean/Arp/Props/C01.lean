import Arp.Props.C01AddSub
import Arp.Props.C01MulDiv
import Arp.Props.SpecRound
/-!
# C01 — add, subtract, multiply and divide are correctly rounded in every rounding mode

The four theorems `Arp.C01.add_correct`, `sub_correct`, `mul_correct`, `div_correct`
(in `Arp/Props/C01AddSub.lean` and `Arp/Props/C01MulDiv.lean`) say: for every well-formed
format, every pair of canonical operands of that format (any category) and every mode,
the model's result is the exact real result rounded once by `Spec.round`
(specials by the IEEE table `Spec.add/sub/mul/div`).

Operator forms: in the model `a + b` is by definition `addWithRm a b a.sem.rm` etc.
(`Flt.add/sub/mul/div`, Arp/Model/Funcs.lean); that the Rust operator impls do the same
is glue, checked by the correspondence stream `operators`.
-/
namespace Arp.C01

theorem operator_add (a b : Flt) : a.add b = addWithRm a b a.sem.rm := rfl
theorem operator_sub (a b : Flt) : a.sub b = subWithRm a b a.sem.rm := rfl
theorem operator_mul (a b : Flt) : a.mul b = mulWithRm a b a.sem.rm := rfl
theorem operator_div (a b : Flt) : a.div b = divWithRm a b a.sem.rm := rfl

/-- mode `None` truncates toward zero: whenever the result does not overflow it is the
    result of mode `Zero` (the two modes share every branch of `Spec.up`/`Spec.finish`
    except the overflow table). -/
theorem none_truncates (F : Sem) (neg : Bool) (q : ℚ)
    (h : ∀ r, Spec.round F .zero neg q = r → r ≠ Spec.overflow F .zero neg) :
    Spec.round F .none neg q = Spec.round F .zero neg q ∨
      Spec.round F .zero neg q = Spec.overflow F .zero neg := by
  left
  have hne := h _ rfl
  unfold Spec.round Spec.finish Spec.up at *
  simp only [Bool.and_false, Bool.false_eq_true, if_false] at *
  split_ifs at * <;> simp_all

end Arp.C01
