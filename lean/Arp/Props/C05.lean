import Arp.Lemmas.Order
/-!
# C05 — comparisons, `min` and `max` agree with the order of the real numbers
-/
namespace Arp.C05
open Arp

theorem boolToOrd_true : boolToOrd true = some .lt := rfl
theorem boolToOrd_false : boolToOrd false = some .gt := rfl

/-! ### `partial_cmp` -/

private theorem pc_inf_left {a b : Flt} (hac : a.cat = .inf) (hbn : b.cat ≠ .nan) :
    a.partialCmp b = Spec.cmp a b := by
  rw [Spec.cmp_unfold (by rw [hac]; decide) hbn, Spec.ext_inf hac]
  cases hbc : b.cat
  · rw [Spec.ext_inf hbc]
    cases hsa : a.sign <;> cases hsb : b.sign <;>
      simp [Flt.partialCmp, hac, hbc, hsa, hsb, boolToOrd]
  · exact absurd hbc hbn
  · rw [Spec.ext_fin (by rw [hbc]; decide)]
    cases hsa : a.sign <;> simp [Flt.partialCmp, hac, hbc, hsa, boolToOrd]
  · rw [Spec.ext_fin (by rw [hbc]; decide)]
    cases hsa : a.sign <;> simp [Flt.partialCmp, hac, hbc, hsa, boolToOrd]

private theorem pc_inf_right {a b : Flt} (han : a.cat ≠ .nan) (hai : a.cat ≠ .inf)
    (hbc : b.cat = .inf) : a.partialCmp b = Spec.cmp a b := by
  rw [Spec.cmp_unfold han (by rw [hbc]; decide), Spec.ext_inf hbc, Spec.ext_fin hai]
  cases hac : a.cat
  · exact absurd hac hai
  · exact absurd hac han
  · cases hsb : b.sign <;> simp [Flt.partialCmp, hac, hbc, hsb, boolToOrd]
  · cases hsb : b.sign <;> simp [Flt.partialCmp, hac, hbc, hsb, boolToOrd]

private theorem pc_normal_zero {a b : Flt} (hac : a.cat = .normal) (hbc : b.cat = .zero)
    (ha : a.Canonical) : a.partialCmp b = Spec.cmp a b := by
  rw [Spec.cmp_fin (by rw [hac]; decide) (by rw [hac]; decide) (by rw [hbc]; decide)
    (by rw [hbc]; decide), Flt.val_zero hbc, Flt.val_normal hac]
  have hp := Flt.mag_pos_of_canonical hac ha
  cases hsa : a.sign
  · have h1 : ¬ a.mag < 0 := not_lt.2 hp.le
    simp [Flt.partialCmp, hac, hbc, hsa, boolToOrd, h1, hp]
  · simp [Flt.partialCmp, hac, hbc, hsa, boolToOrd, hp]

private theorem pc_zero_normal {a b : Flt} (hac : a.cat = .zero) (hbc : b.cat = .normal)
    (hb : b.Canonical) : a.partialCmp b = Spec.cmp a b := by
  rw [Spec.cmp_fin (by rw [hac]; decide) (by rw [hac]; decide) (by rw [hbc]; decide)
    (by rw [hbc]; decide), Flt.val_zero hac, Flt.val_normal hbc]
  have hp := Flt.mag_pos_of_canonical hbc hb
  cases hsb : b.sign
  · simp [Flt.partialCmp, hac, hbc, hsb, boolToOrd, hp]
  · have h1 : ¬ b.mag < 0 := not_lt.2 hp.le
    simp [Flt.partialCmp, hac, hbc, hsb, boolToOrd, h1, hp]

/-- the model's comparison of two normal values of equal sign, as a function of the order of
    the magnitudes -/
private theorem pc_normal_normal {a b : Flt} (hF : a.sem.WF) (hs : b.sem = a.sem)
    (hac : a.cat = .normal) (hbc : b.cat = .normal) (ha : a.Canonical) (hb : b.Canonical) :
    a.partialCmp b = Spec.cmp a b := by
  rw [Spec.cmp_fin (by rw [hac]; decide) (by rw [hac]; decide) (by rw [hbc]; decide)
    (by rw [hbc]; decide), Flt.val_normal hac, Flt.val_normal hbc]
  have hpa := Flt.mag_pos_of_canonical hac ha
  have hpb := Flt.mag_pos_of_canonical hbc hb
  have hF' : b.sem.WF := by rw [hs]; exact hF
  have hlt := Flt.mag_lt_iff hF hs hac hbc ha hb
  have hgt := Flt.mag_lt_iff hF' hs.symm hbc hac hb ha
  have heq := Flt.mag_eq_iff hF hs hac hbc ha hb
  -- the model's decision for equal signs, in terms of the magnitudes
  have hd1 : ¬ a.mag < -b.mag := by linarith
  have hd2 : -b.mag < a.mag := by linarith
  have hd3 : -a.mag < b.mag := by linarith
  rcases lt_trichotomy a.exp b.exp with h | h | h
  · have h1 : a.mag < b.mag := hlt.2 (Or.inl h)
    have h2 : ¬ b.mag < a.mag := not_lt.2 h1.le
    cases hsa : a.sign <;> cases hsb : b.sign <;>
      simp [Flt.partialCmp, hac, hbc, hsa, hsb, boolToOrd, h, h1, h2, hd1, hd2, hd3]
  · rcases lt_trichotomy a.mant b.mant with h' | h' | h'
    · have h1 : a.mag < b.mag := hlt.2 (Or.inr ⟨h, h'⟩)
      have h2 : ¬ b.mag < a.mag := not_lt.2 h1.le
      have hc := Nat.compare_eq_lt.2 h'
      cases hsa : a.sign <;> cases hsb : b.sign <;>
        simp [Flt.partialCmp, hac, hbc, hsa, hsb, boolToOrd, h, hc, h1, h2, hd1, hd2, hd3]
    · have h1 : a.mag = b.mag := heq.2 ⟨h, h'⟩
      rw [h1] at hd1 hd2
      cases hsa : a.sign <;> cases hsb : b.sign <;>
        simp [Flt.partialCmp, hac, hbc, hsa, hsb, boolToOrd, h, h', h1, hd1, hd2]
    · have h1 : b.mag < a.mag := hgt.2 (Or.inr ⟨h.symm, h'⟩)
      have h2 : ¬ a.mag < b.mag := not_lt.2 h1.le
      have hc := Nat.compare_eq_gt.2 h'
      cases hsa : a.sign <;> cases hsb : b.sign <;>
        simp [Flt.partialCmp, hac, hbc, hsa, hsb, boolToOrd, h, hc, h1, h2, hd1, hd2, hd3]
  · have h1 : b.mag < a.mag := hgt.2 (Or.inl h)
    have h2 : ¬ a.mag < b.mag := not_lt.2 h1.le
    have h3 : ¬ a.exp < b.exp := not_lt.2 h.le
    cases hsa : a.sign <;> cases hsb : b.sign <;>
      simp [Flt.partialCmp, hac, hbc, hsa, hsb, boolToOrd, h, h3, h1, h2, hd1, hd2, hd3]

/-- **C05, comparison**: on canonical operands of one format, `partial_cmp` is the
    comparison of the denoted extended rationals (and `None` iff an operand is NaN). -/
theorem partialCmp_spec (a b : Flt) (hF : a.sem.WF) (hs : b.sem = a.sem)
    (ha : a.Canonical) (hb : b.Canonical) : a.partialCmp b = Spec.cmp a b := by
  by_cases han : a.cat = .nan
  · rw [Spec.cmp_nan_left han]; simp [Flt.partialCmp, han]
  by_cases hbn : b.cat = .nan
  · rw [Spec.cmp_nan_right hbn]; unfold Flt.partialCmp; cases hac : a.cat <;> simp [hbn]
  by_cases hai : a.cat = .inf
  · exact pc_inf_left hai hbn
  by_cases hbi : b.cat = .inf
  · exact pc_inf_right han hai hbi
  cases hac : a.cat <;> cases hbc : b.cat <;> try contradiction
  · exact pc_normal_normal hF hs hac hbc ha hb
  · exact pc_normal_zero hac hbc ha
  · exact pc_zero_normal hac hbc hb
  · rw [Spec.cmp_fin han hai hbn hbi, Flt.val_zero hac, Flt.val_zero hbc]
    simp [Flt.partialCmp, hac, hbc]

/-! ### The predicates `<`, `<=`, `>`, `>=`, `==` -/

section
variable (a b : Flt) (hF : a.sem.WF) (hs : b.sem = a.sem) (ha : a.Canonical) (hb : b.Canonical)
include hF hs ha hb

theorem lt_iff : a.lt b = decide (Spec.cmp a b = some .lt) := by
  unfold Flt.lt; rw [partialCmp_spec a b hF hs ha hb, beq_eq_decide]

theorem gt_iff : a.gt b = decide (Spec.cmp a b = some .gt) := by
  unfold Flt.gt; rw [partialCmp_spec a b hF hs ha hb, beq_eq_decide]

theorem le_iff : a.le b = decide (Spec.cmp a b = some .lt ∨ Spec.cmp a b = some .eq) := by
  unfold Flt.le; rw [partialCmp_spec a b hF hs ha hb, beq_eq_decide, beq_eq_decide,
    Bool.decide_or]

theorem ge_iff : a.ge b = decide (Spec.cmp a b = some .gt ∨ Spec.cmp a b = some .eq) := by
  unfold Flt.ge; rw [partialCmp_spec a b hF hs ha hb, beq_eq_decide, beq_eq_decide,
    Bool.decide_or]

end

/-- Every comparison with a NaN is false, `==` included, and `partial_cmp` is `None`
    (no canonicity or format hypothesis needed). -/
theorem nan_unordered (a b : Flt) (h : a.cat = .nan ∨ b.cat = .nan) :
    a.partialCmp b = none ∧ Spec.cmp a b = none ∧ a.lt b = false ∧ a.le b = false ∧
      a.gt b = false ∧ a.ge b = false ∧ a.beq b = false := by
  have hp : a.partialCmp b = none := by
    unfold Flt.partialCmp
    rcases h with h | h
    · simp [h]
    · cases hac : a.cat <;> simp [h]
  refine ⟨hp, Spec.cmp_none_iff.2 h, ?_, ?_, ?_, ?_, ?_⟩
  · simp [Flt.lt, hp]
  · simp [Flt.le, hp]
  · simp [Flt.gt, hp]
  · simp [Flt.ge, hp]
  · unfold Flt.beq
    rcases h with h | h
    · simp [h]
    · cases hac : a.cat <;> simp [h]

/-- `==` without the spec: it coincides with `partial_cmp = Some(Equal)` on canonical values -/
theorem beq_iff_partialCmp_eq (a b : Flt) (ha : a.Canonical) (hb : b.Canonical) :
    a.beq b = true ↔ a.partialCmp b = some .eq := by
  obtain ⟨s, sg, e, m, c⟩ := a
  obtain ⟨s', sg', e', m', c'⟩ := b
  cases c <;> cases c'
  case inf.inf =>
    have h1 := (Flt.canonical_special (x := ⟨s, sg, e, m, .inf⟩) (by simp)).1 ha
    have h2 := (Flt.canonical_special (x := ⟨s', sg', e', m', .inf⟩) (by simp)).1 hb
    simp only at h1 h2
    obtain ⟨rfl, rfl⟩ := h1
    obtain ⟨rfl, rfl⟩ := h2
    cases sg <;> cases sg' <;> simp [Flt.beq, Flt.partialCmp, boolToOrd]
  case normal.normal =>
    cases sg <;> cases sg' <;> simp [Flt.beq, Flt.partialCmp, boolToOrd]
    all_goals
      rcases lt_trichotomy e e' with h | h | h
      · simp [h, h.ne]
      · subst h
        rcases lt_trichotomy m m' with h' | h' | h'
        · simp [h'.ne, Nat.compare_eq_lt.2 h']
        · simp [h']
        · simp [h'.ne', Nat.compare_eq_gt.2 h']
      · simp [h.ne', not_lt.2 h.le, h]
  all_goals cases sg <;> cases sg' <;> simp [Flt.beq, Flt.partialCmp, boolToOrd]

/-- `==` holds exactly when the denoted values are equal (and none is NaN). -/
theorem eq_iff_cmp_eq (a b : Flt) (hF : a.sem.WF) (hs : b.sem = a.sem) (ha : a.Canonical)
    (hb : b.Canonical) : a.beq b = true ↔ Spec.cmp a b = some .eq := by
  rw [beq_iff_partialCmp_eq a b ha hb, partialCmp_spec a b hF hs ha hb]

/-- `+0` and `-0` (any two zeros) compare equal. -/
theorem zero_eq_negzero (a b : Flt) (ha : a.cat = .zero) (hb : b.cat = .zero) :
    a.beq b = true ∧ a.partialCmp b = some .eq ∧ Spec.cmp a b = some .eq ∧
      a.lt b = false ∧ a.gt b = false ∧ a.le b = true ∧ a.ge b = true := by
  have hp : a.partialCmp b = some .eq := by simp [Flt.partialCmp, ha, hb]
  refine ⟨by simp [Flt.beq, ha, hb], hp, ?_, ?_, ?_, ?_, ?_⟩
  · rw [Spec.cmp_fin (by rw [ha]; decide) (by rw [ha]; decide) (by rw [hb]; decide)
      (by rw [hb]; decide), Flt.val_zero ha, Flt.val_zero hb]
    simp
  · simp [Flt.lt, hp]
  · simp [Flt.gt, hp]
  · simp [Flt.le, hp]
  · simp [Flt.ge, hp]

/-! ### Order properties, inherited from the linear order on the key `ℤ ×ₗ ℚ` -/

/-- antisymmetry of the specification's comparison (no hypotheses) -/
theorem spec_cmp_antisymm (a b : Flt) : Spec.cmp a b = some .lt ↔ Spec.cmp b a = some .gt := by
  rw [Spec.cmp_lt_iff, Spec.cmp_gt_iff]; tauto

theorem spec_cmp_eq_comm (a b : Flt) : Spec.cmp a b = some .eq ↔ Spec.cmp b a = some .eq := by
  rw [Spec.cmp_eq_iff, Spec.cmp_eq_iff]; constructor <;> rintro ⟨h1, h2, h3⟩ <;> exact ⟨h2, h1, h3.symm⟩

section
variable (a b : Flt) (hF : a.sem.WF) (hs : b.sem = a.sem) (ha : a.Canonical) (hb : b.Canonical)
include hF hs ha hb

/-- antisymmetry of the model's comparison -/
theorem cmp_antisymm : a.partialCmp b = some .lt ↔ b.partialCmp a = some .gt := by
  rw [partialCmp_spec a b hF hs ha hb, partialCmp_spec b a (by rw [hs]; exact hF) hs.symm hb ha]
  exact spec_cmp_antisymm a b

theorem lt_iff_gt : a.lt b = b.gt a := by
  rw [lt_iff a b hF hs ha hb, gt_iff b a (by rw [hs]; exact hF) hs.symm hb ha]
  exact decide_eq_decide.2 (spec_cmp_antisymm a b)

theorem lt_iff_key : a.lt b = true ↔ (a.cat ≠ .nan ∧ b.cat ≠ .nan ∧ Spec.key a < Spec.key b) := by
  rw [lt_iff a b hF hs ha hb, decide_eq_true_iff, Spec.cmp_lt_iff]

theorem le_iff_key : a.le b = true ↔ (a.cat ≠ .nan ∧ b.cat ≠ .nan ∧ Spec.key a ≤ Spec.key b) := by
  rw [le_iff a b hF hs ha hb, decide_eq_true_iff, Spec.cmp_le_iff]

/-- non-NaN values are totally ordered by `<=` -/
theorem le_total (han : a.cat ≠ .nan) (hbn : b.cat ≠ .nan) : a.le b = true ∨ b.le a = true := by
  rw [le_iff_key a b hF hs ha hb, le_iff_key b a (by rw [hs]; exact hF) hs.symm hb ha]
  rcases _root_.le_total (Spec.key a) (Spec.key b) with h | h
  · exact Or.inl ⟨han, hbn, h⟩
  · exact Or.inr ⟨hbn, han, h⟩

/-- `a < b` excludes `b <= a` -/
theorem lt_iff_not_ge (han : a.cat ≠ .nan) (hbn : b.cat ≠ .nan) :
    a.lt b = true ↔ b.le a = false := by
  rw [← Bool.not_eq_true, lt_iff_key a b hF hs ha hb,
    le_iff_key b a (by rw [hs]; exact hF) hs.symm hb ha]
  constructor
  · rintro ⟨_, _, h⟩ ⟨_, _, h'⟩; exact absurd h (not_lt.2 h')
  · intro h; exact ⟨han, hbn, not_le.1 fun h' => h ⟨hbn, han, h'⟩⟩

end

theorem lt_irrefl (a : Flt) (hF : a.sem.WF) (ha : a.Canonical) : a.lt a = false := by
  rw [← Bool.not_eq_true, lt_iff_key a a hF rfl ha ha]
  rintro ⟨_, _, h⟩; exact absurd h (_root_.lt_irrefl _)

theorem le_refl (a : Flt) (hF : a.sem.WF) (ha : a.Canonical) (han : a.cat ≠ .nan) :
    a.le a = true := by
  rw [le_iff_key a a hF rfl ha ha]; exact ⟨han, han, _root_.le_refl _⟩

section
variable (a b c : Flt) (hF : a.sem.WF) (hsb : b.sem = a.sem) (hsc : c.sem = a.sem)
  (ha : a.Canonical) (hb : b.Canonical) (hc : c.Canonical)
include hF hsb hsc ha hb hc

/-- transitivity of `<` (the operands are non-NaN because the comparisons are true) -/
theorem lt_trans (h1 : a.lt b = true) (h2 : b.lt c = true) : a.lt c = true := by
  rw [lt_iff_key a b hF hsb ha hb] at h1
  rw [lt_iff_key b c (by rw [hsb]; exact hF) (by rw [hsb, hsc]) hb hc] at h2
  rw [lt_iff_key a c hF hsc ha hc]
  exact ⟨h1.1, h2.2.1, _root_.lt_trans h1.2.2 h2.2.2⟩

/-- transitivity of `<=` -/
theorem le_trans (h1 : a.le b = true) (h2 : b.le c = true) : a.le c = true := by
  rw [le_iff_key a b hF hsb ha hb] at h1
  rw [le_iff_key b c (by rw [hsb]; exact hF) (by rw [hsb, hsc]) hb hc] at h2
  rw [le_iff_key a c hF hsc ha hc]
  exact ⟨h1.1, h2.2.1, _root_.le_trans h1.2.2 h2.2.2⟩

theorem lt_of_lt_of_le (h1 : a.lt b = true) (h2 : b.le c = true) : a.lt c = true := by
  rw [lt_iff_key a b hF hsb ha hb] at h1
  rw [le_iff_key b c (by rw [hsb]; exact hF) (by rw [hsb, hsc]) hb hc] at h2
  rw [lt_iff_key a c hF hsc ha hc]
  exact ⟨h1.1, h2.2.1, _root_.lt_of_lt_of_le h1.2.2 h2.2.2⟩

theorem lt_of_le_of_lt (h1 : a.le b = true) (h2 : b.lt c = true) : a.lt c = true := by
  rw [le_iff_key a b hF hsb ha hb] at h1
  rw [lt_iff_key b c (by rw [hsb]; exact hF) (by rw [hsb, hsc]) hb hc] at h2
  rw [lt_iff_key a c hF hsc ha hc]
  exact ⟨h1.1, h2.2.1, _root_.lt_of_le_of_lt h1.2.2 h2.2.2⟩

end

/-! ### `min` and `max` -/

/-- canonical values of one format and one sign that compare `==` are the same datum -/
theorem eq_of_beq {a b : Flt} (hs : b.sem = a.sem) (ha : a.Canonical) (hb : b.Canonical)
    (hsg : a.sign = b.sign) (h : a.beq b = true) : a = b := by
  obtain ⟨s, sg, e, m, c⟩ := a
  obtain ⟨s', sg', e', m', c'⟩ := b
  simp only at hs hsg
  subst hs hsg
  cases c
  case nan => simp [Flt.beq] at h
  case inf =>
    simp only [Flt.beq, beq_self_eq_true, Bool.true_and, Bool.and_eq_true, beq_iff_eq] at h
    obtain ⟨⟨rfl, rfl⟩, rfl⟩ := h; rfl
  case normal =>
    simp only [Flt.beq, beq_self_eq_true, Bool.true_and, Bool.and_eq_true, beq_iff_eq] at h
    obtain ⟨⟨rfl, rfl⟩, rfl⟩ := h; rfl
  case zero =>
    simp only [Flt.beq, beq_iff_eq] at h
    subst h
    have h1 := (Flt.canonical_special (x := ⟨s', sg, e, m, .zero⟩) (by simp)).1 ha
    have h2 := (Flt.canonical_special (x := ⟨s', sg, e', m', .zero⟩) (by simp)).1 hb
    simp only at h1 h2
    obtain ⟨rfl, rfl⟩ := h1
    obtain ⟨rfl, rfl⟩ := h2
    rfl

/-- the three possible results of comparing non-NaN values -/
theorem cmp_cases {a b : Flt} (ha : a.cat ≠ .nan) (hb : b.cat ≠ .nan) :
    Spec.cmp a b = some .lt ∨ Spec.cmp a b = some .eq ∨ Spec.cmp a b = some .gt := by
  rw [Spec.cmp_of_not_nan ha hb]; split_ifs <;> simp

/-- a value with clear sign bit is never below one with set sign bit -/
theorem not_lt_of_signs {a b : Flt} (hsa : a.sign = false) (hsb : b.sign = true) :
    Spec.cmp a b ≠ some .lt := by
  intro h
  rw [Spec.cmp_lt_iff] at h
  exact absurd h.2.2 (not_lt.2 (_root_.le_trans (Spec.key_nonpos hsb) (Spec.key_nonneg hsa)))

theorem not_gt_of_signs {a b : Flt} (hsa : a.sign = true) (hsb : b.sign = false) :
    Spec.cmp a b ≠ some .gt := by
  intro h
  rw [Spec.cmp_gt_iff] at h
  exact absurd h.2.2 (not_lt.2 (_root_.le_trans (Spec.key_nonpos hsa) (Spec.key_nonneg hsb)))

/-- **C05, `min`**: the smaller operand; the other operand if one is NaN; `-0` below `+0`. -/
theorem min_spec (a b : Flt) (hF : a.sem.WF) (hs : b.sem = a.sem) (ha : a.Canonical)
    (hb : b.Canonical) : a.min b = Spec.min a b := by
  unfold Flt.min Spec.min Flt.isNan Spec.isNan
  by_cases han : a.cat = .nan
  · simp [han]
  by_cases hbn : b.cat = .nan
  · simp [hbn]
  have hna : (a.cat == Cat.nan) = false := by simp [han]
  have hnb : (b.cat == Cat.nan) = false := by simp [hbn]
  rw [gt_iff a b hF hs ha hb]
  simp only [hna, hnb, Bool.false_eq_true, if_false]
  rcases cmp_cases han hbn with h | h | h
  · rw [h]
    cases hsa : a.sign <;> cases hsb : b.sign <;> simp
    exact absurd h (not_lt_of_signs hsa hsb)
  · rw [h]
    cases hsa : a.sign <;> cases hsb : b.sign <;> simp
    exact eq_of_beq hs ha hb (by rw [hsa, hsb]) ((eq_iff_cmp_eq a b hF hs ha hb).2 h)
  · rw [h]
    cases hsa : a.sign <;> cases hsb : b.sign <;> simp
    exact absurd h (not_gt_of_signs hsa hsb)

/-- **C05, `max`**: the larger operand; the other operand if one is NaN; `+0` above `-0`. -/
theorem max_spec (a b : Flt) (hF : a.sem.WF) (hs : b.sem = a.sem) (ha : a.Canonical)
    (hb : b.Canonical) : a.max b = Spec.max a b := by
  unfold Flt.max Spec.max Flt.isNan Spec.isNan
  by_cases han : a.cat = .nan
  · simp [han]
  by_cases hbn : b.cat = .nan
  · simp [hbn]
  have hna : (a.cat == Cat.nan) = false := by simp [han]
  have hnb : (b.cat == Cat.nan) = false := by simp [hbn]
  rw [gt_iff a b hF hs ha hb]
  simp only [hna, hnb, Bool.false_eq_true, if_false]
  rcases cmp_cases han hbn with h | h | h
  · rw [h]
    cases hsa : a.sign <;> cases hsb : b.sign <;> simp
    exact absurd h (not_lt_of_signs hsa hsb)
  · rw [h]
    cases hsa : a.sign <;> cases hsb : b.sign <;> simp
    exact (eq_of_beq hs ha hb (by rw [hsa, hsb]) ((eq_iff_cmp_eq a b hF hs ha hb).2 h)).symm
  · rw [h]
    cases hsa : a.sign <;> cases hsb : b.sign <;> simp
    exact absurd h (not_gt_of_signs hsa hsb)

/-! ### The hypotheses are satisfiable: concrete FP16 values -/

/-- smallest positive subnormal of FP16, `2^-24` -/
def exSub : Flt := ⟨FP16, false, -14, 1, .normal⟩
/-- `1.0` in FP16 (a normal number) -/
def exOne : Flt := ⟨FP16, false, 0, 1024, .normal⟩

theorem exSub_wf : exSub.sem.WF := by unfold Sem.WF; decide
theorem exSub_canonical : exSub.Canonical := by unfold Flt.Canonical; decide
theorem exOne_canonical : exOne.Canonical := by unfold Flt.Canonical; decide

/-- `partialCmp_spec` instantiated: the model says `2^-24 < 1.0`, hence so does the spec. -/
example : exSub.partialCmp exOne = some .lt ∧ Spec.cmp exSub exOne = some .lt := by
  have h := partialCmp_spec exSub exOne exSub_wf rfl exSub_canonical exOne_canonical
  have h' : exSub.partialCmp exOne = some .lt := by decide
  exact ⟨h', h ▸ h'⟩

/-- `min_spec` / `max_spec` instantiated -/
example : Spec.min exSub exOne = exSub ∧ Spec.max exSub exOne = exOne := by
  rw [← min_spec exSub exOne exSub_wf rfl exSub_canonical exOne_canonical,
    ← max_spec exSub exOne exSub_wf rfl exSub_canonical exOne_canonical]
  exact ⟨by decide, by decide⟩

/-- `-0 == +0`, yet `min` returns `-0` and `max` returns `+0`, in either argument order -/
example : (Flt.zero FP16 true).beq (Flt.zero FP16 false) = true
    ∧ (Flt.zero FP16 true).min (Flt.zero FP16 false) = Flt.zero FP16 true
    ∧ (Flt.zero FP16 false).min (Flt.zero FP16 true) = Flt.zero FP16 true
    ∧ (Flt.zero FP16 true).max (Flt.zero FP16 false) = Flt.zero FP16 false
    ∧ (Flt.zero FP16 false).max (Flt.zero FP16 true) = Flt.zero FP16 false := by decide

/-- The canonicity hypothesis cannot be dropped: `1·2^(1-10)` and `2·2^(0-10)` denote the same
    number, the first datum is not canonical, and the model orders them by exponent. -/
example : (⟨FP16, false, 1, 1, .normal⟩ : Flt).partialCmp ⟨FP16, false, 0, 2, .normal⟩ = some .gt
    ∧ Spec.cmp ⟨FP16, false, 1, 1, .normal⟩ ⟨FP16, false, 0, 2, .normal⟩ = some .eq := by
  refine ⟨by decide, ?_⟩
  rw [Spec.cmp_fin (by decide) (by decide) (by decide) (by decide),
    Flt.val_normal rfl, Flt.val_normal rfl, Flt.mag_eq, Flt.mag_eq]
  norm_num [FP16]

end Arp.C05
