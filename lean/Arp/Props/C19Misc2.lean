import Arp.Props.C19Misc
/-!
# Error kinds of `try_from_str`, continued: an *exponent* error needs an `e`/`E` in the text
-/
namespace Arp.C19

theorem splitOnce_some_mem (p : Nat → Bool) (l a r : List Nat) (h : splitOnce p l = some (a, r)) :
    (∃ b ∈ l, p b = true) ∧ (∀ x ∈ r, x ∈ l) := by
  induction l generalizing a with
  | nil => simp [splitOnce] at h
  | cons c t ih =>
    unfold splitOnce at h
    split at h
    · rename_i hc
      simp only [Option.some.injEq, Prod.mk.injEq] at h
      obtain ⟨_, rfl⟩ := h
      exact ⟨⟨c, List.mem_cons_self, hc⟩, fun x hx => List.mem_cons_of_mem _ hx⟩
    · cases hs : splitOnce p t with
      | none => simp [hs] at h
      | some lr =>
        obtain ⟨l1, r1⟩ := lr
        simp only [hs, Option.map_some, Option.some.injEq, Prod.mk.injEq] at h
        obtain ⟨_, rfl⟩ := h
        obtain ⟨⟨b, hb, hpb⟩, hsub⟩ := ih l1 hs
        exact ⟨⟨b, List.mem_cons_of_mem _ hb, hpb⟩, fun x hx => List.mem_cons_of_mem _ (hsub x hx)⟩

theorem parseWithExp_exponent_has_e (v : List Nat) (h : parseWithExp v = .error .exponent) :
    ∃ b ∈ v, (b == 101 || b == 69) = true := by
  unfold parseWithExp at h
  simp only at h
  cases hs : splitOnce (fun b => b == 101 || b == 69) v with
  | some lr => exact (splitOnce_some_mem _ v lr.1 lr.2 (by simpa using hs)).1
  | none =>
    exfalso
    rw [hs] at h
    simp only at h
    repeat' (split at h)
    all_goals (cases h)

/-- `ParseErrorKind::ExponentParseFailed` is only ever reported for a text that contains `e` or `E` -/
theorem parse_exponent_error_has_e (v : List Nat) (F : Sem) (h : tryFromStr v F = .error .exponent) :
    ∃ b ∈ v, (b == 101 || b == 69) = true := by
  cases v with
  | nil => simp [tryFromStr] at h
  | cons c r =>
    unfold tryFromStr at h
    simp only at h
    repeat' (split at h)
    all_goals (cases h)
    all_goals (
      obtain ⟨b, hb, hp⟩ := parseWithExp_exponent_has_e _ ‹parseWithExp _ = _›
      first
        | exact ⟨b, hb, hp⟩
        | exact ⟨b, List.mem_cons_of_mem _ hb, hp⟩
        | exact ⟨b, (splitOnce_some_mem _ _ _ _ ‹splitOnce _ _ = some _›).2 b hb, hp⟩
        | exact ⟨b, List.mem_cons_of_mem _ ((splitOnce_some_mem _ _ _ _ ‹splitOnce _ _ = some _›).2 b hb), hp⟩)

/-- non-vacuity: `"1e"` is such a text (the inner parser reports the exponent) -/
example : parseWithExp [49, 101] = .error .exponent := by rfl

end Arp.C19
