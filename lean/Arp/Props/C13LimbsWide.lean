import Arp.Props.C13Limbs
import Arp.Props.C09Wide
/-!
# C13 ↔ C09 (wide) — the limb-level `to_digits::<10>` prints the digits of the display model for
# every integer below `2^6677440` (104 335 words)

Same statements as `Arp/Props/C13Limbs.lean` with the bound 5000 replaced by 104 335 words, which
covers every integer a format with up to 23 exponent bits can hold.
-/
namespace Arp.C13
open Arp

/-- **C13 ↔ C09.**  On every well-formed limb list of at most 104 335 words the limb-level
    `to_digits::<10>` returns exactly the digit list used by the display model. -/
theorem limbs_toDigits_eq_decDigits_wide {l : List Nat} (hl : Limbs.WF l)
    (hlen : l.length ≤ 104335) : Limbs.toDigits 10 l = decDigits (Limbs.val l) := by
  rw [C09.toDigits_ten_val_wide hl hlen, decDigits_eq_digits_reverse]

/-- … and it does so without hitting the `num_digits - k` underflow (no panic) -/
theorem limbs_toDigits_ok_wide {l : List Nat} (hl : Limbs.WF l) (hlen : l.length ≤ 104335) :
    Limbs.toDigitsOk 10 l = true := C09.toDigitsOk_ten_wide hl hlen

/-- Every integer of up to 6 677 440 bits is the value of a well-formed limb list of 104 335 words,
    and on EVERY well-formed representation of it of at most 104 335 words the limb algorithm
    prints the digits of the display model. -/
theorem digits_of_bounded_wide (n : Nat) (hn : n < 2 ^ 6677440) :
    (∃ l, Limbs.WF l ∧ l.length ≤ 104335 ∧ Limbs.val l = n) ∧
    (∀ l, Limbs.WF l → l.length ≤ 104335 → Limbs.val l = n →
      Limbs.toDigits 10 l = decDigits n ∧ Limbs.toDigitsOk 10 l = true) := by
  refine ⟨⟨limbsOfNat 104335 n, limbsOfNat_WF _ _, by rw [limbsOfNat_length], ?_⟩, ?_⟩
  · have hB : Limbs.B ^ 104335 = 2 ^ 6677440 := by rw [Limbs.B_pow, ← pow_mul]
    rw [limbsOfNat_val, hB]
    exact Nat.mod_eq_of_lt hn
  · intro l hl hlen hv
    exact ⟨hv ▸ limbs_toDigits_eq_decDigits_wide hl hlen, limbs_toDigits_ok_wide hl hlen⟩

/-- in particular for every integer `Display` can be asked to print by a format with 21 exponent
    bits (`< 2^(2^20 + 64)`: at most 16 385 words) -/
theorem digits_of_bounded_e21 (n : Nat) (hn : n < 2 ^ (2 ^ 20 + 64)) :
    (∃ l, Limbs.WF l ∧ l.length ≤ 16385 ∧ Limbs.val l = n) ∧
    (∀ l, Limbs.WF l → l.length ≤ 104335 → Limbs.val l = n →
      Limbs.toDigits 10 l = decDigits n ∧ Limbs.toDigitsOk 10 l = true) := by
  refine ⟨⟨limbsOfNat 16385 n, limbsOfNat_WF _ _, by rw [limbsOfNat_length], ?_⟩, ?_⟩
  · have he : 64 * 16385 = 2 ^ 20 + 64 := by norm_num
    have hB : Limbs.B ^ 16385 = 2 ^ (2 ^ 20 + 64) := by
      rw [Limbs.B_pow, ← pow_mul, he]
    rw [limbsOfNat_val, hB]
    exact Nat.mod_eq_of_lt hn
  · intro l hl hlen hv
    exact ⟨hv ▸ limbs_toDigits_eq_decDigits_wide hl hlen, limbs_toDigits_ok_wide hl hlen⟩

/-- The byte string of digits built by `convert_normal_to_string` (`digits`, before padding and the
    decimal point), computed from ANY limb representation `l` (≤ 104 335 words) of the reduced
    integer. -/
theorem display_digits_from_limbs_wide (x : Flt) (l : List Nat) (hl : Limbs.WF l)
    (hlen : l.length ≤ 104335)
    (hv : Limbs.val l
      = (reducePrinted x.sem.p x.convertToInteger.1 x.convertToInteger.2).1) :
    (Limbs.toDigits 10 l).map (· + 48)
      = (decDigits (reducePrinted x.sem.p x.convertToInteger.1 x.convertToInteger.2).1).map
          (· + 48) := by
  rw [limbs_toDigits_eq_decDigits_wide hl hlen, hv]

/-! ### a failing number of 117 618 words

`234·10^2266014` has 117 618 words; the chain of high halves has the word counts
117618, 68779, 40221, 23521, 13755, 8045, 4705, 2753, 1611, 943, 553, 324, 191, 113, 67, 40, 25,
15, 10, 7, 6 and the last split (`k = 32`) finds only 26 digits left of the budget. -/

theorem lt_117618 : 234 * 10 ^ 2266014 < Limbs.B ^ 117618 := by decide +kernel

theorem underflowCert_117618 :
    Limbs.underflowCert (234 * 10 ^ 2266014) 0 (117618 * 64 * 59 / 196)
      [117618, 68779, 40221, 23521, 13755, 8045, 4705, 2753, 1611, 943, 553, 324, 191, 113, 67,
        40, 25, 15, 10, 7, 6] = true := by decide +kernel

/-- FINDING (model level): `to_digits::<10>` underflows `num_digits - k` on the 117 618-word limb
    representation of `234·10^2266014`; the bound of `limbs_toDigits_ok_wide` cannot be raised to
    117 618 words. -/
theorem limbs_toDigits_fails_117618 :
    Limbs.toDigitsOk 10 (limbsOfNat 117618 (234 * 10 ^ 2266014)) = false := by
  apply Limbs.toDigitsOk_ten_false (limbsOfNat_WF _ _)
    (by rw [limbsOfNat_length]; norm_num) 117618 _
  rw [limbsOfNat_val, Nat.mod_eq_of_lt lt_117618]
  exact underflowCert_117618

end Arp.C13
