import Arp.Props.C16
import Arp.Props.C16Exp
import Arp.Props.C16Log
import Arp.Props.C16Sigmoid
import Arp.Props.FuelWide
/-! # C16 — every theorem of the property (special operands, `exp` accuracy incl. the overflow / underflow clause, `log` accuracy) -/
