import Arp.Lemmas.Bits
/-!
# C07 — IEEE-754 interchange encoding (`from_bits`, `as_native_float`, `from_f32/f64`, `as_f32/f64`)

All statements are generic in the format `F` (`F.WF`: at least two exponent and two
significand bits).  A word of the format has `F.e + F.p` bits:
`sign (1) | biased exponent (F.e) | fraction (F.p - 1)`.
`bSign`, `bBiased`, `bFrac` (Arp/Lemmas/Bits.lean) are the arithmetic field functions,
`packBits` the arithmetic packing.
-/
namespace Arp.C07
open Arp

theorem FP16_WF : FP16.WF := ⟨by decide, by decide⟩
theorem FP32_WF : FP32.WF := ⟨by decide, by decide⟩
theorem FP64_WF : FP64.WF := ⟨by decide, by decide⟩

/-! ## 0. Bit-field algebra -/

/-- Extraction: a word of `E + M + 1` bits is `sign·2^(E+M) + biased·2^M + frac` with the
    fields in range, and the shift/mask expressions of `from_bits` compute those fields. -/
theorem bitfield_extract (E M b : Nat) (hb : b < 2 ^ (E + M + 1)) :
    ∃ sign biased frac : Nat, sign < 2 ∧ biased < 2 ^ E ∧ frac < 2 ^ M
      ∧ b = sign * 2 ^ (E + M) + biased * 2 ^ M + frac
      ∧ (b >>> M) &&& maskBits E = biased
      ∧ (b >>> (E + M)) &&& 1 = sign
      ∧ b &&& maskBits M = frac := by
  obtain ⟨h, hs, hbi, hfr⟩ := bits_decompose_lt E M b hb
  exact ⟨_, _, _, hs, hbi, hfr, h, shr_and_maskBits b M E, shr_and_one b (E + M), and_maskBits b M⟩

/-- The decomposition is unique: the fields of a packed word are the packed fields. -/
theorem bitfield_unique (E M sign biased frac : Nat) (hs : sign < 2) (hbi : biased < 2 ^ E)
    (hfr : frac < 2 ^ M) :
    let b := sign * 2 ^ (E + M) + biased * 2 ^ M + frac
    b < 2 ^ (E + M + 1)
      ∧ (b >>> M) &&& maskBits E = biased
      ∧ (b >>> (E + M)) &&& 1 = sign
      ∧ b &&& maskBits M = frac := by
  intro b
  refine ⟨encode_lt E M sign biased frac hs hbi hfr, ?_, ?_, ?_⟩
  · rw [shr_and_maskBits]; exact field_biased E M sign biased frac hbi hfr
  · rw [shr_and_one]; exact field_sign E M sign biased frac hs hbi hfr
  · rw [and_maskBits]; exact field_frac E M sign biased frac hfr

/-- Packing: the shift/or expression of `as_native_float` is that sum. -/
theorem bitfield_pack (E M sign biased frac : Nat) (hbi : biased < 2 ^ E) (hfr : frac < 2 ^ M) :
    ((sign <<< E ||| biased) <<< M) ||| frac = sign * 2 ^ (E + M) + biased * 2 ^ M + frac :=
  encode_eq E M sign biased frac hbi hfr

/-- FP32: `0xbf800000` = sign 1, biased exponent 127, fraction 0. -/
example : ∃ s bi fr : Nat, s < 2 ∧ bi < 2 ^ 8 ∧ fr < 2 ^ 23
    ∧ 0xbf800000 = s * 2 ^ (8 + 23) + bi * 2 ^ 23 + fr
    ∧ (0xbf800000 >>> 23) &&& maskBits 8 = bi ∧ (0xbf800000 >>> (8 + 23)) &&& 1 = s
    ∧ 0xbf800000 &&& maskBits 23 = fr :=
  bitfield_extract 8 23 0xbf800000 (by norm_num)

example : ((1 <<< 8 ||| 127) <<< 23) ||| 0 = 0xbf800000 := by decide

/-! ## 1. `from_bits` produces canonical values of the requested format -/

theorem two_pow_p (F : Sem) (hp : 1 ≤ F.p) : 2 ^ F.p = 2 * 2 ^ (F.p - 1) := by
  rw [← Nat.pow_succ']; congr 1; omega

theorem special_canonical (F : Sem) (sg : Bool) :
    (Flt.inf F sg).Canonical ∧ (Flt.nan F sg).Canonical ∧ (Flt.zero F sg).Canonical := by
  refine ⟨?_, ?_, ?_⟩ <;> simp [Flt.Canonical, Flt.isCanonical, Flt.inf, Flt.nan, Flt.zero]

theorem fromBits_sem (F : Sem) (b : Nat) : (fromBits F b).sem = F := by
  rw [fromBits_eq]
  unfold Flt.new
  split_ifs <;> rfl

theorem fromBits_sign (F : Sem) (b : Nat) : (fromBits F b).sign = bSign F b := by
  rw [fromBits_eq]
  unfold Flt.new
  split_ifs <;> rfl

theorem fromBits_canonical (F : Sem) (b : Nat) (hF : F.WF) :
    (fromBits F b).Canonical ∧ (fromBits F b).sem = F := by
  refine ⟨?_, fromBits_sem F b⟩
  have hbi := bBiased_lt F b
  have hfr := bFrac_lt F b
  have hpp := two_pow_p F (by have := hF.2; omega)
  have hmm := Sem.emin_le_emax hF
  have hpos : 0 < 2 ^ (F.p - 1) := Nat.two_pow_pos _
  rw [fromBits_eq]
  generalize bBiased F b = bi at *
  generalize bFrac F b = fr at *
  generalize bSign F b = sg at *
  split_ifs with h1 h2 h3
  · exact (special_canonical F sg).1
  · exact (special_canonical F sg).2.1
  · rw [Bits.new_of_ne (by omega)]
    rw [Flt.canonical_normal rfl]
    simp only
    refine ⟨?_, ?_, by omega, by omega, Or.inl (by omega)⟩
    · unfold Sem.emin; omega
    · unfold Sem.emax
      generalize 2 ^ F.e = t at *
      omega
  · by_cases h0 : fr = 0
    · subst h0; rw [Bits.new_zero]; exact (special_canonical F sg).2.2
    · rw [Bits.new_of_ne h0, Flt.canonical_normal rfl]
      simp only
      exact ⟨le_refl _, hmm, by omega, by omega, Or.inr trivial⟩

/-- `0x3f800000` (1.0f) decodes to a canonical FP32 value -/
example : (fromBits FP32 0x3f800000).Canonical ∧ (fromBits FP32 0x3f800000).sem = FP32 :=
  fromBits_canonical FP32 _ FP32_WF

example : fromF32 0x3f800000 = ⟨FP32, false, 0, 2 ^ 23, .normal⟩ := by decide
example : fromF32 1 = ⟨FP32, false, -126, 1, .normal⟩ := by decide
example : fromF32 0x80000000 = Flt.zero FP32 true := by decide
example : fromF32 0xff800000 = Flt.inf FP32 true := by decide
example : (fromF32 0x7fc00001).cat = .nan := by decide

/-! ## 3. store ∘ load = id on bit patterns -/

theorem asBits_fromBits (F : Sem) (b : Nat) (hF : F.WF) (hp : F.p ≤ 64)
    (hb : b < 2 ^ (F.e + F.p)) (hnn : (fromBits F b).cat ≠ .nan) :
    (fromBits F b).asNativeFloat = b := by
  have hp1 : 1 ≤ F.p := by have := hF.2; omega
  refine Eq.trans ?_ (pack_fields F b hp1 hb)
  have hbi := bBiased_lt F b
  have hfr := bFrac_lt F b
  have hpp := two_pow_p F hp1
  have hpos : 0 < 2 ^ (F.p - 1) := Nat.two_pow_pos _
  rw [fromBits_eq] at hnn ⊢
  generalize bBiased F b = bi at *
  generalize bFrac F b = fr at *
  generalize bSign F b = sg at *
  split_ifs at hnn ⊢ with h1 h2 h3
  · rw [asNative_inf, h1, h2]
  · exact absurd rfl hnn
  · rw [Bits.new_of_ne (by omega)]
    rw [asNative_normal _ rfl hp (by simp only; omega) (by simp only; omega)]
    simp only
    have e1 : ((bi : Int) - F.bias + F.bias).toNat = bi := by omega
    have e2 : (fr + 2 ^ (F.p - 1)) / 2 ^ (F.p - 1) = 1 := by
      rw [Nat.add_div_right _ hpos, Nat.div_eq_of_lt hfr]
    have e3 : (fr + 2 ^ (F.p - 1)) % 2 ^ (F.p - 1) = fr := by
      rw [Nat.add_mod_right, Nat.mod_eq_of_lt hfr]
    rw [e1, e2, e3, if_neg (by omega)]
  · have hb0 : bi = 0 := by omega
    subst hb0
    by_cases h0 : fr = 0
    · subst h0; rw [Bits.new_zero, asNative_zero]
    · rw [Bits.new_of_ne h0]
      have e1 : (F.emin + F.bias).toNat = 1 := by unfold Sem.emin; omega
      rw [asNative_normal _ rfl hp (by simp only; omega)
        (by simp only; rw [e1]; exact Nat.one_lt_two_pow (by have := hF.1; omega))]
      simp only
      rw [e1, Nat.div_eq_of_lt hfr, Nat.mod_eq_of_lt hfr, if_pos ⟨rfl, rfl⟩]

example : (fromBits FP32 0x3f800000).asNativeFloat = 0x3f800000 :=
  asBits_fromBits FP32 _ FP32_WF (by decide) (by decide) (by decide)
example : (fromBits FP16 0x8001).asNativeFloat = 0x8001 := by decide

/-- `from_bits` of a packed word, by fields -/
theorem fromBits_pack (F : Sem) (sg : Bool) (bi fr : Nat) (hbi : bi < 2 ^ F.e)
    (hfr : fr < 2 ^ (F.p - 1)) :
    fromBits F (packBits F sg bi fr) =
      if bi = 2 ^ F.e - 1 then (if fr = 0 then Flt.inf F sg else Flt.nan F sg)
      else if bi ≠ 0 then Flt.new F sg ((bi : Int) - F.bias) (fr + 2 ^ (F.p - 1))
      else Flt.new F sg F.emin fr := by
  rw [fromBits_eq, bBiased_pack F sg bi fr hbi hfr, bFrac_pack F sg bi fr hfr,
    bSign_pack F sg bi fr hbi hfr]

/-- A NaN pattern decodes to the (payload-free) NaN of the model with the sign bit kept. -/
theorem fromBits_nan (F : Sem) (b : Nat) (hn : (fromBits F b).cat = .nan) :
    fromBits F b = Flt.nan F (bSign F b) ∧ bBiased F b = 2 ^ F.e - 1 ∧ bFrac F b ≠ 0 := by
  rw [fromBits_eq] at hn ⊢
  unfold Flt.new at hn ⊢
  split_ifs at hn ⊢ with h1 h2 <;> first | exact ⟨rfl, h1, h2⟩ | exact absurd hn (by simp [Flt.inf, Flt.zero])

/-- NaN is stored as the quiet NaN `0 | 1…1 | 10…0` with the sign bit kept
    (fraction `2^(P-2)`, non-zero for every well-formed format, `P = 2` included). -/
theorem asBits_nan (F : Sem) (sg : Bool) (hF : F.WF) :
    (Flt.nan F sg).asNativeFloat = packBits F sg (2 ^ F.e - 1) (2 ^ (F.p - 2))
    ∧ fromBits F (Flt.nan F sg).asNativeFloat = Flt.nan F sg := by
  have hlt : 2 ^ (F.p - 2) < 2 ^ (F.p - 1) :=
    Nat.pow_lt_pow_right (by norm_num) (by have := hF.2; omega)
  have hne : 2 ^ (F.p - 2) ≠ 0 := (Nat.two_pow_pos _).ne'
  rw [asNative_nan F sg hF.2]
  refine ⟨rfl, ?_⟩
  rw [fromBits_pack F sg _ _ (pred_two_pow_lt _) hlt, if_pos rfl, if_neg hne]

/-- Load/store of a NaN pattern: the stored word is again a NaN pattern with the same sign bit;
    after a second load the same model value is obtained. -/
theorem asBits_fromBits_nan (F : Sem) (b : Nat) (hF : F.WF) (hn : (fromBits F b).cat = .nan) :
    (fromBits F b).asNativeFloat = packBits F (bSign F b) (2 ^ F.e - 1) (2 ^ (F.p - 2))
    ∧ fromBits F (fromBits F b).asNativeFloat = fromBits F b
    ∧ (fromBits F (fromBits F b).asNativeFloat).cat = .nan
    ∧ bSign F (fromBits F b).asNativeFloat = bSign F b := by
  obtain ⟨h, _, _⟩ := fromBits_nan F b hn
  have hlt : 2 ^ (F.p - 2) < 2 ^ (F.p - 1) :=
    Nat.pow_lt_pow_right (by norm_num) (by have := hF.2; omega)
  obtain ⟨h1, h2⟩ := asBits_nan F (bSign F b) hF
  rw [h]
  refine ⟨h1, h2, by rw [h2]; rfl, ?_⟩
  rw [h1, bSign_pack F _ _ _ (pred_two_pow_lt _) hlt]

example : (fromBits FP32 0xffc12345).asNativeFloat = 0xffc00000 := by decide
example : (fromBits FP32 (fromBits FP32 0xffc12345).asNativeFloat).cat = .nan :=
  (asBits_fromBits_nan FP32 _ FP32_WF (by decide)).2.2.1
/-- the smallest well-formed precision: `P = 2`, one fraction bit, NaN fraction `1` -/
example : (Flt.nan ⟨2, 2, .nte⟩ true).asNativeFloat = 0b1111 := by decide

/-! ## 4. load ∘ store = id on canonical values -/

/-- every canonical value is stored as a packed word with fields in range -/
theorem asNative_pack (x : Flt) (hF : x.sem.WF) (hp : x.sem.p ≤ 64) (hc : x.Canonical) :
    ∃ bi fr, bi < 2 ^ x.sem.e ∧ fr < 2 ^ (x.sem.p - 1)
      ∧ x.asNativeFloat = packBits x.sem x.sign bi fr := by
  obtain ⟨F, sg, ex, m, c⟩ := x
  simp only at hF hp ⊢
  have hpos : 0 < 2 ^ (F.p - 1) := Nat.two_pow_pos _
  have hposE : 0 < 2 ^ F.e := Nat.two_pow_pos _
  cases c
  · have h := (Flt.canonical_special (x := ⟨F, sg, ex, m, .inf⟩) (by simp)).mp hc
    simp only at h; obtain ⟨rfl, rfl⟩ := h
    exact ⟨_, _, pred_two_pow_lt _, hpos, asNative_inf F sg⟩
  · have h := (Flt.canonical_special (x := ⟨F, sg, ex, m, .nan⟩) (by simp)).mp hc
    simp only at h; obtain ⟨rfl, rfl⟩ := h
    exact ⟨_, _, pred_two_pow_lt _,
      Nat.pow_lt_pow_right (by norm_num) (by have := hF.2; omega), asNative_nan F sg hF.2⟩
  · obtain ⟨h1, h2, h3, h4, h5⟩ := (Flt.canonical_normal (x := ⟨F, sg, ex, m, .normal⟩) rfl).mp hc
    simp only at h1 h2 h3 h4 h5
    have he : (ex + F.bias).toNat < 2 ^ F.e := by
      unfold Sem.emax at h2; unfold Sem.emin at h1
      generalize 2 ^ F.e = t at *
      omega
    refine ⟨_, _, ?_, Nat.mod_lt _ hpos, asNative_normal ⟨F, sg, ex, m, .normal⟩ rfl hp h4 he⟩
    simp only
    split_ifs
    · exact hposE
    · exact he
  · have h := (Flt.canonical_special (x := ⟨F, sg, ex, m, .zero⟩) (by simp)).mp hc
    simp only at h; obtain ⟨rfl, rfl⟩ := h
    exact ⟨_, _, hposE, hpos, asNative_zero F sg⟩

/-- the stored word has `E + P` bits -/
theorem asNativeFloat_lt (x : Flt) (hF : x.sem.WF) (hp : x.sem.p ≤ 64) (hc : x.Canonical) :
    x.asNativeFloat < 2 ^ (x.sem.e + x.sem.p) := by
  obtain ⟨bi, fr, hbi, hfr, h⟩ := asNative_pack x hF hp hc
  rw [h]
  exact packBits_lt x.sem x.sign bi fr (by have := hF.2; omega) hbi hfr

/-- the sign bit of the stored word is the sign of the value (NaN included) -/
theorem asNativeFloat_sign (x : Flt) (hF : x.sem.WF) (hp : x.sem.p ≤ 64) (hc : x.Canonical) :
    bSign x.sem x.asNativeFloat = x.sign := by
  obtain ⟨bi, fr, hbi, hfr, h⟩ := asNative_pack x hF hp hc
  rw [h]
  exact bSign_pack x.sem x.sign bi fr hbi hfr

/-- Store then load is the identity on EVERY canonical value (the model's NaN carries no
    payload, so NaN is included). -/
theorem fromBits_asBits' (x : Flt) (hF : x.sem.WF) (hp : x.sem.p ≤ 64) (hc : x.Canonical) :
    fromBits x.sem x.asNativeFloat = x := by
  obtain ⟨F, sg, ex, m, c⟩ := x
  simp only at hF hp ⊢
  have hpos : 0 < 2 ^ (F.p - 1) := Nat.two_pow_pos _
  have hposE : 0 < 2 ^ F.e := Nat.two_pow_pos _
  have hE2 : 2 ^ 2 ≤ 2 ^ F.e := Nat.pow_le_pow_right (by norm_num) hF.1
  have hpp := two_pow_p F (by have := hF.2; omega)
  cases c
  · have h := (Flt.canonical_special (x := ⟨F, sg, ex, m, .inf⟩) (by simp)).mp hc
    simp only at h; obtain ⟨rfl, rfl⟩ := h
    change fromBits F (Flt.inf F sg).asNativeFloat = Flt.inf F sg
    rw [asNative_inf, fromBits_pack F sg _ _ (pred_two_pow_lt _) hpos, if_pos rfl, if_pos rfl]
  · have h := (Flt.canonical_special (x := ⟨F, sg, ex, m, .nan⟩) (by simp)).mp hc
    simp only at h; obtain ⟨rfl, rfl⟩ := h
    exact (asBits_nan F sg hF).2
  · obtain ⟨h1, h2, h3, h4, h5⟩ := (Flt.canonical_normal (x := ⟨F, sg, ex, m, .normal⟩) rfl).mp hc
    simp only at h1 h2 h3 h4 h5
    have he1 : 1 ≤ ex + F.bias := by unfold Sem.emin at h1; omega
    have he : (ex + F.bias).toNat < 2 ^ F.e - 1 := by
      unfold Sem.emax at h2
      generalize 2 ^ F.e = t at *
      omega
    rw [asNative_normal ⟨F, sg, ex, m, .normal⟩ rfl hp h4 (by simp only; omega)]
    simp only
    by_cases hm : m < 2 ^ (F.p - 1)
    · have hex : ex = F.emin := by rcases h5 with h5 | h5; · omega
                                   · exact h5
      have e1 : (ex + F.bias).toNat = 1 := by rw [hex]; unfold Sem.emin; omega
      rw [e1, Nat.div_eq_of_lt hm, Nat.mod_eq_of_lt hm, if_pos ⟨rfl, rfl⟩,
        fromBits_pack F sg 0 m hposE hm, if_neg (by omega), if_neg (by omega),
        Bits.new_of_ne (by omega), hex]
    · have e2 : m / 2 ^ (F.p - 1) = 1 :=
        Nat.div_eq_of_lt_le (by omega) (by omega)
      have e3 : m % 2 ^ (F.p - 1) + 2 ^ (F.p - 1) = m := by
        have := Nat.div_add_mod m (2 ^ (F.p - 1)); rw [e2] at this; omega
      have e4 : (((ex + F.bias).toNat : Nat) : Int) - F.bias = ex := by omega
      rw [e2, if_neg (by omega),
        fromBits_pack F sg _ _ (by omega) (Nat.mod_lt _ hpos), if_neg (by omega),
        if_pos (by omega), Bits.new_of_ne (by omega), e3, e4]
  · have h := (Flt.canonical_special (x := ⟨F, sg, ex, m, .zero⟩) (by simp)).mp hc
    simp only at h; obtain ⟨rfl, rfl⟩ := h
    change fromBits F (Flt.zero F sg).asNativeFloat = Flt.zero F sg
    rw [asNative_zero, fromBits_pack F sg 0 0 hposE hpos, if_neg (by omega), if_neg (by omega),
      Bits.new_zero]

theorem fromBits_asBits (x : Flt) (hF : x.sem.WF) (hp : x.sem.p ≤ 64) (hc : x.Canonical)
    (_hnn : x.cat ≠ .nan) : fromBits x.sem x.asNativeFloat = x :=
  fromBits_asBits' x hF hp hc

/-- the largest finite FP16 value, `0x7bff` -/
example : fromBits FP16 (⟨FP16, false, 15, 2047, .normal⟩ : Flt).asNativeFloat
    = ⟨FP16, false, 15, 2047, .normal⟩ :=
  fromBits_asBits ⟨FP16, false, 15, 2047, .normal⟩ FP16_WF (by decide)
    (by unfold Flt.Canonical; decide) (by decide)
example : (⟨FP16, false, 15, 2047, .normal⟩ : Flt).asNativeFloat = 0x7bff := by decide
/-- a subnormal with the minimum exponent and no integer bit is stored with biased exponent 0 -/
example : (⟨FP16, true, -14, 3, .normal⟩ : Flt).asNativeFloat = 0x8003 := by decide
/-- a NORMAL value with the minimum exponent keeps biased exponent 1 -/
example : (⟨FP16, false, -14, 1024, .normal⟩ : Flt).asNativeFloat = 0x0400 := by decide

/-- load, store, load again = load, for every word (any size, NaN patterns included) -/
theorem load_store_load (F : Sem) (b : Nat) (hF : F.WF) (hp : F.p ≤ 64) :
    fromBits F (fromBits F b).asNativeFloat = fromBits F b := by
  obtain ⟨hc, hs⟩ := fromBits_canonical F b hF
  have := fromBits_asBits' (fromBits F b) (by rw [hs]; exact hF) (by rw [hs]; exact hp) hc
  rwa [hs] at this

/-- `from_bits` is injective on non-NaN words of `E + P` bits. -/
theorem fromBits_injective (F : Sem) (a b : Nat) (hF : F.WF) (hp : F.p ≤ 64)
    (ha : a < 2 ^ (F.e + F.p)) (hb : b < 2 ^ (F.e + F.p)) (hnn : (fromBits F a).cat ≠ .nan)
    (h : fromBits F a = fromBits F b) : a = b := by
  rw [← asBits_fromBits F a hF hp ha hnn, ← asBits_fromBits F b hF hp hb (h ▸ hnn), h]

/-! ## 2. The decoded value is the IEEE-754 value of the word -/

/-- IEEE 754-2019 §3.4: with `s`, `biased`, `frac` the three fields of the word,
    * `biased = 2^E - 1`, `frac = 0`  ↦ `(-1)^s · ∞`;  `frac ≠ 0` ↦ NaN;
    * `biased = 0`                    ↦ `(-1)^s · frac · 2^(emin - (P-1))` (a signed zero if `frac = 0`);
    * otherwise                       ↦ `(-1)^s · (2^(P-1) + frac) · 2^(biased - bias - (P-1))`.
    (`Res.fin s e m` denotes `(-1)^s · m · 2^(e - (P-1))`, see `Res.val`.) -/
theorem fromBits_val (F : Sem) (b : Nat) :
    (fromBits F b).toRes =
      if bBiased F b = 2 ^ F.e - 1 then
        (if bFrac F b = 0 then Res.inf (bSign F b) else Res.nan)
      else if bBiased F b = 0 then
        (if bFrac F b = 0 then Res.zero (bSign F b)
         else Res.fin (bSign F b) F.emin (bFrac F b))
      else Res.fin (bSign F b) ((bBiased F b : Int) - F.bias) (2 ^ (F.p - 1) + bFrac F b) := by
  have hpos : 0 < 2 ^ (F.p - 1) := Nat.two_pow_pos _
  rw [fromBits_eq]
  by_cases h1 : bBiased F b = 2 ^ F.e - 1
  · rw [if_pos h1, if_pos h1]; split_ifs <;> rfl
  · rw [if_neg h1, if_neg h1]
    by_cases h2 : bBiased F b = 0
    · rw [if_neg (not_not.mpr h2), if_pos h2]
      by_cases h3 : bFrac F b = 0
      · rw [if_pos h3, h3, Bits.new_zero]; rfl
      · rw [if_neg h3, Bits.new_of_ne h3]; rfl
    · rw [if_pos h2, if_neg h2, Bits.new_of_ne (by omega), Nat.add_comm (bFrac F b)]; rfl

/-- the same, field by field -/
theorem fromBits_fields (F : Sem) (b : Nat) :
    (fromBits F b).sem = F ∧ (fromBits F b).sign = bSign F b ∧
    (bBiased F b = 2 ^ F.e - 1 → bFrac F b = 0 → (fromBits F b).cat = .inf) ∧
    (bBiased F b = 2 ^ F.e - 1 → bFrac F b ≠ 0 → (fromBits F b).cat = .nan) ∧
    (bBiased F b ≠ 2 ^ F.e - 1 → bBiased F b = 0 → bFrac F b = 0 → (fromBits F b).cat = .zero) ∧
    (bBiased F b ≠ 2 ^ F.e - 1 → bBiased F b = 0 → bFrac F b ≠ 0 →
      (fromBits F b).cat = .normal ∧ (fromBits F b).exp = F.emin
        ∧ (fromBits F b).mant = bFrac F b) ∧
    (bBiased F b ≠ 2 ^ F.e - 1 → bBiased F b ≠ 0 →
      (fromBits F b).cat = .normal ∧ (fromBits F b).exp = (bBiased F b : Int) - F.bias
        ∧ (fromBits F b).mant = 2 ^ (F.p - 1) + bFrac F b) := by
  have hpos : 0 < 2 ^ (F.p - 1) := Nat.two_pow_pos _
  refine ⟨fromBits_sem F b, fromBits_sign F b, ?_, ?_, ?_, ?_, ?_⟩
  · intro h1 h2; rw [fromBits_eq, if_pos h1, if_pos h2]; rfl
  · intro h1 h2; rw [fromBits_eq, if_pos h1, if_neg h2]; rfl
  · intro h1 h2 h3; rw [fromBits_eq, if_neg h1, if_neg (by omega), h3, Bits.new_zero]; rfl
  · intro h1 h2 h3
    rw [fromBits_eq, if_neg h1, if_neg (by omega), Bits.new_of_ne h3]; exact ⟨rfl, rfl, rfl⟩
  · intro h1 h2
    rw [fromBits_eq, if_neg h1, if_pos h2, Bits.new_of_ne (by omega), Nat.add_comm]
    exact ⟨rfl, rfl, rfl⟩

/-- The rational value of a finite pattern (`biased ≠ 2^E - 1`). -/
theorem fromBits_val_rat (F : Sem) (b : Nat) (h : bBiased F b ≠ 2 ^ F.e - 1) :
    (fromBits F b).val = (if bSign F b then -1 else 1) *
      (if bBiased F b = 0 then (bFrac F b : ℚ) * (2 : ℚ) ^ (F.emin - ((F.p : Int) - 1))
       else ((2 : ℚ) ^ (F.p - 1) + (bFrac F b : ℚ))
              * (2 : ℚ) ^ ((bBiased F b : Int) - F.bias - ((F.p : Int) - 1))) := by
  obtain ⟨hsem, hsg, -, -, hz, hsub, hnor⟩ := fromBits_fields F b
  by_cases h0 : bBiased F b = 0
  · rw [if_pos h0]
    by_cases hf : bFrac F b = 0
    · have := hz h h0 hf
      unfold Flt.val; rw [this, hf]; simp
    · obtain ⟨hc, he, hm⟩ := hsub h h0 hf
      unfold Flt.val; rw [hc]; simp only
      rw [Flt.mag_eq, hsem, hsg, he, hm]
      split_ifs <;> ring
  · rw [if_neg h0]
    obtain ⟨hc, he, hm⟩ := hnor h h0
    unfold Flt.val; rw [hc]; simp only
    rw [Flt.mag_eq, hsem, hsg, he, hm]
    push_cast
    split_ifs <;> ring

/-- `0xc0490fdb` (≈ -π in FP32): sign 1, biased exponent 128, fraction `0x490fdb` -/
example : (fromBits FP32 0xc0490fdb).toRes = Res.fin true 1 (2 ^ 23 + 0x490fdb) := by
  rw [fromBits_val]; decide
example : (fromF32 1).toRes = Res.fin false (-126) 1 := by decide
example : (fromF64 0x7ff0000000000000).toRes = Res.inf false := by decide

/-! ## 5. `f32`/`f64` instances -/

/-- A cast to the value's own format is the identity (the "nop" branch of `cast_with_rm`). -/
theorem castWithRm_same (x : Flt) (rm : RM) (hc : x.Canonical) : x.castWithRm x.sem rm = x := by
  obtain ⟨F, sg, ex, m, c⟩ := x
  cases c
  · have h := (Flt.canonical_special (x := ⟨F, sg, ex, m, .inf⟩) (by simp)).mp hc
    simp only at h; obtain ⟨rfl, rfl⟩ := h; rfl
  · have h := (Flt.canonical_special (x := ⟨F, sg, ex, m, .nan⟩) (by simp)).mp hc
    simp only at h; obtain ⟨rfl, rfl⟩ := h; rfl
  · simp [Flt.castWithRm]
  · have h := (Flt.canonical_special (x := ⟨F, sg, ex, m, .zero⟩) (by simp)).mp hc
    simp only at h; obtain ⟨rfl, rfl⟩ := h; rfl

theorem cast_same (x : Flt) (hc : x.Canonical) : x.cast x.sem = x :=
  castWithRm_same x _ hc

example : (fromF32 0x3f800000).cast FP32 = fromF32 0x3f800000 :=
  cast_same (fromF32 0x3f800000) (fromBits_canonical FP32 _ FP32_WF).1

theorem fromF32_cast (b : Nat) : (fromF32 b).cast FP32 = fromF32 b := by
  obtain ⟨hc, hs⟩ := fromBits_canonical FP32 b FP32_WF
  have := cast_same (fromBits FP32 b) hc
  rwa [hs] at this

theorem fromF64_cast (b : Nat) : (fromF64 b).cast FP64 = fromF64 b := by
  obtain ⟨hc, hs⟩ := fromBits_canonical FP64 b FP64_WF
  have := cast_same (fromBits FP64 b) hc
  rwa [hs] at this

/-- `f32 → Float → f32` is the identity on every non-NaN `f32` (±0, subnormals, ±∞ included). -/
theorem f32_roundtrip (b : Nat) (hb : b < 2 ^ 32) (hnn : (fromF32 b).cat ≠ .nan) :
    (fromF32 b).asF32 = b := by
  unfold Flt.asF32
  rw [fromF32_cast]
  unfold fromF32 at *
  rw [asBits_fromBits FP32 b FP32_WF (by decide) hb hnn]
  exact Nat.mod_eq_of_lt hb

/-- `f64 → Float → f64` is the identity on every non-NaN `f64`. -/
theorem f64_roundtrip (b : Nat) (hb : b < 2 ^ 64) (hnn : (fromF64 b).cat ≠ .nan) :
    (fromF64 b).asF64 = b := by
  unfold Flt.asF64
  rw [fromF64_cast]
  unfold fromF64 at *
  exact asBits_fromBits FP64 b FP64_WF (by decide) hb hnn

/-- NaN inputs come back as the quiet NaN with the same sign bit. -/
theorem f32_roundtrip_nan (b : Nat) (hn : (fromF32 b).cat = .nan) :
    (fromF32 b).asF32 = (if bSign FP32 b then 0xffc00000 else 0x7fc00000) := by
  unfold Flt.asF32
  rw [fromF32_cast]
  unfold fromF32 at *
  rw [(asBits_fromBits_nan FP32 b FP32_WF hn).1]
  cases bSign FP32 b <;> decide

theorem f64_roundtrip_nan (b : Nat) (hn : (fromF64 b).cat = .nan) :
    (fromF64 b).asF64 = (if bSign FP64 b then 0xfff8000000000000 else 0x7ff8000000000000) := by
  unfold Flt.asF64
  rw [fromF64_cast]
  unfold fromF64 at *
  rw [(asBits_fromBits_nan FP64 b FP64_WF hn).1]
  cases bSign FP64 b <;> decide

/-- `Float → f32 → Float` is the identity on every canonical FP32 value. -/
theorem asF32_roundtrip (x : Flt) (hs : x.sem = FP32) (hc : x.Canonical) :
    fromF32 x.asF32 = x := by
  have hF : x.sem.WF := by rw [hs]; exact FP32_WF
  have hp : x.sem.p ≤ 64 := by rw [hs]; decide
  have hlt := asNativeFloat_lt x hF hp hc
  have hx := fromBits_asBits' x hF hp hc
  have hcs := cast_same x hc
  rw [hs] at hlt hx hcs
  have hlt' : x.asNativeFloat < 2 ^ 32 := hlt
  unfold Flt.asF32 fromF32
  rw [hcs, Nat.mod_eq_of_lt hlt', hx]

theorem asF64_roundtrip (x : Flt) (hs : x.sem = FP64) (hc : x.Canonical) :
    fromF64 x.asF64 = x := by
  have hF : x.sem.WF := by rw [hs]; exact FP64_WF
  have hp : x.sem.p ≤ 64 := by rw [hs]; decide
  have hx := fromBits_asBits' x hF hp hc
  have hcs := cast_same x hc
  rw [hs] at hx hcs
  unfold Flt.asF64 fromF64
  rw [hcs, hx]

example : (fromF32 0x3f800000).asF32 = 0x3f800000 :=
  f32_roundtrip _ (by decide) (by decide)
example : (fromF32 1).asF32 = 1 := by decide
example : (fromF32 0x80000000).asF32 = 0x80000000 := by decide
example : (fromF32 0xff800000).asF32 = 0xff800000 := by decide
example : (fromF32 0xffffffff).asF32 = 0xffc00000 := by decide
example : (fromF64 0x3ff0000000000000).asF64 = 0x3ff0000000000000 :=
  f64_roundtrip _ (by decide) (by decide)
example : (fromF64 0x000fffffffffffff).asF64 = 0x000fffffffffffff := by decide

/-! ## 6. Narrowing `f64 → Float → f32` rounds once, to nearest even -/

/-- `as_f32` of a loaded `f64` casts under nearest-even (FP64's mode). -/
theorem asF32_fromF64 (b : Nat) :
    (fromF64 b).cast FP32 = (fromF64 b).castWithRm FP32 .nte := by
  unfold Flt.cast fromF64
  rw [fromBits_sem]; rfl

/-- A canonical non-NaN value is determined by its format and its `Res`. -/
theorem eq_of_toRes_eq (x y : Flt) (hs : x.sem = y.sem) (hx : x.Canonical) (hy : y.Canonical)
    (hnn : x.cat ≠ .nan) (h : x.toRes = y.toRes) : x = y := by
  obtain ⟨F, sg, ex, m, c⟩ := x
  obtain ⟨G, sg', ex', m', c'⟩ := y
  simp only at hs hnn; subst hs
  cases c <;> cases c' <;> simp [Flt.toRes] at h hnn
  · have h1 := (Flt.canonical_special (x := ⟨F, sg, ex, m, .inf⟩) (by simp)).mp hx
    have h2 := (Flt.canonical_special (x := ⟨F, sg', ex', m', .inf⟩) (by simp)).mp hy
    simp only at h1 h2; obtain ⟨rfl, rfl⟩ := h1; obtain ⟨rfl, rfl⟩ := h2; rw [h]
  · obtain ⟨rfl, rfl, rfl⟩ := h; rfl
  · have h1 := (Flt.canonical_special (x := ⟨F, sg, ex, m, .zero⟩) (by simp)).mp hx
    have h2 := (Flt.canonical_special (x := ⟨F, sg', ex', m', .zero⟩) (by simp)).mp hy
    simp only at h1 h2; obtain ⟨rfl, rfl⟩ := h1; obtain ⟨rfl, rfl⟩ := h2; rw [h]

/-- Corollary of C06 (`hcast`, = `Arp.C06.cast_correct`) and C04 (`hcan`,
    = `Arp.castWithRm_canonical`): the `f32` stored by `as_f32` for a loaded `f64` is the
    encoding of the exact `f64` value rounded ONCE to nearest-even into binary32:
    decoding it gives exactly `Spec.cast FP32 .nte` (NaN ↦ NaN included). -/
theorem asF32_fromF64_of_cast
    (hcast : ∀ (x : Flt) (G : Sem) (rm : RM), x.sem.WF → G.WF → x.Canonical →
      (x.castWithRm G rm).toRes = Spec.cast G rm x)
    (hcan : ∀ (x : Flt) (G : Sem) (rm : RM), G.WF → x.Canonical →
      (x.castWithRm G rm).Canonical ∧ (x.castWithRm G rm).sem = G)
    (b : Nat) :
    (fromF32 (fromF64 b).asF32).toRes = Spec.cast FP32 .nte (fromF64 b)
    ∧ (fromF64 b).asF32 < 2 ^ 32 := by
  obtain ⟨hc, hs⟩ := fromBits_canonical FP64 b FP64_WF
  change (fromF64 b).Canonical at hc
  change (fromF64 b).sem = FP64 at hs
  obtain ⟨hyc, hys⟩ := hcan (fromF64 b) FP32 .nte FP32_WF hc
  have hres := hcast (fromF64 b) FP32 .nte (by rw [hs]; exact FP64_WF) FP32_WF hc
  have hrt := asF32_roundtrip _ hys hyc
  rw [← asF32_fromF64] at hyc hys hres hrt
  have hcs : ((fromF64 b).cast FP32).cast FP32 = (fromF64 b).cast FP32 := by
    have := cast_same _ hyc; rwa [hys] at this
  have hlt := asNativeFloat_lt _ (by rw [hys]; exact FP32_WF) (by rw [hys]; decide) hyc
  rw [hys] at hlt
  have e : ((fromF64 b).cast FP32).asF32 = (fromF64 b).asF32 := by
    unfold Flt.asF32; rw [hcs]
  rw [e] at hrt
  refine ⟨by rw [hrt]; exact hres, ?_⟩
  unfold Flt.asF32
  exact Nat.mod_lt _ (by norm_num)

/-- Bit-level form: if `z` is the canonical FP32 value denoting the correctly rounded result
    (not NaN), the stored word is the encoding of `z`. -/
theorem asF32_fromF64_bits
    (hcast : ∀ (x : Flt) (G : Sem) (rm : RM), x.sem.WF → G.WF → x.Canonical →
      (x.castWithRm G rm).toRes = Spec.cast G rm x)
    (hcan : ∀ (x : Flt) (G : Sem) (rm : RM), G.WF → x.Canonical →
      (x.castWithRm G rm).Canonical ∧ (x.castWithRm G rm).sem = G)
    (b : Nat) (z : Flt) (hz : z.sem = FP32) (hzc : z.Canonical) (hnn : z.cat ≠ .nan)
    (hzr : z.toRes = Spec.cast FP32 .nte (fromF64 b)) :
    (fromF64 b).asF32 = z.asNativeFloat := by
  obtain ⟨h1, h2⟩ := asF32_fromF64_of_cast hcast hcan b
  have hc := (fromBits_canonical FP32 (fromF64 b).asF32 FP32_WF)
  have : z = fromF32 (fromF64 b).asF32 :=
    eq_of_toRes_eq z _ (by rw [hz]; exact hc.2.symm) hzc hc.1 hnn (by rw [hzr, h1])
  have hnn' : (fromF32 (fromF64 b).asF32).cat ≠ .nan := this ▸ hnn
  rw [this]
  exact (asBits_fromBits FP32 _ FP32_WF (by decide) h2 hnn').symm

/-- `0x3ff0000000000001` (1 + 2^-52) narrows to `1.0f`; `0x3ff0000010000000` (1 + 2^-24, a tie)
    to the even neighbour `1.0f`; `0x3ff0000030000000` (1 + 3·2^-24, a tie) to `1 + 2^-22`. -/
example : (fromF64 0x3ff0000000000001).asF32 = 0x3f800000 := by decide
example : (fromF64 0x3ff0000010000000).asF32 = 0x3f800000 := by decide
example : (fromF64 0x3ff0000030000000).asF32 = 0x3f800002 := by decide
/-- overflow to infinity, and underflow into the binary32 subnormals -/
example : (fromF64 0x47f0000000000000).asF32 = 0x7f800000 := by decide
example : (fromF64 0x36a0000000000000).asF32 = 0x00000001 := by decide

end Arp.C07
