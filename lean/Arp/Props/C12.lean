import Arp.Lemmas.Sqrt
import Mathlib.Analysis.Real.Sqrt
/-!
# C12 / C19 — `sqrt`

`Flt.sqrtFuel fuel x` models `Float::sqrt` (functions.rs); `none` = fuel exhausted.
The Newton iteration runs in the format `wide = sem.increaseExponent 1`; the analysis is in
`Arp/Lemmas/Sqrt.lean`.  Everything below holds for every well-formed format
(`2 ≤ e`, `2 ≤ p`), every rounding mode, normal and subnormal arguments; no condition on the
format size is needed.

* `sqrt_special`         ±0 ↦ ±0, NaN and negative ↦ NaN, +inf ↦ +inf (any fuel);
* `sqrt_pos_finite`      positive finite ↦ positive finite non-zero canonical, never ±inf;
* `sqrt_terminates`      returns within `sqrtFuelBound x = 2·emax − emin + 2p + 20` iterations
                         (`sqrtFuel_stable`: more fuel never changes the result);
* `sqrt_error`           `Spec.sqrtWithin x r 1 true` in the nearest modes (`< 1 ulp`),
                         `Spec.sqrtWithin x r 2 false` otherwise (`≤ 2 ulp`);
                         `sqrt_error_upper`: `√x < r + ulp` in every mode;
                         `sqrt_error_real`: the same against `Real.sqrt`;
* `sqrt_perfect_square`  nearest modes: the root of a representable square is exact.
-/
namespace Arp.C12
open Arp Arp.Sqrt

/-! ## 1. special values -/

/-- `sqrt(±0) = ±0`, `sqrt(NaN) = NaN`, `sqrt(negative) = NaN`, `sqrt(+inf) = +inf`, for any fuel -/
theorem sqrt_special (x : Flt) (fuel : Nat) :
    (x.cat = .zero → x.sqrtFuel fuel = some x) ∧
    ((x.cat = .nan ∨ (x.sign = true ∧ x.cat ≠ .zero)) →
        x.sqrtFuel fuel = some (Flt.nan x.sem x.sign)) ∧
    (x.cat = .inf → x.sign = false → x.sqrtFuel fuel = some x) := by
  refine ⟨?_, ?_, ?_⟩
  · intro h; simp [Flt.sqrtFuel, Flt.isZero, h]
  · rintro (h | ⟨h1, h2⟩)
    · simp [Flt.sqrtFuel, Flt.isZero, Flt.isNan, h]
    · cases hc : x.cat <;> simp_all [Flt.sqrtFuel, Flt.isZero, Flt.isNan]
  · intro h hs; simp [Flt.sqrtFuel, Flt.isZero, Flt.isNan, Flt.isInf, h, hs]

example : (⟨FP16, true, 0, 0, .zero⟩ : Flt).sqrtFuel 0 = some ⟨FP16, true, 0, 0, .zero⟩ := by decide
example : (⟨FP16, true, 0, 1024, .normal⟩ : Flt).sqrtFuel 0 = some (Flt.nan FP16 true) := by decide
example : (⟨FP16, false, 0, 0, .inf⟩ : Flt).sqrtFuel 0 = some ⟨FP16, false, 0, 0, .inf⟩ := by decide
example : (⟨FP16, true, 0, 0, .inf⟩ : Flt).sqrtFuel 0 = some (Flt.nan FP16 true) := by decide

/-! ## 2. the root of a positive finite value is positive and finite -/

/-- For a finite positive `x` (normal or subnormal) of any well-formed format, whatever the
    mode and the fuel: if `sqrt` returns, it returns a finite, non-zero, positive canonical
    value of the same format — never an infinity, a zero or a NaN.  No side condition on the
    format size is needed. -/
theorem sqrt_pos_finite (x : Flt) (fuel : Nat) (hF : x.sem.WF) (hc : x.Canonical)
    (hx : x.cat = .normal) (hs : x.sign = false) (r : Flt) (h : x.sqrtFuel fuel = some r) :
    r.cat = .normal ∧ r.sign = false ∧ r.Canonical ∧ r.sem = x.sem := by
  obtain ⟨b, _, _, _, _, hr, _⟩ := sqrt_result hF ⟨rfl, hc, hx, hs⟩ h
  exact ⟨hr.cat, hr.sign, hr.can, hr.sem⟩

/-- `√2` in binary16 -/
example : (⟨FP16, false, 1, 1024, .normal⟩ : Flt).sqrtFuel 40 = some ⟨FP16, false, 0, 1448, .normal⟩ := by
  decide
/-- the largest finite binary16 value, rounding upward: no overflow (`√65504 ≈ 255.94 ↦ 256`) -/
example : (⟨⟨5, 11, .pos⟩, false, 15, 2047, .normal⟩ : Flt).sqrtFuel 40
    = some ⟨⟨5, 11, .pos⟩, false, 8, 1024, .normal⟩ := by decide
/-- the smallest subnormal -/
example : (⟨FP16, false, -14, 1, .normal⟩ : Flt).sqrtFuel 40 = some ⟨FP16, false, -12, 1024, .normal⟩ := by
  decide

/-! ## 3. termination (C19) -/

/-- A fuel that always suffices, linear in the exponent range and the precision:
    `2·emax − emin + 2p + 20` (`= 3·2^(e-1) + 2p + 16`; 86 for binary16, where at most 17
    iterations occur; 448 for binary32, 3194 for binary64).
    Proof: two iterations per binade while the iterate is above `2^(k+2) > 2√x`
    (`4^k ≤ x < 4^(k+1)`); then the distance to the root, measured in ulps of the root,
    at least halves (up to 8.5 ulps) at every iteration: `p + 1` iterations; then the
    iterates, strictly decreasing multiples of the ulp, are within 19 ulps of the root. -/
def sqrtFuelBound (x : Flt) : Nat := (2 * x.sem.emax - x.sem.emin).toNat + 2 * x.sem.p + 20

/-- more fuel never changes a result -/
theorem sqrtFuel_stable (x r : Flt) (f1 f2 : Nat) (hle : f1 ≤ f2) (h : x.sqrtFuel f1 = some r) :
    x.sqrtFuel f2 = some r := by
  induction hle with
  | refl => exact h
  | step _ ih =>
    unfold Flt.sqrtFuel at ih ⊢
    split at ih
    · rename_i h1; rw [if_pos h1]; exact ih
    · rename_i h1; rw [if_neg h1]
      split at ih
      · rename_i h2; rw [if_pos h2]; exact ih
      · rename_i h2; rw [if_neg h2]
        split at ih
        · rename_i h3; rw [if_pos h3]; exact ih
        · rename_i h3; rw [if_neg h3]; exact sqrtLoop_mono _ _ _ _ _ _ ih

/-- **Termination**: for every canonical argument (any category, sign, mode) `sqrt` returns
    within `sqrtFuelBound x` iterations, hence for every larger fuel. -/
theorem sqrt_terminates (x : Flt) (hF : x.sem.WF) (hc : x.Canonical) (fuel : Nat)
    (hfuel : sqrtFuelBound x ≤ fuel) : ∃ r, x.sqrtFuel fuel = some r := by
  by_cases hx : x.cat = .normal ∧ x.sign = false
  · exact sqrt_fuel_linear hF ⟨rfl, hc, hx.1, hx.2⟩ hfuel
  · obtain ⟨s1, s2, s3⟩ := sqrt_special x fuel
    cases hcat : x.cat
    · cases hsg : x.sign
      · exact ⟨_, s3 hcat hsg⟩
      · exact ⟨_, s2 (Or.inr ⟨hsg, by rw [hcat]; decide⟩)⟩
    · exact ⟨_, s2 (Or.inl hcat)⟩
    · cases hsg : x.sign
      · exact absurd ⟨hcat, hsg⟩ hx
      · exact ⟨_, s2 (Or.inr ⟨hsg, by rw [hcat]; decide⟩)⟩
    · exact ⟨_, s1 hcat⟩

example : sqrtFuelBound ⟨FP16, false, 15, 2047, .normal⟩ = 86 := by decide
/-- the largest binary16 value needs 11 iterations (10 are not enough) -/
example : (⟨FP16, false, 15, 2047, .normal⟩ : Flt).sqrtFuel 10 = none := by decide
example : (⟨FP16, false, 15, 2047, .normal⟩ : Flt).sqrtFuel 11 = some ⟨FP16, false, 8, 1024, .normal⟩ := by
  decide
example : ∃ r, (⟨FP16, false, 15, 2047, .normal⟩ : Flt).sqrtFuel 100000 = some r :=
  sqrt_terminates _ (by decide) (by decide) _ (by decide)

/-! ## 4. accuracy -/

/-- unfolding of the executable predicate `Spec.sqrtWithin` -/
theorem sqrtWithin_iff (x r : Flt) (k : Nat) (strict : Bool) :
    Spec.sqrtWithin x r k strict = true ↔
      r.cat = .normal ∧ r.sign = false ∧
      (r.mag - r.sem.ulp r.exp * k ≤ 0 ∨
        (if strict then (r.mag - r.sem.ulp r.exp * k) * (r.mag - r.sem.ulp r.exp * k) < x.mag
         else (r.mag - r.sem.ulp r.exp * k) * (r.mag - r.sem.ulp r.exp * k) ≤ x.mag)) ∧
      (if strict then x.mag < (r.mag + r.sem.ulp r.exp * k) * (r.mag + r.sem.ulp r.exp * k)
       else x.mag ≤ (r.mag + r.sem.ulp r.exp * k) * (r.mag + r.sem.ulp r.exp * k)) := by
  unfold Spec.sqrtWithin Spec.ulpOf
  rw [pow2_eq, ← Sem.ulp_def]
  cases strict <;> by_cases h : r.mag - r.sem.ulp r.exp * k ≤ 0 <;> simp [h, and_assoc]

/-- the upper half of the error bound holds in every mode and every format:
    `√x < r + ulp(r)` -/
theorem sqrt_error_upper (x : Flt) (fuel : Nat) (hF : x.sem.WF) (hc : x.Canonical)
    (hx : x.cat = .normal) (hs : x.sign = false) (r : Flt) (h : x.sqrtFuel fuel = some r) :
    x.mag < (r.mag + r.sem.ulp r.exp) * (r.mag + r.sem.ulp r.exp) := by
  obtain ⟨hr, h1, _⟩ := sqrt_bounds hF ⟨rfl, hc, hx, hs⟩ h
  rw [hr.sem]; exact h1

/-- **Accuracy (C12).**  For a finite positive `x` (normal or subnormal) of any well-formed
    format, no condition on the format size: the result is within one ulp (strictly) of `√x`
    in the two nearest modes and within two ulps in the directed and truncating modes —
    `Spec.sqrtWithin`, the executable predicate `(r - k·ulp)² < x < (r + k·ulp)²`
    (`≤` for `k = 2`; `ulp` = unit in the last place of the result `r`) checked by the
    differential tests. -/
theorem sqrt_error (x : Flt) (fuel : Nat) (hF : x.sem.WF) (hc : x.Canonical)
    (hx : x.cat = .normal) (hs : x.sign = false)
    (r : Flt) (h : x.sqrtFuel fuel = some r) :
    Spec.sqrtWithin x r (if x.sem.rm = .nte ∨ x.sem.rm = .nta then 1 else 2)
      (decide (x.sem.rm = .nte ∨ x.sem.rm = .nta)) = true := by
  obtain ⟨hr, h1, h3, h4⟩ := sqrt_bounds hF ⟨rfl, hc, hx, hs⟩ h
  have hu := x.sem.ulp_pos r.exp
  have hm := hr.mag_pos
  rw [sqrtWithin_iff, hr.sem]
  refine ⟨hr.cat, hr.sign, ?_⟩
  by_cases hrm : x.sem.rm = .nte ∨ x.sem.rm = .nta
  · rw [if_pos hrm, decide_eq_true hrm]
    simp only [Nat.cast_one, mul_one, if_true]
    exact ⟨h3 hrm, h1⟩
  · rw [if_neg hrm, decide_eq_false hrm]
    simp only [Nat.cast_ofNat, Bool.false_eq_true, if_false]
    refine ⟨?_, ?_⟩
    · rw [mul_comm (x.sem.ulp r.exp) 2]; exact h4
    · nlinarith

/-- `√2` in binary16, nearest-even: within one ulp -/
example : Spec.sqrtWithin ⟨FP16, false, 1, 1024, .normal⟩ ⟨FP16, false, 0, 1448, .normal⟩ 1 true = true :=
  sqrt_error ⟨FP16, false, 1, 1024, .normal⟩ 40 (by decide) (by decide) rfl rfl _ (by decide)

/-- the largest finite binary16 value, rounding upward: within two ulps -/
example : Spec.sqrtWithin ⟨⟨5, 11, .pos⟩, false, 15, 2047, .normal⟩ ⟨⟨5, 11, .pos⟩, false, 8, 1024, .normal⟩
    2 false = true :=
  sqrt_error ⟨⟨5, 11, .pos⟩, false, 15, 2047, .normal⟩ 40 (by decide) (by decide) rfl rfl _
    (by decide)

/-- **The same with the real square root**: `-ulp < r - √x ≤ 2·ulp` in every mode and
    `|r - √x| < ulp` in the two nearest modes (`ulp` of the result). -/
theorem sqrt_error_real (x : Flt) (fuel : Nat) (hF : x.sem.WF) (hc : x.Canonical)
    (hx : x.cat = .normal) (hs : x.sign = false) (r : Flt) (h : x.sqrtFuel fuel = some r) :
    -((r.sem.ulp r.exp : ℚ) : ℝ) < (r.mag : ℝ) - Real.sqrt (x.mag : ℝ) ∧
    (r.mag : ℝ) - Real.sqrt (x.mag : ℝ) ≤ 2 * ((r.sem.ulp r.exp : ℚ) : ℝ) ∧
    ((x.sem.rm = .nte ∨ x.sem.rm = .nta) →
      |(r.mag : ℝ) - Real.sqrt (x.mag : ℝ)| < ((r.sem.ulp r.exp : ℚ) : ℝ)) := by
  obtain ⟨hr, h1, h3, h4⟩ := sqrt_bounds hF ⟨rfl, hc, hx, hs⟩ h
  rw [hr.sem]
  have hu : (0:ℝ) < ((x.sem.ulp r.exp : ℚ) : ℝ) := by exact_mod_cast x.sem.ulp_pos r.exp
  have hm : (0:ℝ) < (r.mag : ℝ) := by exact_mod_cast hr.mag_pos
  have ht : (0:ℝ) < (x.mag : ℝ) := by exact_mod_cast Flt.mag_pos x hx hc
  have hsq := Real.sqrt_pos.mpr ht
  have up : Real.sqrt (x.mag : ℝ) < (r.mag : ℝ) + ((x.sem.ulp r.exp : ℚ) : ℝ) := by
    rw [Real.sqrt_lt' (by linarith)]
    have : ((x.mag : ℚ) : ℝ) < (((r.mag + x.sem.ulp r.exp) * (r.mag + x.sem.ulp r.exp) : ℚ) : ℝ) :=
      Rat.cast_lt.mpr h1
    push_cast at this
    rw [sq]; exact this
  have lo2 : (r.mag : ℝ) - 2 * ((x.sem.ulp r.exp : ℚ) : ℝ) ≤ Real.sqrt (x.mag : ℝ) := by
    rcases h4 with h' | h'
    · have : (((r.mag - 2 * x.sem.ulp r.exp : ℚ)) : ℝ) ≤ ((0:ℚ):ℝ) := Rat.cast_le.mpr h'
      push_cast at this; linarith
    · by_cases hpos : (r.mag : ℝ) - 2 * ((x.sem.ulp r.exp : ℚ) : ℝ) ≤ 0
      · linarith
      · rw [Real.le_sqrt' (not_le.mp hpos)]
        have : (((r.mag - 2 * x.sem.ulp r.exp) * (r.mag - 2 * x.sem.ulp r.exp) : ℚ) : ℝ)
            ≤ ((x.mag : ℚ) : ℝ) := Rat.cast_le.mpr h'
        push_cast at this
        rw [sq]; exact this
  refine ⟨by linarith, by linarith, ?_⟩
  intro hrm
  have lo1 : (r.mag : ℝ) - ((x.sem.ulp r.exp : ℚ) : ℝ) < Real.sqrt (x.mag : ℝ) := by
    rcases h3 hrm with h' | h'
    · have : (((r.mag - x.sem.ulp r.exp : ℚ)) : ℝ) ≤ ((0:ℚ):ℝ) := Rat.cast_le.mpr h'
      push_cast at this; linarith
    · by_cases hpos : (r.mag : ℝ) - ((x.sem.ulp r.exp : ℚ) : ℝ) ≤ 0
      · linarith
      · rw [Real.lt_sqrt (le_of_lt (not_le.mp hpos))]
        have : (((r.mag - x.sem.ulp r.exp) * (r.mag - x.sem.ulp r.exp) : ℚ) : ℝ)
            < ((x.mag : ℚ) : ℝ) := Rat.cast_lt.mpr h'
        push_cast at this
        rw [sq]; exact this
  rw [abs_lt]; constructor <;> linarith

/-! ## 5. perfect squares -/

/-- In the two nearest modes the root of a representable perfect square is exact. -/
theorem sqrt_perfect_square (x y : Flt) (fuel : Nat) (hF : x.sem.WF) (hc : x.Canonical)
    (hx : x.cat = .normal) (hs : x.sign = false)
    (hrm : x.sem.rm = .nte ∨ x.sem.rm = .nta)
    (hys : y.sem = x.sem) (hyc : y.Canonical) (hyx : y.cat = .normal) (hysg : y.sign = false)
    (hsq : x.mag = y.mag * y.mag) (r : Flt) (h : x.sqrtFuel fuel = some r) : r = y :=
  sqrt_square hF ⟨rfl, hc, hx, hs⟩ hrm ⟨hys, hyc, hyx, hysg⟩ hsq h

/-- `√(25) = 5` in binary16 -/
example : (⟨FP16, false, 4, 1600, .normal⟩ : Flt).sqrtFuel 40 = some ⟨FP16, false, 2, 1280, .normal⟩ := by
  decide

/-
-- NOT PROVED (not needed by any statement above; recorded for C19 / C12)
-- * A sharper iteration count.  Exhaustive runs of the model (all positive values, 6 modes)
--   need at most 17 iterations for binary16 (`sqrtFuelBound` = 86), 13 for (e,p) = (5,4),
--   11 for (4,8), 10 for (4,2), 9 for (2,10).  The theorem counts two iterations per binade
--   while the iterate is above `2^(k+2)` and `p + 1` halvings of the distance afterwards; the
--   quadratic convergence of the second phase (about `log₂ p` iterations) is not formalised.
-- * One ulp in the modes `none`, `zero`, `neg`.  In the same runs the result is more than one
--   ulp away from the root only in mode `pos` (376 of 31743 binary16 arguments, always above
--   the root: `sqrt_error_upper` excludes the other side in every mode).  The theorem
--   `sqrt_error` states two ulps for all four non-nearest modes.
-/

end Arp.C12
