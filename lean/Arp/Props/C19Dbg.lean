import Arp.Lemmas.DbgOk
import Arp.Props.C14
/-!
# C19 (debug builds) — no `debug_assert!` of the arithmetic core is reachable on canonical inputs

`debug_assert!`s are compiled only into debug builds; property C19 demands that every public
operation returns normally there as well.  The assertions of the arithmetic core are

| Rust                                   | assertion                                   | here |
|----------------------------------------|---------------------------------------------|------|
| float.rs:524 `normalize`               | `loss.is_exactly_zero()` before a left shift | `normalizeDbgOk_iff`, `*_dbgOk` |
| float.rs:451-454 `check_bounds`        | `emin ≤ exp ≤ emax`, `mantissa < 2^p`       | `overflow_check_bounds`, `overflow_check_bounds_inf` |
| bigint.rs:104 `all1s` (from `overflow`)  | `msb_index() == bits`                       | `overflow_all1s_assert` |
| float.rs:475 `need_round_away_from_zero` | `is_normal() ‖ is_zero()`                  | `normalize_needRoundAway_receiver`, `convert_needRoundAway_receiver` |
| arithmetic.rs:86 `add_or_sub_normals`  | `a.exp == b.exp` after alignment            | `add_exponents_aligned` |
| arithmetic.rs:24/379/538, float.rs:598 | equal semantics of both operands            | hypothesis `b.sem = a.sem` (a precondition of the API) |
| cast.rs:255/271 `as_native_float`      | biased `exp > 0`, `mantissa ≤ 1 << mlen`    | `asNative_no_debug_panic` |
| bigint.rs:142 `as_u64` (from `to_i64`, `as_native_float`) | higher words are zero    | `toI64_no_debug_panic`, `asNative_no_debug_panic` |

The Boolean `Flt.normalizeDbgOk x loss` of the model is the truth value of the first one for the
call `x.normalize(rm, loss)`.  Every call site of `normalize` is covered: `add_sub`,
`mul_with_rm`, `div_with_rm`, `cast_with_rm`, `scale`, `from_bigint` (and through them
`round`, `from_u64`, `powi`, `sqrt`, `rem`, the parser and the transcendental functions, which
only compose these kernels on canonical intermediate values, `C04`).
-/
namespace Arp.C19
open Arp

/-! ### 1. The assertion of `normalize`, characterised -/

/-- the assertion holds exactly when the guarded left shift is not taken or the loss is zero -/
theorem normalize_assert_iff (x : Flt) (loss : Loss) :
    x.normalizeDbgOk loss = true ↔
      (x.cat = .normal → x.mant ≠ 0 →
        x.exp + ((msb x.mant : Int) - x.sem.p) ≤ x.sem.emax →
        msb x.mant < x.sem.p → x.sem.emin < x.exp → loss = .zero) :=
  normalizeDbgOk_iff x loss

/-- the precondition `hpre` of `normalize_correct` is (more than) what the assertion needs -/
theorem normalize_assert_of_hpre (x : Flt) (loss : Loss)
    (h : msb x.mant < x.sem.p → x.sem.emin < x.exp → loss = .zero) :
    x.normalizeDbgOk loss = true :=
  normalizeDbgOk_of_hpre x loss h

/-! ### 2. The call sites of `normalize` -/

theorem add_dbgOk (a b : Flt) (sub : Bool) (hF : a.sem.WF) (hs : b.sem = a.sem)
    (ha : a.Canonical) (hb : b.Canonical) (han : a.cat = .normal) (hbn : b.cat = .normal) :
    let r := addOrSubNormals a b sub
    r.1.normalizeDbgOk r.2 = true := by
  intro r
  obtain ⟨F, sa, ea, A, ca⟩ := a
  obtain ⟨Fb, sb, eb, B, cb⟩ := b
  simp only at hF hs han hbn
  subst hs han hbn
  cases sub
  · exact addNormals_dbgOk Fb sa sb ea eb A B hF ha hb
  · have hb' : Flt.Canonical ⟨Fb, !sb, eb, B, .normal⟩ := by
      unfold Flt.Canonical Flt.isCanonical at hb ⊢
      exact hb
    show (addOrSubNormals _ _ true).1.normalizeDbgOk (addOrSubNormals _ _ true).2 = true
    rw [aos_sub_eq_add_neg_dbg]
    exact addNormals_dbgOk Fb sa (!sb) ea eb A B hF ha hb'

/-- products: the result of `mul_normals` either has its leading bit at the precision or
    carries no loss — no hypothesis on the operands is needed -/
theorem mul_dbgOk (a b : Flt) (sign : Bool) :
    let r := mulNormals a b sign
    r.1.normalizeDbgOk r.2 = true :=
  mulNormals_dbgOk a b sign

theorem div_dbgOk (a b : Flt) (hF : a.sem.WF) (hs : b.sem = a.sem)
    (ha : a.Canonical) (hb : b.Canonical) (han : a.cat = .normal) (hbn : b.cat = .normal) :
    let r := divNormals a b
    r.1.normalizeDbgOk r.2 = true := by
  intro r
  obtain ⟨-, -, a3, a4, -⟩ := (Flt.canonical_normal han).mp ha
  obtain ⟨-, -, b3, b4, -⟩ := (Flt.canonical_normal hbn).mp hb
  exact divNormals_dbgOk a b (by have := hF.2; omega) hs (by omega) a4 (by omega) b4

/-- `cast_with_rm` calls `normalize` with `LossFraction::ExactlyZero` -/
theorem cast_dbgOk (x : Flt) (G : Sem) :
    let expDelta : Int := ((x.sem.p - 1 : Nat) : Int) - ((G.p - 1 : Nat) : Int)
    (Flt.mk G x.sign (x.exp - expDelta) x.mant .normal).normalizeDbgOk .zero = true :=
  normalizeDbgOk_zero _

/-- `scale` calls `normalize` with `LossFraction::ExactlyZero` -/
theorem scale_dbgOk (x : Flt) (k : Int) :
    (Flt.new x.sem x.sign (x.exp + k) x.mant).normalizeDbgOk .zero = true :=
  normalizeDbgOk_zero _

/-- `from_bigint` (hence `from_u64`, `from_i64`): `C14.fromBigint_dbgOk` -/
theorem load_dbgOk (F : Sem) (n : Nat) :
    (Flt.new F false ((F.p - 1 : Nat) : Int) n).normalizeDbgOk .zero = true :=
  C14.fromBigint_dbgOk F n

/-- the (zero, normal) arm of `add_sub` does not call `normalize` -/
theorem addSub_zero_normal (a b : Flt) (sub : Bool) (rm : RM) (ha : a.cat = .zero)
    (hb : b.cat = .normal) : addSub a b sub rm = Flt.new a.sem (b.sign ^^ sub) b.exp b.mant := by
  unfold addSub; rw [ha, hb]

/-- `round` (cast.rs:92-132) adds or subtracts one from the truncated value `t`; `t` is a zero
    (no `normalize`) or a canonical normal value, for which the assertion holds -/
theorem round_dbgOk (x : Flt) (hF : x.sem.WF) (hc : x.Canonical) (hx : x.cat = .normal) :
    let trim := (((x.sem.p - 1 : Nat) : Int) - x.exp).toNat
    let t := Flt.new x.sem x.sign x.exp ((x.mant >>> trim) <<< trim)
    let r := addOrSubNormals t (Flt.one x.sem false) x.sign
    (t.cat = .normal ∨ t.cat = .zero) ∧ (t.cat = .normal → r.1.normalizeDbgOk r.2 = true) := by
  intro trim t r
  refine ⟨new_normal_or_zero _ _ _ _, ?_⟩
  intro ht
  have h0 : x.mant >>> trim ≠ 0 := by
    intro h
    have : t.cat = .zero := by
      show (Flt.new x.sem x.sign x.exp ((x.mant >>> trim) <<< trim)).cat = .zero
      rw [h]; simp [Flt.new, Flt.zero]
    rw [this] at ht; exact absurd ht (by decide)
  have hne : (x.mant >>> trim) <<< trim ≠ 0 := by
    rw [Nat.shiftLeft_eq]; exact Nat.mul_ne_zero h0 (by positivity)
  have hteq : t = ⟨x.sem, x.sign, x.exp, (x.mant >>> trim) <<< trim, .normal⟩ := by
    show Flt.new x.sem x.sign x.exp ((x.mant >>> trim) <<< trim) = _
    unfold Flt.new; rw [if_neg hne]
  have htc : t.Canonical := by rw [hteq]; exact truncMant_canonical x hx hc trim h0
  have hts : t.sem = x.sem := by rw [hteq]
  exact add_dbgOk t (Flt.one x.sem false) x.sign (by rw [hts]; exact hF) (by rw [hts]; rfl) htc
    (Flt.one_canonical x.sem false hF) ht rfl

/-! ### 3. `check_bounds` after `overflow()` -/

theorem overflow_check_bounds (x : Flt) (rm : RM) (hF : x.sem.WF) :
    let y := x.overflow rm
    y.cat = .normal → y.sem.emin ≤ y.exp ∧ y.exp ≤ y.sem.emax ∧ y.mant < 2 ^ y.sem.p :=
  fun _ => overflow_check_bounds_all x rm hF

/-- the other possible result is an infinity: exponent 0, significand 0, which also pass -/
theorem overflow_check_bounds_inf (x : Flt) (rm : RM) (hF : x.sem.WF) :
    let y := x.overflow rm
    (y.cat = .normal ∨ y.cat = .inf) ∧
    (y.cat = .inf → y.exp = 0 ∧ y.mant = 0 ∧
      y.sem.emin ≤ y.exp ∧ y.exp ≤ y.sem.emax ∧ y.mant < 2 ^ y.sem.p) := by
  intro y
  refine ⟨overflow_cat x rm (by have := hF.2; omega), fun hi => ?_⟩
  have hc := overflow_canonical x rm hF
  obtain ⟨c1, c2⟩ := (Flt.canonical_special (x := y) (by rw [hi]; decide)).mp hc
  exact ⟨c1, c2, overflow_check_bounds_all x rm hF⟩

/-- `overflow()` builds the largest significand with `BigInt::all1s(precision)`, whose own
    `debug_assert_eq!(x.msb_index(), bits)` (bigint.rs:104) holds -/
theorem overflow_all1s_assert (F : Sem) (hF : F.WF) : msb (2 ^ F.p - 1) = F.p :=
  all1s_msb_dbg F.p (by have := hF.2; omega)

/-! ### 4. The receiver of `need_round_away_from_zero` -/

/-- in `normalize`: Step II is entered only on a value whose category is `Normal` -/
theorem normalize_needRoundAway_receiver (x : Flt) (rm : RM) (l : Loss) :
    (x.cat ≠ .normal ∧ x.normalize rm l = x) ∨
    (x.cat = .normal ∧
      (x.normalize rm l = x.overflow rm ∨
       (∃ k : Nat, x.normalize rm l = { x with exp := x.exp - k, mant := x.mant <<< k }) ∨
       (∃ (y : Flt) (l' : Loss), y.cat = .normal ∧ y.sem = x.sem ∧ y.sign = x.sign ∧
          x.normalize rm l = Flt.normalize.stepII rm y l'))) :=
  normalize_stepII_normal x rm l

/-- in `convert_normal_to_integer`: the receiver is `Float::new(sem, sign, 0, m)` -/
theorem convert_needRoundAway_receiver (s : Sem) (sg : Bool) (m : Nat) :
    (Flt.new s sg 0 m).cat = .normal ∨ (Flt.new s sg 0 m).cat = .zero :=
  new_normal_or_zero s sg 0 m

/-! ### 5. `as_native_float` -/

theorem asNative_no_debug_panic (x : Flt) (hx : x.cat = .normal) (hc : x.Canonical)
    (hp : x.sem.p ≤ 64) :
    0 < x.exp + x.sem.bias ∧                                        -- cast.rs:255
    x.mant < 2 ^ 64 ∧                                               -- `as_u64`, bigint.rs:142
    (x.mant % 2 ^ 64) &&& maskBits (x.sem.p - 1) ≤ 2 ^ (x.sem.p - 1) ∧   -- cast.rs:271
    1 <<< (x.sem.p - 1 - 1) ≤ 2 ^ (x.sem.p - 1) :=                  -- cast.rs:271, NaN arm
  ⟨biased_exp_pos x hx hc, mant_lt_two_pow_64 x hx hc hp, native_mantissa_le _ _,
    native_nan_mantissa_le _⟩

/-- `as_f64` / `as_f32` first cast to FP64 / FP32, whose precision is below 64 -/
theorem asF64_no_debug_panic (x : Flt) (hc : x.Canonical) (G : Sem) (hG : G.WF) (hp : G.p ≤ 64) :
    let y := x.cast G
    y.cat = .normal →
      0 < y.exp + y.sem.bias ∧ y.mant < 2 ^ 64 ∧
      (y.mant % 2 ^ 64) &&& maskBits (y.sem.p - 1) ≤ 2 ^ (y.sem.p - 1) := by
  intro y hy
  obtain ⟨h1, h2⟩ := cast_canonical x G hG hc
  have := asNative_no_debug_panic y hy h1 (by rw [h2]; exact hp)
  exact ⟨this.1, this.2.1, this.2.2.1⟩

/-! ### 6. The addition branch of `add_or_sub_normals` -/

theorem add_exponents_aligned (a b : Flt) :
    (a.exp - b.exp > 0 → (b.shiftSigRight (a.exp - b.exp).toNat).1.exp = a.exp) ∧
    (¬ (a.exp - b.exp > 0) → (a.shiftSigRight (-(a.exp - b.exp)).toNat).1.exp = b.exp) :=
  add_branch_exp_eq a b

/-! ### 7. `to_i64` -/

/-- On the two paths of `to_i64` that call `val.as_u64()` the integer is at most `2^63`, so all
    words above the first are zero; and whenever `convert_normal_to_integer` runs (`exp < 64`)
    the integer it builds has at most 65 bits. -/
theorem toI64_no_debug_panic (x : Flt) (hF : x.sem.WF) (hc : x.Canonical) :
    let v := x.convertNormalToInteger x.sem.rm
    (x.cat = .normal → x.exp < 64 → v ≤ 2 ^ 64) ∧
    ((x.isNan || x.isZero) = false → (x.isInf || decide (x.exp ≥ 64)) = false →
      (x.sign = true → ¬ v > 2 ^ 63 → v < 2 ^ 64 ∧ x.toI64 = -(v : Int)) ∧
      (x.sign = false → ¬ v ≥ 2 ^ 63 → v < 2 ^ 64 ∧ x.toI64 = (v : Int))) := by
  intro v
  refine ⟨fun hx he => ?_, fun h1 h2 => ⟨fun hs hv => ⟨by omega, ?_⟩, fun hs hv => ⟨by omega, ?_⟩⟩⟩
  · obtain ⟨-, -, -, c4, -⟩ := (Flt.canonical_normal hx).mp hc
    exact convertNormalToInteger_le x _ hF c4 he
  · unfold Flt.toI64
    simp only [h1, h2, hs, Bool.false_eq_true, if_false, if_true]
    rw [if_neg hv]
  · unfold Flt.toI64
    simp only [h1, h2, hs, Bool.false_eq_true, if_false]
    rw [if_neg hv]

/-! ### 8. One summary per operation -/

/-- `a + b`, `a - b` (`add_sub`, arithmetic.rs:101-160): in the only arm that computes, the
    aligned exponents agree and every assertion inside `normalize` holds. -/
theorem add_no_debug_panic (a b : Flt) (sub : Bool) (rm : RM) (hF : a.sem.WF) (hs : b.sem = a.sem)
    (ha : a.Canonical) (hb : b.Canonical) (han : a.cat = .normal) (hbn : b.cat = .normal) :
    ((a.exp - b.exp > 0 → (b.shiftSigRight (a.exp - b.exp).toNat).1.exp = a.exp) ∧
     (¬ (a.exp - b.exp > 0) → (a.shiftSigRight (-(a.exp - b.exp)).toNat).1.exp = b.exp)) ∧
    NormalizeAssertsOk (addOrSubNormals a b sub).1 rm (addOrSubNormals a b sub).2 :=
  ⟨add_branch_exp_eq a b,
    normalizeAssertsOk_of _ rm _ (by rw [addOrSubNormals_sem_dbg]; exact hF)
      (add_dbgOk a b sub hF hs ha hb han hbn)⟩

/-- `a * b` (`mul_with_rm`) -/
theorem mul_no_debug_panic (a b : Flt) (rm : RM) (hF : a.sem.WF) :
    NormalizeAssertsOk (mulNormals a b (a.sign ^^ b.sign)).1 rm (mulNormals a b (a.sign ^^ b.sign)).2 :=
  normalizeAssertsOk_of _ rm _ (by rw [mulNormals_sem_dbg]; exact hF) (mulNormals_dbgOk a b _)

/-- `a / b` (`div_with_rm`) -/
theorem div_no_debug_panic (a b : Flt) (rm : RM) (hF : a.sem.WF) (hs : b.sem = a.sem)
    (ha : a.Canonical) (hb : b.Canonical) (han : a.cat = .normal) (hbn : b.cat = .normal) :
    NormalizeAssertsOk (divNormals a b).1 rm (divNormals a b).2 :=
  normalizeAssertsOk_of _ rm _ (by rw [divNormals_sem_dbg]; exact hF)
    (div_dbgOk a b hF hs ha hb han hbn)

/-- `cast_with_rm` to a well-formed format, any operand -/
theorem cast_no_debug_panic (x : Flt) (G : Sem) (rm : RM) (hG : G.WF) :
    NormalizeAssertsOk
      (Flt.mk G x.sign (x.exp - (((x.sem.p - 1 : Nat) : Int) - ((G.p - 1 : Nat) : Int))) x.mant .normal)
      rm .zero :=
  normalizeAssertsOk_of _ rm _ hG (normalizeDbgOk_zero _)

/-- `scale`, any operand -/
theorem scale_no_debug_panic (x : Flt) (k : Int) (rm : RM) (hF : x.sem.WF) :
    NormalizeAssertsOk (Flt.new x.sem x.sign (x.exp + k) x.mant) rm .zero :=
  normalizeAssertsOk_of _ rm _ (by rw [new_sem_dbg]; exact hF) (normalizeDbgOk_zero _)

/-- `from_bigint` (and `from_u64`/`from_i64`, which add a `cast`) -/
theorem fromBigint_no_debug_panic (F : Sem) (n : Nat) (hF : F.WF) :
    NormalizeAssertsOk (Flt.new F false ((F.p - 1 : Nat) : Int) n) F.rm .zero :=
  normalizeAssertsOk_of _ _ _ (by rw [new_sem_dbg]; exact hF) (C14.fromBigint_dbgOk F n)

/-- `round`: the `± 1` step -/
theorem round_no_debug_panic (x : Flt) (hF : x.sem.WF) (hc : x.Canonical) (hx : x.cat = .normal) :
    let trim := (((x.sem.p - 1 : Nat) : Int) - x.exp).toNat
    let t := Flt.new x.sem x.sign x.exp ((x.mant >>> trim) <<< trim)
    let r := addOrSubNormals t (Flt.one x.sem false) x.sign
    (t.cat = .zero → ∀ rm, addSub t (Flt.one x.sem false) x.sign rm
        = Flt.new x.sem (false ^^ x.sign) 0 (1 <<< (x.sem.p - 1))) ∧
    (t.cat = .normal → NormalizeAssertsOk r.1 x.sem.rm r.2) := by
  intro trim t r
  have hts : t.sem = x.sem := new_sem_dbg _ _ _ _
  refine ⟨fun hz rm => ?_, fun ht => ?_⟩
  · rw [addSub_zero_normal t _ x.sign rm hz rfl, hts]; rfl
  · exact normalizeAssertsOk_of _ _ _
      (by rw [addOrSubNormals_sem_dbg, hts]; exact hF) ((round_dbgOk x hF hc hx).2 ht)

/-! ### Concrete FP16 instances, and non-vacuity of the Boolean -/

def dA : Flt := ⟨FP16, false, 0, 1024, .normal⟩          -- 1.0
def dB : Flt := ⟨FP16, false, -11, 1025, .normal⟩        -- 2^-11·(1+2^-10)
def dC : Flt := ⟨FP16, true, -14, 3, .normal⟩            -- a negative subnormal

example : dA.Canonical ∧ dB.Canonical ∧ dC.Canonical := by decide

-- effective subtraction with a loss: the borrow keeps the leading bit at the precision
example : addOrSubNormals dA dB true = (⟨FP16, false, -1, 2046, .normal⟩, .gt) := by decide
example : (addOrSubNormals dA dB true).1.normalizeDbgOk (addOrSubNormals dA dB true).2 = true := by
  decide
example : (addOrSubNormals dA dB true).1.normalizeDbgOk (addOrSubNormals dA dB true).2 = true :=
  add_dbgOk dA dB true (by decide) rfl (by decide) (by decide) rfl rfl
example : (addOrSubNormals dA dC false).1.normalizeDbgOk (addOrSubNormals dA dC false).2 = true := by
  decide
example : (mulNormals dB dC true).1.normalizeDbgOk (mulNormals dB dC true).2 = true := by decide
example : (divNormals dC dB).1.normalizeDbgOk (divNormals dC dB).2 = true := by decide
example : (divNormals dC dB).1.normalizeDbgOk (divNormals dC dB).2 = true :=
  div_dbgOk dC dB (by decide) rfl (by decide) (by decide) rfl rfl

/-- The Boolean is not vacuous: a NON-canonical value (leading bit below the precision,
    exponent above `emin`) together with a non-zero loss violates the assertion … -/
def dBad : Flt := ⟨FP16, false, 0, 1, .normal⟩

example : dBad.isCanonical = false := by decide
example : dBad.normalizeDbgOk .lt = false := by decide
example : dBad.normalizeDbgOk .half = false := by decide
-- … while the same value with no loss, or at `emin`, passes
example : dBad.normalizeDbgOk .zero = true := by decide
example : (Flt.mk FP16 false (-14) 1 .normal).normalizeDbgOk .lt = true := by decide
-- and a non-canonical operand can make `add_or_sub_normals` itself produce such a pair:
-- `2^-10·2^0 − 3·2^-10·2^-3` has a lost fraction and a short significand
example :
    let bad : Flt := ⟨FP16, false, 0, 1, .normal⟩
    let r := addOrSubNormals bad ⟨FP16, true, -3, 3, .normal⟩ false
    r.1.normalizeDbgOk r.2 = false := by decide

-- `check_bounds` on both outcomes of `overflow()`
example : (dA.overflow .zero) = ⟨FP16, false, 15, 2047, .normal⟩ := by decide
example : (dA.overflow .nte) = ⟨FP16, false, 0, 0, .inf⟩ := by decide

-- `to_i64` on the boundary: −2^63 reaches `as_u64` with exactly `2^63`
example : (Flt.mk FP64 true 63 (2 ^ 52) .normal).convertNormalToInteger .nte = 2 ^ 63 := by decide

end Arp.C19
