import Arp.Lemmas.ExpErr
import Arp.Lemmas.TransCanonical
import Mathlib.Data.Int.Log
/-!
# C16 — accuracy of `Float::exp` against `Real.exp`

Property clause: *"In the nearest rounding modes and for formats whose precision does not exceed
their exponent range (p ≤ 2^(E-1) − 2), exp(x) for finite |x| ≤ 1024 is within one ulp of e^x
(returning infinity or zero only when e^x is within an ulp of, or beyond, the format's finite range);
exp(±0) = 1."*  (`exp(±0) = 1`, `exp(±∞)`, `exp(NaN)`: `Arp.C16.exp_zero/exp_pos_inf/exp_neg_inf/exp_nan`
in `Arp/Props/C16.lean`.)

Main results (all for `x.sem.rm ∈ {nte, nta}`, `8 ≤ p ≤ 2^(E-1) - 2`, canonical finite non-zero `x`,
`|x| ≤ 1024`, fuel `≥ redBound x.exp + 1`; `hp64` of the work package is not needed):

* `exp_accuracy`   — the theorem of the work package: for `2^emin ≤ e^x ≤ maxFinite·(1 - 2^-p)` the
  result is a positive NORMAL number (`cat = normal`, `2^(p-1) ≤ mant`) with
  `|r - e^x| ≤ 33/64·ulpAt (max e^x r) ≤ ulpAt (max e^x r)`, `ulpAt F t = 2^(⌊log₂ t⌋ - (p-1))`.
* `exp_accuracy_binade` — the same in explicit-binade form (`WithinUlps`), extended to the subnormal
  range `2^(emin-p+1) ≤ e^x`; `exp_accuracy_pos`, `exp_accuracy_neg` — the two signs.
* `exp_total` — the complete clause, no hypothesis on `e^x`: the result is `+∞` only if
  `e^x > maxFinite·(1 - 2^-p)` (and always if `e^x ≥ 2^(emax+1)`), `+0` only if `e^x < 2^(emin-p+1)`,
  otherwise finite, non-zero and within `5/8` ulp; `exp_special_only_outside`,
  `exp_subnormal_only_below` — contrapositive corollaries; `exp_all` — the common source
  (`RoundSpec`).
* Stages 1 and 2 (`Arp.ExpErr.expTaylor_accuracy`, `sqr3_accuracy`, `rr_accuracy`) are in
  `Arp/Lemmas/ExpErr.lean`.

Error budget.  Working format `W`: `p_W = p + 10 + h + bitlen(p)`.  Taylor sum: `≤ max(50,p_W)+1`
perturbations of size `2^-p_W` plus a tail `≤ 4·2^(1-p_W)`; `3s ≤ h` squarings multiply the count by
`2^(3s)`: relative error `≤ 2^h·(max(50,p_W)+7)·2^(1-p_W) ≤ 2^(-p-7)` because
`max(50,p_W)+7 ≤ 4·2^bitlen(p)` for `h ≤ 13` (this is where `|x| ≤ 1024` enters).  The final rounding
adds half an ulp: `(1/2 + 1/64)` ulp in total.  For negative `x` the second format is so wide that
`exp(-x)` is known to `2^(-p_W-7)`; the cast to `W` and the reciprocal add `2·2^-p_W ≤ 2^(-p-13)`.
For positive `x` with `x.exp > E` (possible only when `e^x` overflows; `E ≤ 9`) up to four squarings
have no guard bit: relative error `≤ 2^(-p-3)`, still enough to decide the overflow.
-/

namespace Arp.C16.ExpAcc
open Arp Arp.SpecRound Arp.Sqrt Arp.RelErr Arp.ExpErr

/-! ### the two branches of `exp` on finite non-zero operands -/

theorem expFuel_pos (x : Flt) (fuel : ℕ) (hn : x.cat = .normal) (hs : x.sign = false) :
    x.expFuel fuel = (expRangeReduce fuel (x.cast x.expSem)).map (·.cast x.sem) := by
  unfold Flt.expFuel
  simp [Flt.isZero, Flt.isInf, Flt.isNormal, hn, hs]

theorem expFuel_neg (x : Flt) (fuel : ℕ) (hn : x.cat = .normal) (hs : x.sign = true) :
    x.expFuel fuel = (expRangeReduce fuel (((x.cast x.expSem).neg).cast ((x.cast x.expSem).neg).expSem)).map
      (fun r => ((Flt.one x.expSem false).div (r.cast x.expSem)).cast x.sem) := by
  unfold Flt.expFuel
  simp [Flt.isZero, Flt.isInf, Flt.isNormal, hn, hs]

theorem expSem_eq (x : Flt) : x.expSem = wfmt x.sem x.expHalvings := rfl

/-! ### the operand -/

/-- the smallest subnormal bounds every finite non-zero magnitude from below -/
theorem mag_lower {x : Flt} (hc : x.Canonical) (hn : x.cat = .normal) :
    (2:ℚ) ^ (-((2 ^ (x.sem.e - 1) + x.sem.p : ℕ) : ℤ)) ≤ x.mag := by
  obtain ⟨c1, _, c3, _, _⟩ := (Flt.canonical_normal hn).mp hc
  rw [Flt.mag_eq]
  have hm : (1:ℚ) ≤ (x.mant : ℚ) := by exact_mod_cast c3
  have h1 : (2:ℚ) ^ (-((2 ^ (x.sem.e - 1) + x.sem.p : ℕ) : ℤ)) ≤
      (2:ℚ) ^ (x.exp - ((x.sem.p : ℤ) - 1)) := by
    apply zpow_le_zpow_right₀ (by norm_num)
    rw [Sem.emin_eq] at c1
    push_cast at c1 ⊢
    omega
  have hpos : (0:ℚ) < (2:ℚ) ^ (x.exp - ((x.sem.p : ℤ) - 1)) := by positivity
  nlinarith

/-- `|x| ≤ 1024` bounds the exponent by 10 -/
theorem exp_le_ten {x : Flt} (hF : x.sem.WF) (hc : x.Canonical) (hn : x.cat = .normal)
    (hx : x.mag ≤ 1024) : x.exp ≤ 10 := by
  obtain ⟨c1, _, _, _, c5⟩ := (Flt.canonical_normal hn).mp hc
  rcases c5 with h | h
  · have h1 := C19.pow_le_mag x (by have := hF.2; omega) h
    have h2 : (2:ℚ) ^ x.exp ≤ (2:ℚ) ^ (10:ℤ) := by norm_num; linarith
    exact (zpow_le_zpow_iff_right₀ (by norm_num : (1:ℚ) < 2)).mp h2
  · rw [h]; have := Sem.emin_le_zero hF; omega

/-- `e^n ≥ 2^n` -/
theorem two_pow_le_exp (n : ℕ) : (2:ℝ) ^ n ≤ Real.exp (n:ℝ) := by
  have h := Real.exp_one_gt_d9
  have : Real.exp (n:ℝ) = Real.exp 1 ^ n := by
    rw [← Real.exp_nat_mul, mul_one]
  rw [this]
  exact pow_le_pow_left₀ (by norm_num) (by linarith) n

/-- an operand whose exponential is below `2^(emax+1)` has an exponent below the exponent width -/
theorem exp_lt_e {x : Flt} (hF : x.sem.WF) (hc : x.Canonical) (hn : x.cat = .normal)
    (hr : Real.exp (x.mag : ℝ) < (2:ℝ) ^ (x.sem.emax + 1)) : x.exp + 1 ≤ x.sem.e := by
  by_contra hcon
  obtain ⟨c1, _, _, _, c5⟩ := (Flt.canonical_normal hn).mp hc
  have he := hF.1
  have hmin := Sem.emin_le_zero hF
  have hmant : 2 ^ (x.sem.p - 1) ≤ x.mant := by
    rcases c5 with h | h
    · exact h
    · omega
  have h1 := C19.pow_le_mag x (by have := hF.2; omega) hmant
  set n : ℕ := 2 ^ (x.sem.e - 1) with hn'
  have h2 : ((n:ℕ):ℚ) ≤ (2:ℚ) ^ x.exp := by
    rw [hn']; push_cast
    rw [← zpow_natCast]
    exact zpow_le_zpow_right₀ (by norm_num) (by omega)
  have h3 : (n:ℝ) ≤ ((x.mag : ℚ) : ℝ) := by
    have : ((n:ℕ):ℚ) ≤ x.mag := le_trans h2 h1
    exact_mod_cast this
  have h4 := two_pow_le_exp n
  have h5 : Real.exp (n:ℝ) ≤ Real.exp ((x.mag : ℚ) : ℝ) := Real.exp_le_exp.mpr h3
  have h6 : (2:ℝ) ^ (x.sem.emax + 1) = (2:ℝ) ^ n := by
    rw [Sem.emax_eq (by omega), ← zpow_natCast]; congr 1; omega
  rw [h6] at hr
  linarith

theorem halvings_le {x : Flt} (h10 : x.exp ≤ 10) : x.expHalvings ≤ 13 := by
  unfold Flt.expHalvings
  split
  · omega
  · have : x.exp.toNat + 3 ≤ 13 := by omega
    exact le_trans (Nat.min_le_left _ _) this

theorem halvings_le_e (x : Flt) : x.expHalvings ≤ x.sem.e + 3 := by
  unfold Flt.expHalvings
  split
  · omega
  · exact Nat.min_le_right _ _

/-- with `exp < e` the guard bits cover the magnitude: `|x| ≤ 1 ∨ |x| < 2^(halvings - 2)` -/
theorem halvings_cover {x : Flt} (hlt : x.mag < (2:ℚ) ^ (x.exp + 1)) (he : x.exp + 1 ≤ x.sem.e) :
    x.mag ≤ 1 ∨ x.mag < (2:ℚ) ^ ((x.expHalvings : ℤ) - 2) := by
  unfold Flt.expHalvings
  split
  · left
    have : (2:ℚ) ^ (x.exp + 1) ≤ (2:ℚ) ^ (0:ℤ) := zpow_le_zpow_right₀ (by norm_num) (by omega)
    rw [zpow_zero] at this; linarith
  · right
    have hmin : Nat.min (x.exp.toNat + 3) (x.sem.e + 3) = x.exp.toNat + 3 :=
      Nat.min_eq_left (by omega)
    rw [hmin]
    refine lt_of_lt_of_le hlt (zpow_le_zpow_right₀ (by norm_num) ?_)
    push_cast; omega


/-- the number of squarings is covered by `H = exp + 3` (`0` for `exp < 0`) -/
def coverH (x : Flt) : ℕ := if x.exp < 0 then 0 else x.exp.toNat + 3

theorem coverH_le {x : Flt} (h10 : x.exp ≤ 10) : coverH x ≤ 13 := by
  unfold coverH; split <;> omega

theorem coverH_cover {x : Flt} (hlt : x.mag < (2:ℚ) ^ (x.exp + 1)) :
    x.mag ≤ 1 ∨ x.mag < (2:ℚ) ^ ((coverH x : ℤ) - 2) := by
  unfold coverH
  split
  · left
    have : (2:ℚ) ^ (x.exp + 1) ≤ (2:ℚ) ^ (0:ℤ) := zpow_le_zpow_right₀ (by norm_num) (by omega)
    rw [zpow_zero] at this; linarith
  · right
    refine lt_of_lt_of_le hlt (zpow_le_zpow_right₀ (by norm_num) ?_)
    push_cast; omega

/-- with `exp ≤ e` the guard bits are exactly `coverH` -/
theorem halvings_eq {x : Flt} (he : x.exp ≤ x.sem.e) : x.expHalvings = coverH x := by
  unfold Flt.expHalvings coverH
  split
  · rfl
  · exact Nat.min_eq_left (by omega)

/-- in every case at most four squarings are not covered by a guard bit (for `|x| ≤ 1024`, `E ≥ 5`) -/
theorem halvings_gap {x : Flt} (h10 : x.exp ≤ 10) (he5 : 5 ≤ x.sem.e) :
    3 * (coverH x / 3) ≤ x.expHalvings + 4 := by
  unfold Flt.expHalvings coverH
  split
  · omega
  · have hm : Nat.min (x.exp.toNat + 3) (x.sem.e + 3) = min (x.exp.toNat + 3) (x.sem.e + 3) := rfl
    rw [hm]; omega

/-! ### the range reduction in a working format -/

/-- `exp_range_reduce` in the working format `wfmt F h` (`h ≤ 13` guard bits, at most `g ≤ 4` of the
    `3⌊H/3⌋` squarings not covered): relative error at most `2^(g-p-7)`, `p` the precision of `F` -/
theorem rr_wfmt {F : Sem} (hF : F.WF) (hp : 8 ≤ F.p) (hdom : F.p ≤ 2 ^ (F.e - 1) - 2)
    (hrm : F.rm = .nte ∨ F.rm = .nta) {h H g : ℕ} (hh : h ≤ 13) (hH13 : H ≤ 13)
    (hHg : 3 * (H / 3) ≤ h + g) (hg : g ≤ 4) {z : Flt}
    (hz : PosN (wfmt F h) z) (hzlo : (2:ℚ) ^ (-((2 ^ (F.e - 1) + F.p : ℕ) : ℤ)) ≤ z.mag)
    (hzH : z.mag ≤ 1 ∨ z.mag < (2:ℚ) ^ ((H:ℤ) - 2)) (fuel : ℕ)
    (hfuel : C19.redBound z.exp + 1 ≤ fuel) :
    ∃ r : Flt, expRangeReduce fuel z = some r ∧ PosN (wfmt F h) r ∧
      |((r.mag : ℚ) : ℝ) - Real.exp (z.mag : ℝ)| ≤
        (2:ℝ) ^ ((g:ℤ) - (F.p:ℤ) - 7) * Real.exp (z.mag : ℝ) := by
  have C := rctx_wfmt hF hp hdom hrm hh hH13 (by omega) hz hzlo hzH
  obtain ⟨r, h1, h2, h3⟩ := rr_accuracy C fuel hfuel
  refine ⟨r, h1, h2, le_trans h3 ?_⟩
  have hgb := guard_bound (F := F) hp hh hHg
  have : ((((2 ^ (3 * (H / 3)) * (tN (wfmt F h) + 7) : ℕ) : ℚ) * u (wfmt F h) : ℚ) : ℝ) ≤
      (((2:ℚ) ^ ((g:ℤ) - (F.p:ℤ) - 7) : ℚ) : ℝ) := by exact_mod_cast hgb
  push_cast at this ⊢
  exact mul_le_mul_of_nonneg_right this (le_of_lt (Real.exp_pos _))

theorem posN_val {F : Sem} {r : Flt} (h : PosN F r) : r.val = r.mag := by
  rw [Flt.val_normal h.cat, h.sign]; rfl

/-- a cast of a positive value of a working format (same rounding mode) into `F` is the rounding
    of its magnitude -/
theorem cast_toRes {F G : Sem} (hF : F.WF) (hG : G.WF) (hGrm : G.rm = F.rm) {r : Flt}
    (hr : PosN G r) :
    (r.cast F).sem = F ∧ (r.cast F).toRes = Spec.round F F.rm false r.mag := by
  have hrc : r.cast F = r.castWithRm F F.rm := by unfold Flt.cast; rw [hr.sem, hGrm]
  rw [hrc]
  refine ⟨castWithRm_sem _ _ _, ?_⟩
  rw [C06.cast_correct r F F.rm (by rw [hr.sem]; exact hG) hF hr.can]
  simp only [Spec.cast, hr.cat, hr.sign]

/-- the exponent width is at least 5 -/
theorem e_ge_five {F : Sem} (hp : 8 ≤ F.p) (hdom : F.p ≤ 2 ^ (F.e - 1) - 2) : 5 ≤ F.e := by
  by_contra hc
  have : F.e - 1 ≤ 3 := by omega
  have : 2 ^ (F.e - 1) ≤ 2 ^ 3 := Nat.pow_le_pow_right (by norm_num) this
  omega

end Arp.C16.ExpAcc

namespace Arp.C16
open Arp Arp.SpecRound Arp.Sqrt Arp.RelErr Arp.ExpErr Arp.C16.ExpAcc

/-! ### positive arguments in the working format -/

/-- **positive arguments, before the final cast**: `exp x = (r.cast F)` for a positive value `r` of
    the working format with relative error `2^(-p-3)`, and `2^(-p-7)` when the exponent of `x` does
    not exceed the exponent width (every squaring has its guard bit) -/
theorem exp_pos_core (x : Flt) (hF : x.sem.WF) (hp : 8 ≤ x.sem.p)
    (hdom : x.sem.p ≤ 2 ^ (x.sem.e - 1) - 2) (hrm : x.sem.rm = .nte ∨ x.sem.rm = .nta)
    (hc : x.Canonical) (hn : x.cat = .normal) (hs : x.sign = false) (hx : x.mag ≤ 1024)
    (fuel : ℕ) (hfuel : C19.redBound x.exp + 1 ≤ fuel) :
    ∃ r, x.expFuel fuel = some (r.cast x.sem) ∧ PosN x.expSem r ∧
      |((r.mag : ℚ) : ℝ) - Real.exp ((x.mag : ℚ) : ℝ)| ≤
        (2:ℝ) ^ (-(x.sem.p:ℤ) - 3) * Real.exp ((x.mag : ℚ) : ℝ) ∧
      (x.exp ≤ x.sem.e → |((r.mag : ℚ) : ℝ) - Real.exp ((x.mag : ℚ) : ℝ)| ≤
        (2:ℝ) ^ (-(x.sem.p:ℤ) - 7) * Real.exp ((x.mag : ℚ) : ℝ)) := by
  have hxp : PosN x.sem x := ⟨rfl, hc, hn, hs⟩
  have h10 := exp_le_ten hF hc hn hx
  have hh := halvings_le h10
  have he5 := e_ge_five hp hdom
  set W := wfmt x.sem x.expHalvings with hWdef
  have hW : W.WF := wfmt_WF hF _
  obtain ⟨hz, hzm⟩ := widen_op hF hW hxp x.sem.rm (by rw [hWdef, wfmt_e]; omega)
    (by rw [hWdef, wfmt_p]; omega)
  have hzexp := C19.widen_exp_le x W x.sem.rm (by rw [hWdef, wfmt_e]; omega)
    (by rw [hWdef, wfmt_p]; omega) hF hW hn hc
  have hcast : x.cast W = x.castWithRm W x.sem.rm := rfl
  have hfuel' : C19.redBound (x.castWithRm W x.sem.rm).exp + 1 ≤ fuel :=
    le_trans (Nat.add_le_add_right (C19.redBound_mono hzexp) 1) hfuel
  have hexpA := Real.exp_pos ((x.mag : ℚ) : ℝ)
  by_cases hcov : x.exp ≤ x.sem.e
  · -- every squaring is covered
    obtain ⟨r, hr1, hr2, hr3⟩ := rr_wfmt (g := 0) hF hp hdom hrm hh (coverH_le h10)
      (by rw [halvings_eq hcov]; omega) (by omega) hz
      (by rw [hzm]; exact mag_lower hc hn)
      (by rw [hzm]; exact coverH_cover (posN_mag_lt hxp)) fuel hfuel'
    rw [hzm] at hr3
    have hr3' : |((r.mag : ℚ) : ℝ) - Real.exp ((x.mag : ℚ) : ℝ)| ≤
        (2:ℝ) ^ (-(x.sem.p:ℤ) - 7) * Real.exp ((x.mag : ℚ) : ℝ) := by
      have e : ((0:ℕ):ℤ) - (x.sem.p:ℤ) - 7 = -(x.sem.p:ℤ) - 7 := by push_cast; ring
      rw [e] at hr3; exact hr3
    refine ⟨r, ?_, hr2, le_trans hr3' ?_, fun _ => hr3'⟩
    · rw [expFuel_pos x fuel hn hs, expSem_eq, hcast, hr1]; rfl
    · exact mul_le_mul_of_nonneg_right (zpow_le_zpow_right₀ (by norm_num) (by omega))
        (le_of_lt hexpA)
  · obtain ⟨r, hr1, hr2, hr3⟩ := rr_wfmt (g := 4) hF hp hdom hrm hh (coverH_le h10)
      (halvings_gap h10 he5) (le_refl _) hz
      (by rw [hzm]; exact mag_lower hc hn)
      (by rw [hzm]; exact coverH_cover (posN_mag_lt hxp)) fuel hfuel'
    rw [hzm] at hr3
    have e : ((4:ℕ):ℤ) - (x.sem.p:ℤ) - 7 = -(x.sem.p:ℤ) - 3 := by push_cast; ring
    rw [e] at hr3
    refine ⟨r, ?_, hr2, hr3, fun h => absurd h hcov⟩
    rw [expFuel_pos x fuel hn hs, expSem_eq, hcast, hr1]; rfl

end Arp.C16

namespace Arp.C16.ExpAcc
open Arp Arp.SpecRound Arp.Sqrt Arp.RelErr Arp.ExpErr

/-- error of `fl(1 / fl(r₂))` against `1/a` when `r₂ = a(1 ± ε)` -/
theorem recip_err {a b ε : ℝ} {v r2 c d : ℚ} (ha : 0 < a) (hb0 : 0 < b) (hb1 : b ≤ 1)
    (hv0 : 0 ≤ v) (hvb : ((v:ℚ):ℝ) ≤ b / 256) (hεb : ε ≤ b / 256)
    (hr : |((r2:ℚ):ℝ) - a| ≤ ε * a) (hr0 : 0 < r2) (hc0 : 0 < c)
    (h1 : Near v 1 r2 c) (h2 : Near v 1 (1 / c) d) : |((d:ℚ):ℝ) - 1 / a| ≤ b * (1 / a) := by
  have hv256 : v ≤ 1 / 256 := by
    have : ((v:ℚ):ℝ) ≤ ((1 / 256 : ℚ) : ℝ) := by push_cast; linarith
    exact_mod_cast this
  have hv1 : v < 1 := by linarith
  have hn := (Near.div hv1 (by norm_num) hr0 (by norm_num) hc0 (Near.refl v 1) h1).trans hv1 h2
  have hrel := near_rel hv0 (by push_cast; linarith) (le_of_lt (one_div_pos.mpr hr0)) hn
  have hrelR : |((d:ℚ):ℝ) - 1 / ((r2:ℚ):ℝ)| ≤ 4 * ((v:ℚ):ℝ) * (1 / ((r2:ℚ):ℝ)) := by
    have : ((|d - 1 / r2| : ℚ) : ℝ) ≤ ((2 * ((0 + 1 + 1 : ℕ) : ℚ) * v * (1 / r2) : ℚ) : ℝ) := by
      exact_mod_cast hrel
    push_cast at this
    norm_num at this ⊢
    linarith
  set R : ℝ := ((r2:ℚ):ℝ) with hR
  have hR0 : 0 < R := by rw [hR]; exact_mod_cast hr0
  obtain ⟨hr1, hr2⟩ := abs_le.mp hr
  have hRlo : a / 2 ≤ R := by nlinarith
  set q : ℝ := 1 / R with hq
  have hq0 : 0 < q := one_div_pos.mpr hR0
  have hq2 : q ≤ 2 * (1 / a) := by
    rw [hq, mul_one_div, div_le_div_iff₀ hR0 ha]; linarith
  have hqa : |q - 1 / a| ≤ ε * q := by
    have e : q - 1 / a = (a - R) / (R * a) := by rw [hq]; field_simp
    rw [e, abs_div, abs_of_pos (mul_pos hR0 ha), div_le_iff₀ (mul_pos hR0 ha)]
    have e2 : ε * q * (R * a) = ε * a := by rw [hq]; field_simp
    rw [e2, abs_sub_comm]; exact hr
  have hvR0 : (0:ℝ) ≤ ((v:ℚ):ℝ) := by exact_mod_cast hv0
  have ha' : 0 < 1 / a := one_div_pos.mpr ha
  obtain ⟨g1, g2⟩ := abs_le.mp hrelR
  obtain ⟨g3, g4⟩ := abs_le.mp hqa
  have hsum : (4 * ((v:ℚ):ℝ) + ε) * q ≤ b * (1 / a) := by
    have h1 : 4 * ((v:ℚ):ℝ) + ε ≤ b / 2 := by linarith
    have h2 : (4 * ((v:ℚ):ℝ) + ε) * q ≤ b / 2 * (2 * (1 / a)) :=
      mul_le_mul h1 hq2 (le_of_lt hq0) (by linarith)
    linarith
  rw [abs_le]
  constructor <;> nlinarith

/-- the working format again satisfies the domain condition -/
theorem wfmt_dom {F : Sem} (hF : F.WF) (hp : 8 ≤ F.p) (hdom : F.p ≤ 2 ^ (F.e - 1) - 2) {h : ℕ}
    (hh : h ≤ 13) : (wfmt F h).p ≤ 2 ^ ((wfmt F h).e - 1) - 2 := by
  obtain ⟨_, _, _, l4⟩ := logPrecision_facts hp
  have he : 2 ≤ F.e := hF.1
  have hWe : (wfmt F h).e - 1 = (F.e - 1) + 10 := by rw [wfmt_e]; omega
  rw [hWe, pow_add, wfmt_p]
  have : (2:ℕ) ^ 10 = 1024 := by norm_num
  rw [this]
  generalize 2 ^ (F.e - 1) = t at *
  omega


theorem unit_nearest_eq {W : Sem} (hrm : W.rm = .nte ∨ W.rm = .nta) :
    unit W W.rm = (2:ℚ) ^ (-(W.p:ℤ)) := by
  rw [unit_nearest hrm]; unfold u
  rw [show (1:ℤ) - (W.p:ℤ) = -(W.p:ℤ) + 1 by ring, zpow_add_one₀ (by norm_num)]; ring

/-- `e^x ≤ 2^2048` for `x ≤ 1024` -/
theorem exp_le_two_pow {v : ℝ} (hv : v ≤ 1024) : Real.exp v ≤ (2:ℝ) ^ (2048:ℤ) := by
  have h1 : Real.exp v ≤ Real.exp 1024 := Real.exp_le_exp.mpr hv
  have h2 : Real.exp (1024:ℝ) = Real.exp 1 ^ 1024 := by
    rw [← Real.exp_nat_mul]; norm_num
  have h3 : Real.exp 1 ^ 1024 ≤ (4:ℝ) ^ 1024 :=
    pow_le_pow_left₀ (le_of_lt (Real.exp_pos 1)) (by have := Real.exp_one_lt_d9; linarith) 1024
  have h4 : (4:ℝ) ^ 1024 = (2:ℝ) ^ (2048:ℤ) := by
    rw [show (4:ℝ) = 2 ^ 2 by norm_num, ← pow_mul, show (2048:ℤ) = ((2 * 1024 : ℕ) : ℤ) by norm_num,
      zpow_natCast]
  exact le_trans h1 (by rw [h2]; exact le_trans h3 (le_of_eq h4))

end Arp.C16.ExpAcc

namespace Arp.C16
open Arp Arp.SpecRound Arp.Sqrt Arp.RelErr Arp.ExpErr Arp.C16.ExpAcc

/-- **negative arguments, before the final cast**: `exp x = (d.cast F)` for a positive value `d` of
    the working format with relative error `2^(-p-6)` (no condition on the size of `e^x`) -/
theorem exp_neg_core (x : Flt) (hF : x.sem.WF) (hp : 8 ≤ x.sem.p)
    (hdom : x.sem.p ≤ 2 ^ (x.sem.e - 1) - 2) (hrm : x.sem.rm = .nte ∨ x.sem.rm = .nta)
    (hc : x.Canonical) (hn : x.cat = .normal) (hs : x.sign = true) (hx : x.mag ≤ 1024)
    (fuel : ℕ) (hfuel : C19.redBound x.exp + 1 ≤ fuel) :
    ∃ d, x.expFuel fuel = some (d.cast x.sem) ∧ PosN x.expSem d ∧
      |((d.mag : ℚ) : ℝ) - 1 / Real.exp ((x.mag : ℚ) : ℝ)| ≤
        (2:ℝ) ^ (-(x.sem.p:ℤ) - 6) * (1 / Real.exp ((x.mag : ℚ) : ℝ)) := by
  have h10 := exp_le_ten hF hc hn hx
  have hh := halvings_le h10
  have he2 : 2 ≤ x.sem.e := hF.1
  -- the first working format and `y = |x|`
  set W := wfmt x.sem x.expHalvings with hWdef
  have hW : W.WF := wfmt_WF hF _
  have hWrm : W.rm = .nte ∨ W.rm = .nta := hrm
  have hWp : W.p = x.sem.p + (10 + x.expHalvings) + x.sem.logPrecision := rfl
  have hWe : W.e = x.sem.e + 10 := rfl
  obtain ⟨_, _, l3, _⟩ := logPrecision_facts hp
  obtain ⟨a1, a2, a3, a4, a5⟩ := C06.widen_lossless_normal x W x.sem.rm (by rw [hWe]; omega)
    (by rw [hWp]; omega) hF hW hn hc
  have hxexp := C19.widen_exp_le x W x.sem.rm (by rw [hWe]; omega) (by rw [hWp]; omega) hF hW hn hc
  have hcast : x.cast W = x.castWithRm W x.sem.rm := rfl
  set y := (x.cast W).neg with hydef
  have hy : PosN W y := ⟨a1, a3, a2, by rw [hydef, hcast]; show (!_) = false; rw [a4, hs]; rfl⟩
  have hym : y.mag = x.mag := a5
  have hyexp : y.exp ≤ x.exp := hxexp
  -- the second working format
  have hh2 : y.expHalvings ≤ 13 := halvings_le (le_trans hyexp h10)
  have hW2eq : y.expSem = wfmt W y.expHalvings := by rw [expSem_eq, hy.sem]
  set W2 := wfmt W y.expHalvings with hW2def
  have hW2 : W2.WF := wfmt_WF hW _
  have hW2p : W2.p = W.p + (10 + y.expHalvings) + W.logPrecision := rfl
  have hW2e : W2.e = W.e + 10 := rfl
  obtain ⟨hz, hzm⟩ := widen_op hW hW2 hy W.rm (by rw [hW2e]; omega) (by rw [hW2p]; omega)
  have hzexp := C19.widen_exp_le y W2 W.rm (by rw [hy.sem, hW2e]; omega)
    (by rw [hy.sem, hW2p]; omega) (by rw [hy.sem]; exact hW) hW2 hy.cat hy.can
  have hcast2 : y.cast y.expSem = y.castWithRm W2 W.rm := by
    unfold Flt.cast; rw [hW2eq, hy.sem]
  have hpW : 8 ≤ W.p := by rw [hWp]; omega
  have hzlo : (2:ℚ) ^ (-((2 ^ (W.e - 1) + W.p : ℕ) : ℤ)) ≤ (y.castWithRm W2 W.rm).mag := by
    rw [hzm]
    have := mag_lower (x := y) hy.can hy.cat
    rwa [hy.sem] at this
  have hycov : y.exp + 1 ≤ y.sem.e := by rw [hy.sem, hWe]; omega
  have hzH : (y.castWithRm W2 W.rm).mag ≤ 1 ∨
      (y.castWithRm W2 W.rm).mag < (2:ℚ) ^ ((y.expHalvings : ℤ) - 2) := by
    rw [hzm]
    exact halvings_cover (posN_mag_lt hy) hycov
  obtain ⟨r2, hr1, hr2, hr3⟩ := rr_wfmt (g := 0) hW hpW (wfmt_dom hF hp hdom hh) hWrm hh2 hh2
    (by omega) (by omega) hz hzlo hzH fuel (by
      have := C19.redBound_mono (le_trans hzexp hyexp); omega)
  rw [hzm, hym] at hr3
  have e0 : ((0:ℕ):ℤ) - (W.p:ℤ) - 7 = -(W.p:ℤ) - 7 := by push_cast; ring
  rw [e0] at hr3
  -- real bounds of `e^|x|`
  set A : ℝ := Real.exp ((x.mag : ℚ) : ℝ) with hA
  have hA1 : 1 ≤ A := by
    have := Real.add_one_le_exp ((x.mag : ℚ) : ℝ)
    have h0 : (0:ℝ) ≤ ((x.mag : ℚ) : ℝ) := by exact_mod_cast Flt.mag_nonneg x
    linarith
  have hAhi : A ≤ (2:ℝ) ^ (2048:ℤ) :=
    exp_le_two_pow (by have : ((x.mag : ℚ) : ℝ) ≤ ((1024 : ℚ) : ℝ) := by exact_mod_cast hx
                       push_cast at this; exact this)
  -- the size of `r2`
  set ε : ℝ := (2:ℝ) ^ (-(W.p:ℤ) - 7) with hε
  have hε0 : 0 < ε := by positivity
  have hεhalf : ε ≤ 1 / 2 := by
    calc ε ≤ (2:ℝ) ^ (-1:ℤ) := zpow_le_zpow_right₀ (by norm_num) (by omega)
      _ = 1 / 2 := by norm_num
  obtain ⟨k1, k2⟩ := abs_le.mp hr3
  have hr2lo : (1:ℚ) / 2 ≤ r2.mag := by
    have : ((1 / 2 : ℚ) : ℝ) ≤ ((r2.mag : ℚ) : ℝ) := by push_cast; nlinarith
    exact_mod_cast this
  have hr2hi : r2.mag ≤ (2:ℚ) ^ (2049:ℤ) := by
    have h1 : ((r2.mag : ℚ) : ℝ) ≤ (2:ℝ) ^ (2049:ℤ) := by
      rw [show (2049:ℤ) = 2048 + 1 by norm_num, zpow_add_one₀ (by norm_num)]
      have : ε * A ≤ 1 / 2 * A := mul_le_mul_of_nonneg_right hεhalf (by linarith)
      have hT : (0:ℝ) < (2:ℝ) ^ (2048:ℤ) := by positivity
      generalize (2:ℝ) ^ (2048:ℤ) = T at hAhi hT ⊢
      linarith
    have : ((r2.mag : ℚ) : ℝ) ≤ (((2:ℚ) ^ (2049:ℤ) : ℚ) : ℝ) := by
      rw [Rat.cast_zpow, Rat.cast_ofNat]; exact h1
    exact Rat.cast_le.mp this
  -- exponent range of `W`
  set t := 2 ^ (x.sem.e - 1) with ht
  have ht1 : 10 ≤ t := by omega
  have hpwW : 2 ^ (W.e - 1) = t * 1024 := by
    rw [show W.e - 1 = (x.sem.e - 1) + 10 by rw [hWe]; omega, pow_add, ← ht]; norm_num
  have hWemax : W.emax = ((t * 1024 : ℕ) : ℤ) - 1 := by
    rw [Sem.emax_eq (by rw [hWe]; omega), hpwW]
  have hWemin : W.emin = 2 - ((t * 1024 : ℕ) : ℤ) := by rw [Sem.emin_eq, hpwW]
  have hWp1 : 1 ≤ W.p := by omega
  have hmaxW := pow_emax_le_maxFinite (F := W) hWp1
  have hrW : InRange W r2.mag := by
    constructor
    · have : (2:ℚ) ^ W.emin ≤ (2:ℚ) ^ (-1:ℤ) :=
        zpow_le_zpow_right₀ (by norm_num) (by rw [hWemin]; push_cast; omega)
      have e : (2:ℚ) ^ (-1:ℤ) = 1 / 2 := by norm_num
      rw [e] at this; linarith
    · have : (2:ℚ) ^ (2049:ℤ) ≤ (2:ℚ) ^ W.emax :=
        zpow_le_zpow_right₀ (by norm_num) (by rw [hWemax]; push_cast; omega)
      linarith
  -- the cast to `W`
  obtain ⟨hcP, _, hcN⟩ := cast_op hW2 hW hr2 hrW
  have hrc : r2.cast W = r2.castWithRm W W.rm := by unfold Flt.cast; rw [hr2.sem]; rfl
  set c := r2.castWithRm W W.rm with hcdef
  have hv0 := unit_pos W W.rm
  have hvhalf : unit W W.rm ≤ 1 / 2 := by
    have := unit_le_u W W.rm; have := u_le_half hW; linarith
  have hc0 := hcP.mag_pos
  obtain ⟨n1, n2⟩ := hcN
  rw [pow_one] at n1 n2
  have hr2pos : 0 < r2.mag := by linarith
  have hclo : (1:ℚ) / 4 ≤ c.mag := by
    have : (1 / 2) * r2.mag ≤ (1 - unit W W.rm) * r2.mag :=
      mul_le_mul_of_nonneg_right (by linarith) (le_of_lt hr2pos)
    linarith
  have hchi : c.mag ≤ (2:ℚ) ^ (2050:ℤ) := by
    have h1 : c.mag ≤ 2 * r2.mag := by
      have : (1 / 2) * c.mag ≤ (1 - unit W W.rm) * c.mag :=
        mul_le_mul_of_nonneg_right (by linarith) (le_of_lt hc0)
      linarith
    rw [show (2050:ℤ) = 2049 + 1 by norm_num, zpow_add_one₀ (by norm_num)]
    linarith
  -- the reciprocal
  obtain ⟨h1P, h1m⟩ := ECf.one_posN hW
  have hq : (Flt.one W false).mag / c.mag = 1 / c.mag := by rw [h1m]
  have hrD : InRange W ((Flt.one W false).mag / c.mag) := by
    rw [hq]
    constructor
    · have h1 : (2:ℚ) ^ W.emin ≤ (2:ℚ) ^ (-2050:ℤ) :=
        zpow_le_zpow_right₀ (by norm_num) (by rw [hWemin]; push_cast; omega)
      have h2 : (2:ℚ) ^ (-2050:ℤ) = 1 / (2:ℚ) ^ (2050:ℤ) := by
        rw [zpow_neg, one_div]
      have h3 : 1 / (2:ℚ) ^ (2050:ℤ) ≤ 1 / c.mag :=
        div_le_div_of_nonneg_left (by norm_num) hc0 hchi
      linarith
    · have h1 : 1 / c.mag ≤ 4 := by
        rw [div_le_iff₀ hc0]; linarith
      have h2 : (2:ℚ) ^ (2:ℤ) ≤ (2:ℚ) ^ W.emax :=
        zpow_le_zpow_right₀ (by norm_num) (by rw [hWemax]; push_cast; omega)
      norm_num at h2
      linarith
  obtain ⟨hdP, _, hdN⟩ := div_op hW h1P hcP hrD
  rw [hq] at hdN
  set d := (Flt.one W false).div c with hddef
  refine ⟨d, ?_, hdP, ?_⟩
  · rw [expFuel_neg x fuel hn hs, expSem_eq, ← hWdef, ← hydef, hcast2, hr1]
    simp only [Option.map_some]
    rw [hrc]
  -- the error budget
  set b : ℝ := (2:ℝ) ^ (-(x.sem.p:ℤ) - 6) with hb
  have hb0 : 0 < b := by positivity
  have hb1 : b ≤ 1 := zpow_le_one_of_nonpos₀ (by norm_num) (by omega)
  have hb256 : b / 256 = (2:ℝ) ^ (-(x.sem.p:ℤ) - 14) := by
    rw [hb, show -(x.sem.p:ℤ) - 14 = (-(x.sem.p:ℤ) - 6) - 8 by ring,
      zpow_sub₀ (by norm_num : (2:ℝ) ≠ 0) (-(x.sem.p:ℤ) - 6) 8]; norm_num
  have hvb : ((unit W W.rm : ℚ) : ℝ) ≤ b / 256 := by
    rw [unit_nearest_eq hWrm, hb256]
    push_cast
    exact zpow_le_zpow_right₀ (by norm_num) (by rw [hWp]; push_cast; omega)
  have hεb : ε ≤ b / 256 := by
    rw [hb256]
    exact zpow_le_zpow_right₀ (by norm_num) (by rw [hWp]; push_cast; omega)
  exact recip_err (a := A) (b := b) (ε := ε) (by linarith) hb0 hb1 (le_of_lt hv0) hvb
    hεb hr3 (by linarith) hc0 ⟨by rw [pow_one]; exact n1,
      by rw [pow_one]; exact n2⟩ hdN

/-! ### the final cast -/

/-- what the final rounding guarantees about the result `res` for the exact value `t`, with the
    constant `c` of the relative error `c·2^-p` before the rounding (see `final_round_gen`):
    * `+∞` only if `t > maxFinite·(1 - 2^-p)`, and always if `t ≥ 2^(emax+1)`;
    * `+0` only if `t` is below the smallest subnormal `2^(emin-p+1)`;
    * otherwise a canonical positive finite non-zero number within `1/2 + c` ulp of `t`, the ulp
      being that of any binade `[2^k, 2^(k+1))`, `k ≥ emin`, that bounds both `t` and the result;
      the result is a normal number if `t ≥ 2^emin`. -/
def RoundSpec (F : Sem) (res : Flt) (t c : ℝ) : Prop :=
  ((res.cat = .inf ∧ res.sign = false ∧
      ((maxFinite F : ℚ) : ℝ) * (1 - (2:ℝ) ^ (-(F.p:ℤ))) < t) ∨
    (res.cat = .zero ∧ res.sign = false ∧ t < (2:ℝ) ^ (F.emin - ((F.p:ℤ) - 1))) ∨
    (PosN F res ∧
      (∀ k : ℤ, F.emin ≤ k → t < (2:ℝ) ^ (k + 1) → ((res.mag : ℚ) : ℝ) < (2:ℝ) ^ (k + 1) →
        |((res.mag : ℚ) : ℝ) - t| ≤ (1 / 2 + c) * (2:ℝ) ^ (k - ((F.p:ℤ) - 1))) ∧
      ((2:ℝ) ^ F.emin ≤ t → 2 ^ (F.p - 1) ≤ res.mant))) ∧
  ((2:ℝ) ^ (F.emax + 1) ≤ t → res.cat = .inf)

/-- the final cast of a working-format value with relative error `c·2^-p` -/
theorem roundSpec_cast {F G : Sem} (hF : F.WF) (hrm : F.rm = .nte ∨ F.rm = .nta) (hG : G.WF)
    (hGrm : G.rm = F.rm) {r : Flt} (hr : PosN G r) {t c : ℝ} (ht0 : 0 < t) (hc0 : 0 ≤ c)
    (hc8 : c ≤ 1 / 8)
    (herr : |((r.mag : ℚ) : ℝ) - t| ≤ c * (2:ℝ) ^ (-(F.p:ℤ)) * t) :
    RoundSpec F (r.cast F) t c := by
  obtain ⟨hsem, hres⟩ := cast_toRes hF hG hGrm hr
  exact final_round_gen hF hrm hsem hres ht0 hc0 hc8 herr

theorem exp_two_pow_m3 (p : ℕ) : (2:ℝ) ^ (-(p:ℤ) - 3) = 1 / 8 * (2:ℝ) ^ (-(p:ℤ)) := by
  rw [zpow_sub₀ (by norm_num : (2:ℝ) ≠ 0), show (2:ℝ) ^ (3:ℤ) = 8 by norm_num]; ring

theorem exp_two_pow_m6 (p : ℕ) : (2:ℝ) ^ (-(p:ℤ) - 6) = 1 / 64 * (2:ℝ) ^ (-(p:ℤ)) := by
  rw [zpow_sub₀ (by norm_num : (2:ℝ) ≠ 0), show (2:ℝ) ^ (6:ℤ) = 64 by norm_num]; ring

theorem exp_two_pow_m7 (p : ℕ) : (2:ℝ) ^ (-(p:ℤ) - 7) = 1 / 128 * (2:ℝ) ^ (-(p:ℤ)) := by
  rw [zpow_sub₀ (by norm_num : (2:ℝ) ≠ 0), show (2:ℝ) ^ (7:ℤ) = 128 by norm_num]; ring

/-- **C16: `exp` on every finite non-zero operand with `|x| ≤ 1024`** (nearest modes,
    `8 ≤ p ≤ 2^(E-1) - 2`): the result satisfies `RoundSpec` with the constant `1/8`, and with the
    constant `1/64` for negative operands and for positive operands whose exponent does not exceed
    the exponent width `E` (in particular whenever `e^x` is finite in the format). -/
theorem exp_all (x : Flt) (hF : x.sem.WF) (hp : 8 ≤ x.sem.p)
    (hdom : x.sem.p ≤ 2 ^ (x.sem.e - 1) - 2) (hrm : x.sem.rm = .nte ∨ x.sem.rm = .nta)
    (hc : x.Canonical) (hn : x.cat = .normal) (hx : |x.val| ≤ 1024)
    (fuel : ℕ) (hfuel : C19.redBound x.exp + 1 ≤ fuel) :
    ∃ r, x.expFuel fuel = some r ∧ r.Canonical ∧ r.sem = x.sem ∧
      RoundSpec x.sem r (Real.exp ((x.val : ℚ) : ℝ)) (1 / 8) ∧
      ((x.sign = true ∨ x.exp ≤ x.sem.e) →
        RoundSpec x.sem r (Real.exp ((x.val : ℚ) : ℝ)) (1 / 64)) := by
  have hW : x.expSem.WF := wfmt_WF hF _
  have hWrm : x.expSem.rm = x.sem.rm := rfl
  have h3 := exp_two_pow_m3 x.sem.p
  have h6 := exp_two_pow_m6 x.sem.p
  have h7 := exp_two_pow_m7 x.sem.p
  have hapos : (0:ℝ) < (2:ℝ) ^ (-(x.sem.p:ℤ)) := by positivity
  cases hs : x.sign
  · have hxp : PosN x.sem x := ⟨rfl, hc, hn, hs⟩
    have hval : x.val = x.mag := posN_val hxp
    rw [hval] at hx ⊢
    rw [abs_of_nonneg (Flt.mag_nonneg x)] at hx
    obtain ⟨r, hr1, hr2, e3, e7⟩ := exp_pos_core x hF hp hdom hrm hc hn hs hx fuel hfuel
    have ht0 := Real.exp_pos ((x.mag : ℚ) : ℝ)
    obtain ⟨hcan, hsem⟩ := expFuel_canonical fuel x _ hF hc hr1
    refine ⟨r.cast x.sem, hr1, hcan, hsem, ?_, fun hcov => ?_⟩
    · exact roundSpec_cast hF hrm hW hWrm hr2 ht0 (by norm_num) (le_refl _)
        (by rw [h3] at e3; linarith)
    · have hcov' : x.exp ≤ x.sem.e := by
        rcases hcov with h | h
        · exact absurd h (by simp)
        · exact h
      have e7' := e7 hcov'
      rw [h7] at e7'
      refine roundSpec_cast hF hrm hW hWrm hr2 ht0 (by norm_num) (by norm_num) ?_
      have : 1 / 128 * (2:ℝ) ^ (-(x.sem.p:ℤ)) * Real.exp ((x.mag : ℚ) : ℝ) ≤
          1 / 64 * (2:ℝ) ^ (-(x.sem.p:ℤ)) * Real.exp ((x.mag : ℚ) : ℝ) := by
        apply mul_le_mul_of_nonneg_right _ (le_of_lt ht0)
        nlinarith
      linarith
  · have hval : x.val = -x.mag := by rw [Flt.val_normal hn, hs]; rfl
    rw [hval] at hx ⊢
    rw [abs_neg, abs_of_nonneg (Flt.mag_nonneg x)] at hx
    obtain ⟨d, hd1, hd2, e6⟩ := exp_neg_core x hF hp hdom hrm hc hn hs hx fuel hfuel
    have hexpneg : Real.exp (((-x.mag : ℚ)) : ℝ) = 1 / Real.exp ((x.mag : ℚ) : ℝ) := by
      rw [one_div, ← Real.exp_neg]; push_cast; rfl
    rw [hexpneg]
    have ht0 : 0 < 1 / Real.exp ((x.mag : ℚ) : ℝ) := one_div_pos.mpr (Real.exp_pos _)
    obtain ⟨hcan, hsem⟩ := expFuel_canonical fuel x _ hF hc hd1
    rw [h6] at e6
    have h64 := roundSpec_cast hF hrm hW hWrm hd2 ht0 (by norm_num) (by norm_num) e6
    refine ⟨d.cast x.sem, hd1, hcan, hsem, ?_, fun _ => h64⟩
    refine roundSpec_cast hF hrm hW hWrm hd2 ht0 (by norm_num) (le_refl _) ?_
    have : 1 / 64 * (2:ℝ) ^ (-(x.sem.p:ℤ)) * (1 / Real.exp ((x.mag : ℚ) : ℝ)) ≤
        1 / 8 * (2:ℝ) ^ (-(x.sem.p:ℤ)) * (1 / Real.exp ((x.mag : ℚ) : ℝ)) := by
      apply mul_le_mul_of_nonneg_right _ (le_of_lt ht0)
      nlinarith
    linarith

/-- `res` is within `c` ulps of the real number `t`: the ulp is that of any binade
    `[2^k, 2^(k+1))`, `k ≥ emin` (below `2^emin` the spacing is that of the binade `emin`), that
    bounds both `t` and `res` -/
def WithinUlps (res : Flt) (t : ℝ) (c : ℝ) : Prop :=
  ∀ k : ℤ, res.sem.emin ≤ k → t < (2:ℝ) ^ (k + 1) → ((res.val : ℚ) : ℝ) < (2:ℝ) ^ (k + 1) →
    |((res.val : ℚ) : ℝ) - t| ≤ c * (2:ℝ) ^ (k - ((res.sem.p : ℤ) - 1))

/-! ### Stage 5: the combined theorem -/

/-- one ulp of the binade of the positive real `t` in the format `F`: `2^(⌊log₂ t⌋ - (p - 1))` -/
noncomputable def ulpAt (F : Sem) (t : ℝ) : ℝ := (2:ℝ) ^ (Int.log 2 t - ((F.p:ℤ) - 1))

/-- `WithinUlps` at the binade of the larger of the two numbers -/
theorem WithinUlps.at_max {res : Flt} {t c : ℝ} (h : WithinUlps res t c)
    (ht : (2:ℝ) ^ res.sem.emin ≤ t) :
    |((res.val : ℚ) : ℝ) - t| ≤ c * ulpAt res.sem (max t ((res.val : ℚ) : ℝ)) := by
  have hlt := Int.lt_zpow_succ_log_self (b := 2) (by norm_num) (max t ((res.val : ℚ) : ℝ))
  rw [Nat.cast_ofNat] at hlt
  have hk : res.sem.emin ≤ Int.log 2 (max t ((res.val : ℚ) : ℝ)) := by
    have h1 : (2:ℝ) ^ res.sem.emin < (2:ℝ) ^ (Int.log 2 (max t ((res.val : ℚ) : ℝ)) + 1) :=
      lt_of_le_of_lt (le_trans ht (le_max_left _ _)) hlt
    have := (zpow_lt_zpow_iff_right₀ (by norm_num : (1:ℝ) < 2)).mp h1
    omega
  exact h _ hk (lt_of_le_of_lt (le_max_left _ _) hlt) (lt_of_le_of_lt (le_max_right _ _) hlt)

/-- **C16, accuracy of `exp` (both signs), explicit-binade form, subnormal results included.**
    In the two nearest modes, for a format with `8 ≤ p ≤ 2^(E-1) - 2`, a canonical finite non-zero
    `x` with `|x| ≤ 1024` whose exponential lies between the smallest subnormal `2^(emin-p+1)` and
    `maxFinite·(1 - 2^-p)`: `exp` returns (with `⌈(exp+1)/3⌉ + 1` units of fuel) a canonical positive
    finite non-zero number of the same format within `33/64` ulp of `e^x`, the ulp being that of any
    binade `[2^k, 2^(k+1))`, `k ≥ emin`, containing or above both numbers; and the result is a
    normal (not subnormal) number when `e^x ≥ 2^emin`. -/
theorem exp_accuracy_binade (x : Flt) (hF : x.sem.WF) (hp : 8 ≤ x.sem.p)
    (hdom : x.sem.p ≤ 2 ^ (x.sem.e - 1) - 2) (hrm : x.sem.rm = .nte ∨ x.sem.rm = .nta)
    (hc : x.Canonical) (hn : x.cat = .normal) (hx : |x.val| ≤ 1024)
    (hrange : (2:ℝ) ^ (x.sem.emin - ((x.sem.p:ℤ) - 1)) ≤ Real.exp ((x.val : ℚ) : ℝ) ∧
      Real.exp ((x.val : ℚ) : ℝ) ≤ ((maxFinite x.sem : ℚ) : ℝ) * (1 - (2:ℝ) ^ (-(x.sem.p:ℤ))))
    (fuel : ℕ) (hfuel : C19.redBound x.exp + 1 ≤ fuel) :
    ∃ r, x.expFuel fuel = some r ∧ PosN x.sem r ∧
      WithinUlps r (Real.exp ((x.val : ℚ) : ℝ)) (33 / 64) ∧
      ((2:ℝ) ^ x.sem.emin ≤ Real.exp ((x.val : ℚ) : ℝ) → 2 ^ (x.sem.p - 1) ≤ r.mant) := by
  obtain ⟨r, h1, _, hsem, _, h64⟩ := exp_all x hF hp hdom hrm hc hn hx fuel hfuel
  -- the guard bits cover the operand
  have hcov : x.sign = true ∨ x.exp ≤ x.sem.e := by
    cases hs : x.sign
    · right
      have hxp : PosN x.sem x := ⟨rfl, hc, hn, hs⟩
      have hval : x.val = x.mag := posN_val hxp
      rw [hval] at hrange
      have hMF : Real.exp ((x.mag : ℚ) : ℝ) < (2:ℝ) ^ (x.sem.emax + 1) := by
        have h1 : ((maxFinite x.sem : ℚ) : ℝ) < (2:ℝ) ^ (x.sem.emax + 1) := by
          have := maxFinite_lt_sr x.sem
          have h2 : ((maxFinite x.sem : ℚ) : ℝ) < (((2:ℚ) ^ (x.sem.emax + 1) : ℚ) : ℝ) := by
            exact_mod_cast this
          push_cast at h2; exact h2
        have h2 : (0:ℝ) < (2:ℝ) ^ (-(x.sem.p:ℤ)) := by positivity
        have h3 : (0:ℝ) ≤ ((maxFinite x.sem : ℚ) : ℝ) := by
          have : (0:ℚ) ≤ maxFinite x.sem := (maxFinite_isRep hF).nonneg
          exact_mod_cast this
        nlinarith [hrange.2]
      have := exp_lt_e hF hc hn hMF
      omega
    · left; rfl
  obtain ⟨hcases, _⟩ := h64 hcov
  rcases hcases with ⟨_, _, hgt⟩ | ⟨_, _, hlt⟩ | ⟨hpos, hk, hnorm⟩
  · exact absurd hrange.2 (not_le.mpr hgt)
  · exact absurd hrange.1 (not_le.mpr hlt)
  · refine ⟨r, h1, hpos, ?_, hnorm⟩
    intro k h0 h1' h2
    rw [posN_val hpos] at h2 ⊢
    rw [hsem] at h0 ⊢
    have := hk k h0 h1' h2
    norm_num at this ⊢
    exact this

theorem exp_smallest_subnormal_le (F : Sem) (hF : F.WF) :
    (2:ℝ) ^ (F.emin - ((F.p:ℤ) - 1)) ≤ (2:ℝ) ^ F.emin :=
  zpow_le_zpow_right₀ (by norm_num) (by have := hF.2; omega)

/-- **C16, accuracy of `exp`** in the form of the work package: for `e^x` inside the normal range
    the result is a positive NORMAL number (`cat = normal`, i.e. finite and non-zero, and
    `2^(p-1) ≤ mant`, i.e. not subnormal) within one ulp — indeed `33/64` ulp — of `e^x`, one ulp
    being that of the binade of the larger of `e^x` and the result. -/
theorem exp_accuracy (x : Flt) (hF : x.sem.WF) (hp : 8 ≤ x.sem.p)
    (hdom : x.sem.p ≤ 2 ^ (x.sem.e - 1) - 2) (hrm : x.sem.rm = .nte ∨ x.sem.rm = .nta)
    (hc : x.Canonical) (hn : x.cat = .normal) (hx : |x.val| ≤ 1024)
    (hrange : (2:ℝ) ^ x.sem.emin ≤ Real.exp ((x.val : ℚ) : ℝ) ∧
      Real.exp ((x.val : ℚ) : ℝ) ≤ ((maxFinite x.sem : ℚ) : ℝ) * (1 - (2:ℝ) ^ (-(x.sem.p:ℤ))))
    (fuel : ℕ) (hfuel : C19.redBound x.exp + 1 ≤ fuel) :
    ∃ r, x.expFuel fuel = some r ∧ r.cat = .normal ∧ r.sign = false ∧ r.Canonical ∧
      r.sem = x.sem ∧ 2 ^ (x.sem.p - 1) ≤ r.mant ∧
      |((r.val : ℚ) : ℝ) - Real.exp ((x.val : ℚ) : ℝ)| ≤
        33 / 64 * ulpAt x.sem (max (Real.exp ((x.val : ℚ) : ℝ)) ((r.val : ℚ) : ℝ)) ∧
      |((r.val : ℚ) : ℝ) - Real.exp ((x.val : ℚ) : ℝ)| ≤
        ulpAt x.sem (max (Real.exp ((x.val : ℚ) : ℝ)) ((r.val : ℚ) : ℝ)) := by
  obtain ⟨r, h1, h2, h3, h5⟩ := exp_accuracy_binade x hF hp hdom hrm hc hn hx
    ⟨le_trans (exp_smallest_subnormal_le x.sem hF) hrange.1, hrange.2⟩ fuel hfuel
  have h4 := h3.at_max (by rw [h2.sem]; exact hrange.1)
  rw [h2.sem] at h4
  refine ⟨r, h1, h2.cat, h2.sign, h2.can, h2.sem, h5 hrange.1, h4, le_trans h4 ?_⟩
  have : (0:ℝ) < ulpAt x.sem (max (Real.exp ((x.val : ℚ) : ℝ)) ((r.val : ℚ) : ℝ)) := by
    unfold ulpAt; positivity
  linarith

/-! ### Stage 6: the overflow / underflow clause (contrapositive form)

For `|x| ≤ 1024` the result can be an infinity, a zero (or a NaN) only when `e^x` is outside
`[2^(emin-p+1), maxFinite·(1 - 2^-p)]`, i.e. below the smallest subnormal or within one ulp of
(or beyond) the largest finite number; and it can be a subnormal number only when `e^x < 2^emin`. -/

/-- `maxFinite·2^-p` is less than one ulp of the top binade: the upper end of `hrange` is within an
    ulp of the largest finite number -/
theorem exp_top_margin_lt_ulp (F : Sem) : maxFinite F * (2:ℚ) ^ (-(F.p:ℤ)) < F.ulp F.emax := by
  have h1 := maxFinite_lt_sr F
  have h2 : (2:ℚ) ^ (F.emax + 1) * (2:ℚ) ^ (-(F.p:ℤ)) = F.ulp F.emax := by
    rw [Sem.ulp_def, ← zpow_add₀ (by norm_num : (2:ℚ) ≠ 0)]; congr 1; ring
  rw [← h2]
  exact mul_lt_mul_of_pos_right h1 (by positivity)

/-- **the result is not finite-and-non-zero only outside the range**: if `exp` returns a zero, an
    infinity or a NaN for a finite non-zero `|x| ≤ 1024`, then `e^x` is below the smallest
    subnormal or above `maxFinite·(1 - 2^-p)` (which is within one ulp of `maxFinite`). -/
theorem exp_special_only_outside (x : Flt) (hF : x.sem.WF) (hp : 8 ≤ x.sem.p)
    (hdom : x.sem.p ≤ 2 ^ (x.sem.e - 1) - 2) (hrm : x.sem.rm = .nte ∨ x.sem.rm = .nta)
    (hc : x.Canonical) (hn : x.cat = .normal) (hx : |x.val| ≤ 1024)
    (fuel : ℕ) (hfuel : C19.redBound x.exp + 1 ≤ fuel) (r : Flt) (hr : x.expFuel fuel = some r)
    (hspecial : r.cat ≠ .normal) :
    Real.exp ((x.val : ℚ) : ℝ) < (2:ℝ) ^ (x.sem.emin - ((x.sem.p:ℤ) - 1)) ∨
      ((maxFinite x.sem : ℚ) : ℝ) * (1 - (2:ℝ) ^ (-(x.sem.p:ℤ))) < Real.exp ((x.val : ℚ) : ℝ) := by
  by_contra hcon
  rw [not_or, not_lt, not_lt] at hcon
  obtain ⟨r', h1, h2, _⟩ := exp_accuracy_binade x hF hp hdom hrm hc hn hx hcon fuel hfuel
  rw [hr] at h1
  injection h1 with h1
  exact hspecial (by rw [h1]; exact h2.cat)

/-- **the result is subnormal only below the normal range**: if `exp` returns a subnormal number
    (or anything that is not a normal number) for `|x| ≤ 1024`, then `e^x < 2^emin` or
    `e^x > maxFinite·(1 - 2^-p)`. -/
theorem exp_subnormal_only_below (x : Flt) (hF : x.sem.WF) (hp : 8 ≤ x.sem.p)
    (hdom : x.sem.p ≤ 2 ^ (x.sem.e - 1) - 2) (hrm : x.sem.rm = .nte ∨ x.sem.rm = .nta)
    (hc : x.Canonical) (hn : x.cat = .normal) (hx : |x.val| ≤ 1024)
    (fuel : ℕ) (hfuel : C19.redBound x.exp + 1 ≤ fuel) (r : Flt) (hr : x.expFuel fuel = some r)
    (hsub : r.mant < 2 ^ (x.sem.p - 1)) :
    Real.exp ((x.val : ℚ) : ℝ) < (2:ℝ) ^ x.sem.emin ∨
      ((maxFinite x.sem : ℚ) : ℝ) * (1 - (2:ℝ) ^ (-(x.sem.p:ℤ))) < Real.exp ((x.val : ℚ) : ℝ) := by
  by_contra hcon
  rw [not_or, not_lt, not_lt] at hcon
  obtain ⟨r', h1, _, _, h4⟩ := exp_accuracy_binade x hF hp hdom hrm hc hn hx
    ⟨le_trans (exp_smallest_subnormal_le x.sem hF) hcon.1, hcon.2⟩ fuel hfuel
  rw [hr] at h1
  injection h1 with h1
  have := h4 hcon.1
  rw [← h1] at this
  omega

/-- **C16, the complete clause for finite non-zero operands.**  In the two nearest modes, for a
    format with `8 ≤ p ≤ 2^(E-1) - 2` and every canonical finite non-zero `x` with `|x| ≤ 1024`
    (no condition on the size of `e^x`), `exp x` is a canonical value of the same format with a clear
    sign bit, and it is
    * `+∞` only if `e^x > maxFinite·(1 - 2^-p)` (within one ulp of, or beyond, the largest finite
      number) — and always if `e^x ≥ 2^(emax+1)`;
    * `+0` only if `e^x` is below the smallest subnormal `2^(emin-p+1)`;
    * otherwise a finite non-zero number within `5/8` ulp of `e^x` (`WithinUlps`: the ulp of any
      binade `[2^k, 2^(k+1))`, `k ≥ emin`, that bounds both numbers). -/
theorem exp_total (x : Flt) (hF : x.sem.WF) (hp : 8 ≤ x.sem.p)
    (hdom : x.sem.p ≤ 2 ^ (x.sem.e - 1) - 2) (hrm : x.sem.rm = .nte ∨ x.sem.rm = .nta)
    (hc : x.Canonical) (hn : x.cat = .normal) (hx : |x.val| ≤ 1024)
    (fuel : ℕ) (hfuel : C19.redBound x.exp + 1 ≤ fuel) :
    ∃ r, x.expFuel fuel = some r ∧ r.Canonical ∧ r.sem = x.sem ∧ r.sign = false ∧
      ((r.cat = .inf ∧ ((maxFinite x.sem : ℚ) : ℝ) * (1 - (2:ℝ) ^ (-(x.sem.p:ℤ))) <
          Real.exp ((x.val : ℚ) : ℝ)) ∨
        (r.cat = .zero ∧
          Real.exp ((x.val : ℚ) : ℝ) < (2:ℝ) ^ (x.sem.emin - ((x.sem.p:ℤ) - 1))) ∨
        (r.cat = .normal ∧ WithinUlps r (Real.exp ((x.val : ℚ) : ℝ)) (5 / 8))) ∧
      ((2:ℝ) ^ (x.sem.emax + 1) ≤ Real.exp ((x.val : ℚ) : ℝ) → r.cat = .inf) := by
  obtain ⟨r, h1, hcan, hsem, ⟨hcases, hbig⟩, _⟩ := exp_all x hF hp hdom hrm hc hn hx fuel hfuel
  refine ⟨r, h1, hcan, hsem, ?_, ?_, hbig⟩
  · rcases hcases with ⟨_, h, _⟩ | ⟨_, h, _⟩ | ⟨h, _, _⟩
    · exact h
    · exact h
    · exact h.sign
  · rcases hcases with ⟨h, _, hgt⟩ | ⟨h, _, hlt⟩ | ⟨hpos, hk, _⟩
    · exact Or.inl ⟨h, hgt⟩
    · exact Or.inr (Or.inl ⟨h, hlt⟩)
    · refine Or.inr (Or.inr ⟨hpos.cat, ?_⟩)
      intro k h0 h1' h2
      rw [posN_val hpos] at h2 ⊢
      rw [hsem] at h0 ⊢
      have := hk k h0 h1' h2
      norm_num at this ⊢
      exact this

/-- **Stage 3: positive arguments** (instance of `exp_accuracy_binade`) -/
theorem exp_accuracy_pos (x : Flt) (hF : x.sem.WF) (hp : 8 ≤ x.sem.p)
    (hdom : x.sem.p ≤ 2 ^ (x.sem.e - 1) - 2) (hrm : x.sem.rm = .nte ∨ x.sem.rm = .nta)
    (hc : x.Canonical) (hn : x.cat = .normal) (_hs : x.sign = false) (hx : |x.val| ≤ 1024)
    (hhi : Real.exp ((x.val : ℚ) : ℝ) ≤
      ((maxFinite x.sem : ℚ) : ℝ) * (1 - (2:ℝ) ^ (-(x.sem.p:ℤ))))
    (fuel : ℕ) (hfuel : C19.redBound x.exp + 1 ≤ fuel) :
    ∃ r, x.expFuel fuel = some r ∧ PosN x.sem r ∧ 2 ^ (x.sem.p - 1) ≤ r.mant ∧
      WithinUlps r (Real.exp ((x.val : ℚ) : ℝ)) (33 / 64) := by
  -- for a positive argument `e^x ≥ 1 ≥ 2^emin` holds automatically
  have h1 : (2:ℝ) ^ x.sem.emin ≤ Real.exp ((x.val : ℚ) : ℝ) := by
    have hv : (0:ℝ) ≤ ((x.val : ℚ) : ℝ) := by
      have : x.val = x.mag := posN_val ⟨rfl, hc, hn, _hs⟩
      rw [this]; exact_mod_cast Flt.mag_nonneg x
    have h2 : (2:ℝ) ^ x.sem.emin ≤ 1 :=
      zpow_le_one_of_nonpos₀ (by norm_num) (Sem.emin_le_zero hF)
    have := Real.add_one_le_exp ((x.val : ℚ) : ℝ)
    linarith
  obtain ⟨r, a, b, c, d⟩ := exp_accuracy_binade x hF hp hdom hrm hc hn hx
    ⟨le_trans (exp_smallest_subnormal_le x.sem hF) h1, hhi⟩ fuel hfuel
  exact ⟨r, a, b, d h1, c⟩

/-- **Stage 4: negative arguments** (instance of `exp_accuracy_binade`): `e^x ≤ 1` is finite, only the
    lower end of the range matters; below `2^emin` the result may be subnormal -/
theorem exp_accuracy_neg (x : Flt) (hF : x.sem.WF) (hp : 8 ≤ x.sem.p)
    (hdom : x.sem.p ≤ 2 ^ (x.sem.e - 1) - 2) (hrm : x.sem.rm = .nte ∨ x.sem.rm = .nta)
    (hc : x.Canonical) (hn : x.cat = .normal) (hs : x.sign = true) (hx : |x.val| ≤ 1024)
    (hlo : (2:ℝ) ^ (x.sem.emin - ((x.sem.p:ℤ) - 1)) ≤ Real.exp ((x.val : ℚ) : ℝ))
    (fuel : ℕ) (hfuel : C19.redBound x.exp + 1 ≤ fuel) :
    ∃ r, x.expFuel fuel = some r ∧ PosN x.sem r ∧
      WithinUlps r (Real.exp ((x.val : ℚ) : ℝ)) (33 / 64) ∧
      ((2:ℝ) ^ x.sem.emin ≤ Real.exp ((x.val : ℚ) : ℝ) → 2 ^ (x.sem.p - 1) ≤ r.mant) := by
  -- for a negative argument `e^x ≤ 1 ≤ maxFinite·(1 - 2^-p)` holds automatically
  have h2 : Real.exp ((x.val : ℚ) : ℝ) ≤
      ((maxFinite x.sem : ℚ) : ℝ) * (1 - (2:ℝ) ^ (-(x.sem.p:ℤ))) := by
    have hv : ((x.val : ℚ) : ℝ) ≤ 0 := by
      have : x.val = -x.mag := by rw [Flt.val_normal hn, hs]; rfl
      rw [this]; push_cast
      have : (0:ℝ) ≤ ((x.mag : ℚ) : ℝ) := by exact_mod_cast Flt.mag_nonneg x
      linarith
    have he1 : Real.exp ((x.val : ℚ) : ℝ) ≤ 1 := Real.exp_le_one_iff.mpr hv
    have hm : (2:ℝ) ≤ ((maxFinite x.sem : ℚ) : ℝ) := by
      have h1 := pow_emax_le_maxFinite (F := x.sem) (by have := hF.2; omega)
      have h3 : (2:ℚ) ^ (1:ℤ) ≤ (2:ℚ) ^ x.sem.emax :=
        zpow_le_zpow_right₀ (by norm_num) (by have := Sem.emax_pos hF; omega)
      have : ((2:ℚ) : ℝ) ≤ ((maxFinite x.sem : ℚ) : ℝ) := by
        have h4 : (2:ℚ) ≤ maxFinite x.sem := by norm_num at h3; linarith
        exact_mod_cast h4
      push_cast at this; exact this
    have ha : (2:ℝ) ^ (-(x.sem.p:ℤ)) ≤ 1 / 2 := by
      calc (2:ℝ) ^ (-(x.sem.p:ℤ)) ≤ (2:ℝ) ^ (-1:ℤ) :=
            zpow_le_zpow_right₀ (by norm_num) (by omega)
        _ = 1 / 2 := by norm_num
    nlinarith
  exact exp_accuracy_binade x hF hp hdom hrm hc hn hx ⟨hlo, h2⟩ fuel hfuel

/-! ### the hypotheses are satisfiable: the presets, and `exp 1` in binary16 -/

example : FP16.WF ∧ 8 ≤ FP16.p ∧ FP16.p ≤ 2 ^ (FP16.e - 1) - 2 := by decide
example : FP32.WF ∧ 8 ≤ FP32.p ∧ FP32.p ≤ 2 ^ (FP32.e - 1) - 2 := by decide
example : FP64.WF ∧ 8 ≤ FP64.p ∧ FP64.p ≤ 2 ^ (FP64.e - 1) - 2 := by decide
example : FP128.WF ∧ 8 ≤ FP128.p ∧ FP128.p ≤ 2 ^ (FP128.e - 1) - 2 := by decide
example : FP256.WF ∧ 8 ≤ FP256.p ∧ FP256.p ≤ 2 ^ (FP256.e - 1) - 2 := by decide

/-- `exp(1.0)` in binary16 with three units of fuel: a normal number within `33/64` ulp of `e` -/
example : ∃ r, (Flt.one FP16 false).expFuel 3 = some r ∧ r.cat = .normal ∧ r.sign = false ∧
    2 ^ (FP16.p - 1) ≤ r.mant ∧
    |((r.val : ℚ) : ℝ) - Real.exp 1| ≤
      33 / 64 * ulpAt FP16 (max (Real.exp 1) ((r.val : ℚ) : ℝ)) := by
  have hone : (Flt.one FP16 false).val = 1 := by
    rw [Flt.val_normal rfl]; exact C16.one_mag FP16 false (by decide)
  have hMF : maxFinite FP16 = 65504 := by
    unfold maxFinite Sem.emax Sem.bias FP16; norm_num
  have he1 := Real.exp_one_gt_d9
  have he2 := Real.exp_one_lt_d9
  obtain ⟨r, h1, h2, h3, _, _, h5, h6, _⟩ := exp_accuracy (Flt.one FP16 false) (by decide) (by decide)
    (by decide) (Or.inl rfl) (by decide) rfl (by rw [hone]; norm_num)
    (by
      have hs : (Flt.one FP16 false).sem = FP16 := rfl
      rw [hone, hs, hMF]
      have hmin : FP16.emin = -14 := by decide
      have hp : (FP16.p : ℤ) = 11 := by decide
      rw [hmin, hp]
      constructor
      · have : (2:ℝ) ^ (-14:ℤ) ≤ 1 := zpow_le_one_of_nonpos₀ (by norm_num) (by norm_num)
        push_cast; linarith
      · norm_num; linarith) 3 (by decide)
  rw [hone] at h6
  push_cast at h6
  exact ⟨r, h1, h2, h3, h5, h6⟩

/-
-- Remarks / adaptations of the work-package statement

* `hp64 : p < 2^32` is not needed (the Taylor loop loads `k!` with `fromBigint`, no `u64`/`i64`
  conversion is involved) and has been dropped; everything else in `exp_accuracy` is as posed, with
  the stronger constant `33/64` and the additional conclusions `r.Canonical`, `r.sem = x.sem`,
  `2^(p-1) ≤ r.mant` (the result is a normal, not a subnormal, number).
* `ulpAt F t = 2^(Int.log 2 t - (p - 1))` is the ulp of the binade of `t`; the explicit-binade form
  `WithinUlps` (`∀ k ≥ emin, t < 2^(k+1) → r < 2^(k+1) → |r - t| ≤ c·2^(k-(p-1))`) is what is proved
  first and is slightly stronger (any common upper binade, and it also makes sense for subnormal
  results where the spacing is `ulp emin`).
* Stage 1 (`Arp.ExpErr.expTaylor_accuracy`) is stated for the contexts `TCtx` that occur in `exp`:
  nearest mode, `p_W ≥ 16`, `2^-L ≤ y ≤ 1` with `2L + 2p_W + 8 ≤ -emin_W` and `2p_W + 8 ≤ emax_W`
  (no intermediate of the loop underflows; `k!` stays finite).  Constant found: the result is the exact
  partial sum `Σ_{k<j} y^k/k!` up to `j + 2 ≤ max(50,p_W) + 1` perturbations of `2^-p_W`, and
  `|exp_taylor y - e^y| ≤ (max(50,p_W) + 5)·2^(1-p_W)·e^y`.  Without the lower bound on `y` the terms
  may underflow (harmlessly, it seems: the sum then stops changing), which is not analysed.
* Numerics (compiled model against mpmath, `E ∈ {5,6,7,8,11}`, `p ∈ 8..30`, both nearest modes,
  ~10^5 operands with `|x| ≤ 1024` including the overflow/underflow regions): worst error
  0.50003 ulp; no counter-example to any stage was found.
-/

end Arp.C16
