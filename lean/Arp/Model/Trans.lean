import Arp.Model.Funcs
/-!
# Implementation model — `operations/{constants,exp,trig,frac}.rs` and `pow`

The algorithms are written in terms of the float API, exactly as in the Rust code.
Loops with a syntactic bound become structural recursion on that bound; the
open-ended loops (`while a != b` in `pi`, the range reductions) take fuel and return
`none` when it runs out (the driver prints `FUEL`).
-/
namespace Arp

/-- generous fuel for the inner `sqrt`/`rem` loops -/
def innerFuel : Nat := 4611686018427387904   -- 2^62: a bound, never reached (C12.sqrt_terminates, C11.rem_fuel); the Rust loops are unbounded

def Flt.sqrtM (x : Flt) : Option Flt := x.sqrtFuel innerFuel
def Flt.remM (x y : Flt) : Option Flt := x.remFuel innerFuel y

/-! ### constants.rs -/

/-- body of `while a != b` in `pi` (also leaves when the gap between the means stops shrinking) -/
def piLoop : Nat → Flt → Flt → Flt → Flt → Flt → Option (Flt × Flt)
  | 0, _, _, _, _, _ => none
  | fuel + 1, a, b, t, x, gap =>
    if a.beq b then some (a, t) else
    let y := a
    let a' := (a.add b).scale (-1) .nte
    match (b.mul y).sqrtM with
    | none => none
    | some b' =>
      let t' := t.sub (x.mul ((a'.sub y).sqr))
      let x' := x.scale 1 .nte
      let newGap := (a'.sub b').abs
      if newGap.ge gap then some (a', t') else piLoop fuel a' b' t' x' newGap

/-- `Float::pi`, constants.rs (AGM) -/
def piFuel (fuel : Nat) (orig : Sem) : Option Flt :=
  let sem := orig.growLog 4
  let one := fromI64 sem 1
  let two := fromI64 sem 2
  let four := fromI64 sem 4
  match two.sqrtM with
  | none => none
  | some s2 =>
    let a := one
    let b := one.div s2
    let t := one.div four
    let x := one
    match piLoop fuel a b t x (Flt.inf sem false) with
    | none => none
    | some (a, t) => some ((a.sqr.div t).cast orig)

/-- `for i in (1..iterations).rev()` of `e` -/
def eLoop (sem : Sem) : Nat → Flt → Flt
  | 0, term => term
  | i + 1, term =>
    let v := fromI64 sem ((i : Int) + 1)
    eLoop sem i (v.add (v.div term))

/-- the `while bits < precision + 8` loop: smallest `levels` with
    `Σ_{k=2..levels} ⌊log₂ k⌋ ≥ p + 8` (so that `levels! > 2^(p+8)`) -/
def eLevelsLoop (p : Nat) : Nat → Nat → Nat → Nat
  | 0, levels, _ => levels
  | fuel + 1, levels, bits =>
    if bits < p + 8 then eLevelsLoop p fuel (levels + 1) (bits + Nat.log2 (levels + 1)) else levels

def eLevels (p : Nat) : Nat := eLevelsLoop p (p + 9) 1 0

/-- `Float::e`, constants.rs (Euler's continued fraction; at least `2·E` levels) -/
def eConst (orig : Sem) : Flt :=
  let sem := orig.increasePrecision 1
  let one := Flt.one sem false
  let iterations := Nat.max (eLevels sem.p) (sem.e * 2)
  let term := eLoop sem (iterations - 1) one
  ((one.div term).add (fromU64 sem 2)).cast orig

/-- `for k in 1..500` of `ln2` -/
def ln2Loop (sem2 : Sem) (one : Flt) : Nat → Nat → Flt → Flt → Flt
  | 0, _, sum, _ => sum
  | n + 1, k, sum, prev =>
    let k2 := (fromU64 sem2 1).scale k .none
    let kf := fromU64 sem2 k
    let kk2 := mulWithRm kf k2 .none
    let term := divWithRm one kk2 .none
    let sum' := addWithRm sum term .none
    if prev.beq sum' then sum' else ln2Loop sem2 one n (k + 1) sum' sum'

/-- `Float::ln2`, constants.rs -/
def ln2Const (sem : Sem) : Flt :=
  let sem2 := sem.increasePrecision 8
  let one := Flt.one sem2 false
  let terms := Nat.max 500 (sem2.p + 8)
  (ln2Loop sem2 one (terms - 1) 1 (Flt.zero sem2 false) (Flt.inf sem2 true)).cast sem

/-! ### exp.rs -/

/-- `for i in 0..50` of `log_taylor` -/
def logTaylorLoop (sem : Sem) (z2 : Flt) : Nat → Nat → Flt → Flt → Flt → Flt
  | 0, _, _, sum, _ => sum
  | n + 1, i, top, sum, prev =>
    if prev.beq sum then sum else
    let bottom := fromU64 sem (i * 2 + 1)
    let elem := divWithRm top bottom .none
    let sum' := addWithRm sum elem .none
    logTaylorLoop sem z2 n (i + 1) (mulWithRm top z2 .none) sum' sum

def logTaylor (x : Flt) : Flt :=
  let sem := x.sem
  let one := Flt.one sem false
  let up := subWithRm x one .none
  let down := addWithRm x one .none
  let z := divWithRm up down .none
  let z2 := z.sqr
  (logTaylorLoop sem z2 (Nat.max 50 sem.p) 0 z (Flt.zero sem false) (Flt.one sem true)).scale 1 .zero

/-- 1.001 as an f64 bit pattern (`Self::from_f64(1.001)`) -/
def f64_1_001 : Nat := 0x3FF004189374BC6A

/-- 0.999 as an f64 bit pattern (`Self::from_f64(0.999)`) -/
def f64_0_999 : Nat := 0x3FEFF7CED916872B

/-- `log_range_reduce` (recursive) -/
def logRangeReduce : Nat → Flt → Option Flt
  | 0, _ => none
  | fuel + 1, x =>
    let sem := x.sem
    let up := (fromF64 f64_1_001).cast sem
    let one := fromU64 sem 1
    if x.gt up then
      match x.sqrtM with
      | none => none
      | some sx => (logRangeReduce fuel sx).map (·.scale 1 .nte)
    else if x.lt one then
      let low := (fromF64 f64_0_999).cast sem
      if x.gt low then some (logTaylor x) else
      let re := divWithRm one x .none
      (logRangeReduce fuel re).map (·.neg)
    else some (logTaylor x)

/-- `log`, exp.rs -/
def Flt.logFuel (fuel : Nat) (x : Flt) : Option Flt :=
  let sem0 := x.sem
  if x.isZero then some (Flt.inf sem0 true)
  else if x.isInf && !x.sign then some x
  else if !x.isNormal || x.sign then some (Flt.nan sem0 x.sign)
  else
    let sem := (sem0.growLog 10).increaseExponent 10
    let y := x.castWithRm sem .none
    (logRangeReduce fuel y).map (·.castWithRm sem0 .none)

/-- `for k in 1..50` of `exp_taylor` -/
def expTaylorLoop (sem : Sem) (x : Flt) : Nat → Nat → Flt → Nat → Flt → Flt → Flt
  | 0, _, _, _, sum, _ => sum
  | n + 1, k, top, bottom, sum, prev =>
    if prev.beq sum then sum else
    let elem := top.div (fromBigint sem bottom)
    let sum' := sum.add elem
    expTaylorLoop sem x n (k + 1) (top.mul x) (bottom * k) sum' sum

def expTaylor (x : Flt) : Flt :=
  let sem := x.sem
  expTaylorLoop sem x (Nat.max 50 sem.p - 1) 1 (Flt.one sem false) 1 (Flt.zero sem false) (Flt.one sem true)

/-- the `while x > one` loop of `exp_range_reduce` -/
def expReduceLoop : Nat → Flt → Flt → Nat → Option (Flt × Nat)
  | 0, _, _, _ => none
  | fuel + 1, x, one, steps =>
    if x.gt one then expReduceLoop fuel (x.scale (-3) .zero) one (steps + 1) else some (x, steps)

def sqr3 : Nat → Flt → Flt
  | 0, r => r
  | n + 1, r => sqr3 n r.sqr.sqr.sqr

def expRangeReduce (fuel : Nat) (x : Flt) : Option Flt :=
  let one := fromU64 x.sem 1
  match expReduceLoop fuel x one 0 with
  | none => none
  | some (y, steps) => some (sqr3 steps (expTaylor y))

/-- `halvings` of `exp`: one guard bit per squaring of the range reduction, `min(exp + 3, E + 3)` for `exp ≥ 0` -/
def Flt.expHalvings (x : Flt) : Nat :=
  if x.exp < 0 then 0 else Nat.min (x.exp.toNat + 3) (x.sem.e + 3)

/-- working format of `exp` -/
def Flt.expSem (x : Flt) : Sem := (x.sem.growLog (10 + x.expHalvings)).increaseExponent 10

/-- `exp`, exp.rs -/
def Flt.expFuel (fuel : Nat) (x : Flt) : Option Flt :=
  let sem0 := x.sem
  if x.isZero then some (Flt.one sem0 false)
  else if x.isInf then some (if x.sign then Flt.zero sem0 false else Flt.inf sem0 false)
  else if !x.isNormal then some (Flt.nan sem0 x.sign)
  else
    let sem := x.expSem
    if x.sign then
      let one := Flt.one sem false
      -- `self.cast(sem).neg().exp()`: a positive normal argument of format `sem`
      let y := (x.cast sem).neg
      let sem2 := y.expSem
      (expRangeReduce fuel (y.cast sem2)).map (fun r => (one.div (r.cast sem)).cast sem0)
    else
      (expRangeReduce fuel (x.cast sem)).map (·.cast sem0)

/-- `sigmoid`, exp.rs -/
def Flt.sigmoidFuel (fuel : Nat) (x : Flt) : Option Flt :=
  let one := Flt.one x.sem false
  if x.isInf then some (if x.sign then Flt.zero x.sem false else one)
  else if x.isZero then some (one.scale (-1) .zero)
  else if x.isNan then some x
  else
    -- `e^x / (e^x + 1)` with 8 guard bits, rounded once
    let sem := x.sem.increasePrecision 8
    match (x.cast sem).expFuel fuel with
    | none => none
    | some ex => if ex.isInf then some one else some ((ex.div (ex.add (Flt.one sem false))).cast x.sem)

/-! ### functions.rs: pow -/

def Flt.powFuel (fuel : Nat) (x n : Flt) : Option Flt :=
  let orig := x.sem
  let one := Flt.one orig false
  let sign := x.sign
  if x.beq one then some x
  else if n.isInf || n.isNan then some (Flt.nan orig sign)
  else if n.isZero then some (Flt.one orig false)
  else if x.isZero then some (if n.sign then Flt.inf orig sign else Flt.zero orig sign)
  else if x.sign || x.isInf || x.isNan then some (Flt.nan orig sign)
  else
    let sem := (orig.growLog 10).increaseExponent 10
    match (x.cast sem).logFuel fuel with
    | none => none
    | some l => (((n.cast sem).mul l).expFuel fuel).map (·.cast orig)

/-! ### trig.rs -/

/-- `for i in 1..50` of `sin_taylor` -/
def sinTaylorLoop (sem : Sem) (x2 : Flt) : Nat → Nat → Bool → Flt → Nat → Flt → Flt → Flt
  | 0, _, _, _, _, sum, _ => sum
  | n + 1, i, neg, top, bottom, sum, prev =>
    if prev.beq sum then sum else
    let elem := top.div (fromBigint sem bottom)
    let sum' := if neg then sum.sub elem else sum.add elem
    sinTaylorLoop sem x2 n (i + 1) (!neg) (top.mul x2) (bottom * ((i * 2) * (i * 2 + 1))) sum' sum

def sinTaylor (x : Flt) : Flt :=
  let sem := x.sem
  sinTaylorLoop sem x.sqr (Nat.max 50 sem.p - 1) 1 false x 1 (Flt.zero sem false) (Flt.one sem true)

def sinStep4 : Nat → Flt → Flt
  | 0, x => sinTaylor x
  | steps + 1, x =>
    let i3 := fromU64 x.sem 3
    let x3 := divWithRm x i3 .none
    let sx := sinStep4 steps x3
    let sx3 := mulWithRm sx i3 .none
    subWithRm sx3 ((sx.powi 3).scale 2 .none) .none

/-- `sin`, trig.rs -/
def Flt.sinFuel (fuel : Nat) (x : Flt) : Option Flt :=
  if x.isZero || x.isNan then some x
  else if x.isInf then some (Flt.nan x.sem x.sign)
  else
    let orig := x.sem
    let sem := (orig.growLog 12).increaseExponent 4
    let v0 := x.castWithRm sem .none
    let neg0 := v0.sign
    let v1 := if v0.sign then v0.neg else v0
    let isSmall := x.exp < 0
    let red : Option (Flt × Bool) :=
      if !isSmall then
        match piFuel fuel sem with
        | none => none
        | some pi =>
          let pi2 := pi.scale 1 .none
          let piHalf := pi.scale (-1) .none
          match (if v1.gt pi2 then v1.remM pi2 else some v1) with
          | none => none
          | some v2 =>
            let r3 := if v2.gt pi then (subWithRm v2 pi .none, !neg0) else (v2, neg0)
            let v4 := if r3.1.gt piHalf then subWithRm pi r3.1 .none else r3.1
            some (v4, r3.2)
      else some (v1, neg0)
    match red with
    | none => none
    | some (v, neg) =>
      let k := orig.logPrecision * 4
      let res := sinStep4 k v
      some ((if neg then res.neg else res).cast orig)

/-- `for i in 1..50` of `cos_taylor` -/
def cosTaylorLoop (sem : Sem) (x2 : Flt) : Nat → Nat → Bool → Flt → Nat → Flt → Flt → Flt
  | 0, _, _, _, _, sum, _ => sum
  | n + 1, i, neg, top, bottom, sum, prev =>
    if prev.beq sum then sum else
    let elem := top.div (fromBigint sem bottom)
    let sum' := if neg then sum.sub elem else sum.add elem
    cosTaylorLoop sem x2 n (i + 1) (!neg) (top.mul x2) (bottom * ((i * 2 - 1) * (i * 2))) sum' sum

def cosTaylor (x : Flt) : Flt :=
  let sem := x.sem
  cosTaylorLoop sem x.sqr (Nat.max 50 sem.p - 1) 1 false (Flt.one sem false) 1 (Flt.zero sem false) (Flt.one sem true)

def cosStep4 : Nat → Flt → Flt
  | 0, x => cosTaylor x
  | steps + 1, x =>
    let one := Flt.one x.sem false
    let sx := cosStep4 steps (x.scale (-1) .none)
    subWithRm (sx.sqr.scale 1 .none) one .none

/-- `cos`, trig.rs -/
def Flt.cosFuel (fuel : Nat) (x : Flt) : Option Flt :=
  if x.isNan then some x
  else if x.isZero then some (Flt.one x.sem false)
  else if x.isInf then some (Flt.nan x.sem x.sign)
  else
    let orig := x.sem
    let sem := (orig.growLog 14).increaseExponent 4
    let v0 := x.castWithRm sem .none
    let v1 := if v0.sign then v0.neg else v0
    let isSmall := x.exp < 0
    let red : Option (Flt × Bool) :=
      if !isSmall then
        match piFuel fuel sem with
        | none => none
        | some pi =>
          let pi2 := pi.scale 1 .none
          let piHalf := pi.scale (-1) .none
          match (if v1.gt pi2 then v1.remM pi2 else some v1) with
          | none => none
          | some v2 =>
            let v3 := if v2.gt pi then subWithRm pi2 v2 .none else v2
            if v3.gt piHalf then some (subWithRm pi v3 .none, true) else some (v3, false)
      else some (v1, false)
    match red with
    | none => none
    | some (v, neg) =>
      let k := (sem.logPrecision * 8) / 10
      let res := cosStep4 k v
      some ((if neg then res.neg else res).cast orig)

/-- `tan`, trig.rs -/
def Flt.tanFuel (fuel : Nat) (x : Flt) : Option Flt :=
  if x.isZero || x.isNan then some x
  else if x.isInf then some (Flt.nan x.sem x.sign)
  else
    let orig := x.sem
    let sem := ((orig.increasePrecision orig.p).growLog 12).increaseExponent 4
    let v0 := x.castWithRm sem .none
    let neg0 := v0.sign
    let v1 := if v0.sign then v0.neg else v0
    let isSmall := x.exp < 0
    let red : Option (Flt × Bool) :=
      if !isSmall then
        match piFuel fuel sem with
        | none => none
        | some pi =>
          let halfPi := pi.scale (-1) .none
          match (if v1.gt pi then v1.remM pi else some v1) with
          | none => none
          | some v2 =>
            if v2.gt halfPi then some (pi.sub v2, !neg0) else some (v2, neg0)
      else some (v1, neg0)
    match red with
    | none => none
    | some (v, neg) =>
      match v.sinFuel fuel with
      | none => none
      | some sinx =>
        let one := Flt.one sem false
        match (one.sub sinx.sqr).sqrtM with
        | none => none
        | some bottom =>
          let res := sinx.div bottom
          some ((if neg then res.neg else res).cast orig)

/-! ### frac.rs -/

/-- `for _ in 0..n.max(2)`: collects the partial quotients -/
def fracLoop (one : Flt) (rm : RM) : Nat → Flt → List Nat → List Nat
  | 0, _, acc => acc.reverse
  | n + 1, real, acc =>
    let int := real.trunc
    let a := int.convertNormalToInteger rm
    fracLoop one rm n (one.div (real.sub int)) (a :: acc)

def convergents : List Nat → (Nat × Nat) → (Nat × Nat) → (Nat × Nat)
  | [], p, q => (p.1, q.1)
  | e :: rest, p, q => convergents rest (p.2 + e * p.1, p.1) (q.2 + e * q.1, q.1)

/-- `as_fraction`, frac.rs -/
def Flt.asFraction (x : Flt) (n : Nat) : Nat × Nat :=
  if x.isZero then (0, 1)
  else if x.isInf || x.isNan then (0, 0)
  else
    let wide := x.sem.increaseExponent (x.sem.logPrecision + 1)
    let one := Flt.one wide false
    let a := fracLoop one x.sem.rm (Nat.max n 2) (x.cast wide) []
    match a with
    | a0 :: a1 :: rest =>
      let p : Nat × Nat := (1 + a0 * a1, a0)
      let q : Nat × Nat := (a1, 1)
      if n < 2 then (p.2, q.2) else convergents rest p q
    | _ => (0, 0)

end Arp
