import Arp.Model.Funcs
/-!
# Implementation model — `string.rs`: Display and `try_from_str`

Strings are byte lists (`List Nat`, each `< 256`); `BigInt` decimal digit extraction is
`Nat` digit extraction (justified by the limb-level theorem `toDigits_val`, C09).
-/
namespace Arp

/-- decimal digits of `n`, most significant first; `[]` for 0 (as `to_digits::<10>` does) -/
def decDigits (n : Nat) : List Nat :=
  if n = 0 then [] else (Nat.toDigits 10 n).map (fun c => c.toNat - '0'.toNat)

/-- `convert_to_integer`, string.rs:16-49 -/
def Flt.convertToInteger (x : Flt) : Nat × Int :=
  let exp : Int := x.exp - ((x.sem.p - 1 : Nat) : Int)
  if exp < 0 then (x.mant * 5 ^ (-exp).toNat, -exp) else (x.mant <<< exp.toNat, 0)

/-- `reduce_printed_integer_length`, string.rs:63-84 -/
def reducePrinted (p : Nat) (integer : Nat) (exp : Int) : Nat × Int :=
  let bits := msb integer
  if bits ≤ p - 1 then (integer, exp) else
  let needed := bits - (p - 1)
  let d0 : Int := ((needed * 59 / 196 : Nat) : Int)
  let d := if d0 > exp then exp else d0
  (integer / 10 ^ d.toNat, exp - d)

def strip0 : List Nat → List Nat
  | [] => []
  | l => if l.getLast? = some 48 then strip0 l.dropLast else l
termination_by l => l.length
decreasing_by simp [List.length_dropLast]; cases l <;> simp_all

/-- `convert_normal_to_string`, string.rs:86-113 (bytes) -/
def Flt.convertNormalToString (x : Flt) : List Nat :=
  let ie := x.convertToInteger
  let r := reducePrinted x.sem.p ie.1 ie.2
  let digits := (decDigits r.1).map (· + 48)
  let e := r.2.toNat
  let padded := List.replicate (e - digits.length) 48 ++ digits
  let k := padded.length - e
  let withPoint := padded.take k ++ [46] ++ padded.drop k
  strip0 withPoint

def strBytes (s : String) : List Nat := s.toList.map Char.toNat

/-- `convert_to_string` / `Display` -/
def Flt.display (x : Flt) : List Nat :=
  (if x.sign then [45] else []) ++
  (match x.cat with
   | .inf => strBytes "Inf"
   | .nan => strBytes "NaN"
   | .zero => strBytes "0.0"
   | .normal => x.convertNormalToString)

/-! ### parsing -/

inductive ParseErr | empty | number | exponent
  deriving DecidableEq, Repr

def isDigit (b : Nat) : Bool := 48 ≤ b && b ≤ 57

/-- `parse_big_int`: `none` on any non-digit; the empty string is 0 -/
def parseBigInt (bs : List Nat) : Option Nat :=
  bs.foldl (fun acc b => match acc with
    | some n => if isDigit b then some (n * 10 + (b - 48)) else none
    | none => none) (some 0)

/-- Rust's `str::parse::<i64>`: optional sign, at least one digit, overflow is an error -/
def parseI64 (bs : List Nat) : Option Int :=
  let sd : Bool × List Nat := match bs with
    | 45 :: r => (true, r)
    | 43 :: r => (false, r)
    | r => (false, r)
  if sd.2.isEmpty then none else
  match parseBigInt sd.2 with
  | none => none
  | some n =>
    let v : Int := if sd.1 then -(n : Int) else (n : Int)
    if v < -(2 ^ 63 : Nat) || v > (2 ^ 63 : Nat) - 1 then none else some v

def lowerByte (b : Nat) : Nat := if 65 ≤ b && b ≤ 90 then b + 32 else b
def eqIgnoreCase (bs : List Nat) (s : String) : Bool := bs.map lowerByte == (strBytes s).map lowerByte

/-- split at the first byte satisfying `p` (the byte itself is dropped) -/
def splitOnce (p : Nat → Bool) : List Nat → Option (List Nat × List Nat)
  | [] => none
  | b :: r => if p b then some ([], r) else (splitOnce p r).map (fun lr => (b :: lr.1, lr.2))

/-- `parse_with_exp` -/
def parseWithExp (value : List Nat) : Except ParseErr ((Nat × Nat) × Option Int) :=
  let ne : List Nat × Option (List Nat) :=
    match splitOnce (fun b => b == 101 || b == 69) value with
    | some (l, r) => (l, some r)
    | none => (value, none)
  match parseBigInt ne.1 with
  | none => .error .number
  | some num =>
    match ne.2 with
    | none => .ok ((num, ne.1.length), none)
    | some ex =>
      match parseI64 ex with
      | some e => .ok ((num, ne.1.length), some e)
      | none => .error .exponent

/-- applying the decimal exponent: `num *= 10^exp` or `num /= 10^-exp` in the format's mode -/
def applyExp (sem : Sem) (num : Flt) (exp : Option Int) : Flt :=
  match exp with
  | none => num
  | some e =>
    if e ≥ 0 then num.mul (fromBigint sem (10 ^ e.toNat))
    else num.div (fromBigint sem (10 ^ (-e).toNat))

/-- `try_from_str`, string.rs:182-275 -/
def tryFromStr (value : List Nat) (sem : Sem) : Except ParseErr Flt :=
  match value with
  | [] => .error .empty
  | c0 :: rest0 =>
    let signed := c0 == 45 || c0 == 43
    let sign := c0 == 45
    let v := if signed then rest0 else value
    if eqIgnoreCase v "nan" then .ok (Flt.nan sem sign)
    else if eqIgnoreCase v "inf" then .ok (Flt.inf sem sign)
    else
      match splitOnce (· == 46) v with
      | none =>
        (match parseWithExp v with
         | .error e => .error e
         | .ok ((num, _), exp) =>
           .ok ((applyExp sem (fromBigint sem num) exp).setSign sign))
      | some (left, right) =>
        if right.all (· == 48) then
          -- `parse_whole_num`
          (if left == [48] then .ok (Flt.zero sem sign)
           else match parseBigInt left with
             | none => .error .number
             | some n => .ok ((fromBigint sem n).setSign sign))
        else
          match parseBigInt left with
          | none => .error .number
          | some leftNum =>
            match parseWithExp right with
            | .error e => .error e
            | .ok ((rightNum, digits), exp) =>
              let integral := fromBigint sem leftNum
              let fraction := (fromBigint sem rightNum).div (fromBigint sem (10 ^ digits))
              let ret := integral.add fraction
              .ok ((applyExp sem ret exp).setSign sign)

end Arp
