import Arp.Model.Basic
/-!
# Implementation model — `arithmetic.rs`
-/
namespace Arp

/-- `add_or_sub_normals`, arithmetic.rs:19-89. -/
def addOrSubNormals (a b : Flt) (subtract : Bool) : Flt × Loss :=
  let sem := a.sem
  let bits : Int := a.exp - b.exp
  let subtract := subtract ^^ (a.sign ^^ b.sign)
  if subtract then
    let abl : Flt × Flt × Loss :=
      if bits = 0 then (a, b, .zero)
      else if bits > 0 then
        let r := b.shiftSigRight (bits - 1).toNat
        (a.shiftSigLeft 1, r.1, r.2)
      else
        let r := a.shiftSigRight (-bits - 1).toNat
        (r.1, b.shiftSigLeft 1, r.2)
    let a' := abl.1
    let b' := abl.2.1
    let loss := abl.2.2
    let c : Nat := if loss = .zero then 0 else 1
    if a'.mant < b'.mant then
      (Flt.new sem (!a'.sign) a'.exp (b'.mant - a'.mant - c), loss.invert)
    else
      (Flt.new sem a'.sign a'.exp (a'.mant - b'.mant - c), loss.invert)
  else
    if bits > 0 then
      let r := b.shiftSigRight bits.toNat
      (Flt.new sem a.sign a.exp (a.mant + r.1.mant), r.2)
    else
      let r := a.shiftSigRight (-bits).toNat
      (Flt.new sem a.sign r.1.exp (r.1.mant + b.mant), r.2)

/-- `add_sub`, arithmetic.rs:100-149 (Table 8.2). -/
def addSub (a b : Flt) (subtract : Bool) (rm : RM) : Flt :=
  let sem := a.sem
  match a.cat, b.cat with
  | .nan, _ | .normal, .zero | .inf, .normal | .inf, .zero => a
  | .zero, .nan | .normal, .nan | .inf, .nan => Flt.nan sem b.sign
  | .normal, .inf | .zero, .inf => Flt.inf sem (b.sign ^^ subtract)
  | .zero, .normal => Flt.new sem (b.sign ^^ subtract) b.exp b.mant
  | .zero, .zero =>
      let bSign := b.sign ^^ subtract
      if a.sign == bSign then Flt.zero sem bSign else Flt.zero sem (rm == .neg)
  | .inf, .inf =>
      if a.sign ^^ b.sign ^^ subtract then Flt.nan sem (a.sign ^^ b.sign)
      else Flt.inf sem a.sign
  | .normal, .normal =>
      let r := addOrSubNormals a b subtract
      let res := r.1.normalize rm r.2
      if res.isZero then res.setSign (rm == .neg) else res

def addWithRm (a b : Flt) (rm : RM) : Flt := addSub a b false rm
def subWithRm (a b : Flt) (rm : RM) : Flt := addSub a b true rm

/-- `mul_normals`, arithmetic.rs:366-397. -/
def mulNormals (a b : Flt) (sign : Bool) : Flt × Loss :=
  let sem := a.sem
  let exp0 : Int := a.exp + b.exp
  let ab := a.mant * b.mant
  let first := msb ab
  let exp1 : Int := exp0 - ((sem.p - 1 : Nat) : Int)
  if first > sem.p then
    let bits := first - sem.p
    (Flt.new sem sign (exp1 + bits) (ab >>> bits), lossOfBits ab bits)
  else
    (Flt.new sem sign exp1 ab, .zero)

/-- `mul_with_rm`, arithmetic.rs:331-363 (Table 8.4). -/
def mulWithRm (a b : Flt) (rm : RM) : Flt :=
  let sem := a.sem
  let sign := a.sign ^^ b.sign
  match a.cat, b.cat with
  | .zero, .nan | .normal, .nan | .inf, .nan => Flt.nan sem b.sign
  | .nan, _ => Flt.nan sem a.sign
  | .normal, .inf | .inf, .normal | .inf, .inf => Flt.inf sem sign
  | .normal, .zero | .zero, .normal | .zero, .zero => Flt.zero sem sign
  | .zero, .inf | .inf, .zero => Flt.nan sem sign
  | .normal, .normal =>
      let r := mulNormals a b sign
      r.1.normalize rm r.2

/-- `div_normals`, arithmetic.rs:525-577. -/
def divNormals (a b : Flt) : Flt × Loss :=
  let sem := a.sem
  let a1 := a.alignMantissa
  let b1 := b.alignMantissa
  let exp0 : Int := a1.exp - b1.exp
  let sign := a1.sign ^^ b1.sign
  let am0 := a1.mant
  let bm := b1.mant
  let am1 := if am0 < bm then am0 <<< 1 else am0
  let exp1 := if am0 < bm then exp0 - 1 else exp0
  let am2 := am1 <<< (sem.p - 1)
  let q := am2 / bm
  let r := am2 % bm
  let r2 := r <<< 1
  let loss : Loss :=
    match compare r2 bm with
    | .lt => if r2 = 0 then .zero else .lt
    | .eq => .half
    | .gt => .gt
  (Flt.new sem sign exp1 q, loss)

/-- `div_with_rm`, arithmetic.rs:500-520 (Table 8.5). -/
def divWithRm (a b : Flt) (rm : RM) : Flt :=
  let sem := a.sem
  let sign := a.sign ^^ b.sign
  match a.cat, b.cat with
  | .nan, _ | _, .nan | .zero, .zero | .inf, .inf => Flt.nan sem sign
  | _, .inf => Flt.zero sem sign
  | .zero, _ => Flt.zero sem sign
  | _, .zero => Flt.inf sem sign
  | .inf, _ => Flt.inf sem sign
  | .normal, .normal =>
      let r := divNormals a b
      r.1.normalize rm r.2

end Arp
