/-!
# Implementation model — `float.rs`

Core-only (no imports), executable.  One `def` per Rust function, same case
structure and order of tests, so that the two texts can be read side by side.
`BigInt` significands are `Nat` (justified by the limb-level refinement
theorems of C09), `i64` exponents are `Int`.
-/
namespace Arp

/-- `RoundingMode`, float.rs:11-18 (same order). -/
inductive RM | none | nte | nta | zero | pos | neg
  deriving DecidableEq, Repr, Inhabited

/-- `Category`, float.rs:120-125. -/
inductive Cat | inf | nan | normal | zero
  deriving DecidableEq, Repr, Inhabited

/-- `LossFraction`, bigint.rs:16-21. -/
inductive Loss | zero | lt | half | gt
  deriving DecidableEq, Repr, Inhabited

/-- `Semantics{exponent, precision, mode}`. -/
structure Sem where
  e : Nat
  p : Nat
  rm : RM
  deriving DecidableEq, Repr, Inhabited

/-- `Float{sem, sign, exp, mantissa, category}`. -/
structure Flt where
  sem : Sem
  sign : Bool
  exp : Int
  mant : Nat
  cat : Cat
  deriving DecidableEq, Repr, Inhabited

/-- `Semantics::get_bias` -/
def Sem.bias (s : Sem) : Int := ((2 ^ (s.e - 1) : Nat) : Int) - 1
/-- `get_exp_bounds().0` -/
def Sem.emin (s : Sem) : Int := 1 - s.bias
/-- `get_exp_bounds().1` -/
def Sem.emax (s : Sem) : Int := ((2 ^ s.e : Nat) : Int) - s.bias - 2

def Sem.withRm (s : Sem) (rm : RM) : Sem := { s with rm := rm }
def Sem.increasePrecision (s : Sem) (more : Nat) : Sem := { s with p := s.p + more }
def Sem.increaseExponent (s : Sem) (more : Nat) : Sem := { s with e := s.e + more }
/-- `log_precision`: `64 - leading_zeros(precision)` = bit length of `precision`. -/
def Sem.logPrecision (s : Sem) : Nat := if s.p = 0 then 0 else Nat.log2 s.p + 1
def Sem.growLog (s : Sem) (more : Nat) : Sem := { s with p := s.p + more + s.logPrecision }

def FP16 : Sem := ⟨5, 11, .nte⟩
def FP32 : Sem := ⟨8, 24, .nte⟩
def FP64 : Sem := ⟨11, 53, .nte⟩
def FP128 : Sem := ⟨15, 113, .nte⟩
def FP256 : Sem := ⟨19, 237, .nte⟩

def Flt.zero (s : Sem) (sg : Bool) : Flt := ⟨s, sg, 0, 0, .zero⟩
def Flt.inf (s : Sem) (sg : Bool) : Flt := ⟨s, sg, 0, 0, .inf⟩
def Flt.nan (s : Sem) (sg : Bool) : Flt := ⟨s, sg, 0, 0, .nan⟩
/-- `Float::new`: a zero significand yields a zero. -/
def Flt.new (s : Sem) (sg : Bool) (e : Int) (m : Nat) : Flt :=
  if m = 0 then Flt.zero s sg else ⟨s, sg, e, m, .normal⟩
/-- `Float::one` -/
def Flt.one (s : Sem) (sg : Bool) : Flt := ⟨s, sg, 0, 1 <<< (s.p - 1), .normal⟩

def Flt.isNormal (x : Flt) : Bool := x.cat == .normal
def Flt.isZero (x : Flt) : Bool := x.cat == .zero
def Flt.isInf (x : Flt) : Bool := x.cat == .inf
def Flt.isNan (x : Flt) : Bool := x.cat == .nan
def Flt.neg (x : Flt) : Flt := { x with sign := !x.sign }
def Flt.abs (x : Flt) : Flt := { x with sign := false }
def Flt.setSign (x : Flt) (s : Bool) : Flt := { x with sign := s }

/-- `BigInt::msb_index`: 1-based index of the highest set bit, 0 for 0. -/
def msb (n : Nat) : Nat := if n = 0 then 0 else Nat.log2 n + 1

/-- `get_loss_kind_for_bit` at `Nat` level. -/
def lossOfBits (m : Nat) (bits : Nat) : Loss :=
  if m = 0 then .zero
  else if bits > msb m then .lt     -- bigint.rs:213 `bit > self.len() * 64`
  else
  let r := m % 2 ^ bits
  if r = 0 then .zero
  else if 2 * r < 2 ^ bits then .lt
  else if 2 * r = 2 ^ bits then .half
  else .gt

def Loss.invert : Loss → Loss
  | .lt => .gt | .gt => .lt | l => l

def Loss.isLtHalf (l : Loss) : Bool := l == .lt || l == .zero
def Loss.isGteHalf (l : Loss) : Bool := l == .gt || l == .half

/-- `combine_loss_fraction(msb, lsb)`, float.rs:383-392 -/
def combineLoss (m l : Loss) : Loss :=
  if l ≠ .zero then
    if m = .zero then .lt else if m = .half then .gt else m
  else m

/-- `shift_significand_left` -/
def Flt.shiftSigLeft (x : Flt) (amt : Nat) : Flt :=
  { x with exp := x.exp - amt, mant := x.mant <<< amt }
/-- `shift_significand_right` (returns the loss) -/
def Flt.shiftSigRight (x : Flt) (amt : Nat) : Flt × Loss :=
  ({ x with exp := x.exp + amt, mant := x.mant >>> amt }, lossOfBits x.mant amt)

/-- `align_mantissa`, float.rs:309-316 -/
def Flt.alignMantissa (x : Flt) : Flt :=
  let bits : Int := (x.sem.p : Int) - (msb x.mant : Int)
  if bits > 0 then { x with exp := x.exp - bits, mant := x.mant <<< bits.toNat } else x

/-- `overflow()`, float.rs:416-446. -/
def Flt.overflow (x : Flt) (rm : RM) : Flt :=
  let inf := Flt.inf x.sem x.sign
  let max := Flt.new x.sem x.sign x.sem.emax (2 ^ x.sem.p - 1)
  match rm with
  | .none | .nte | .nta => inf
  | .zero => max
  | .pos => if x.sign then max else inf
  | .neg => if x.sign then inf else max

/-- `need_round_away_from_zero`, float.rs:470-490 -/
def needRoundAway (sign : Bool) (mant : Nat) (rm : RM) (l : Loss) : Bool :=
  match rm with
  | .pos => !sign
  | .neg => sign
  | .zero | .none => false
  | .nta => l == .half || l == .gt
  | .nte => l == .gt || (l == .half && mant % 2 == 1)

/-- `normalize`, float.rs:495-574, statement by statement. -/
def Flt.normalize (x : Flt) (rm : RM) (loss0 : Loss) : Flt :=
  if x.cat ≠ .normal then x else
  let s := x.sem
  let nmsb : Int := msb x.mant
  if nmsb > 0 then
    let ec0 : Int := nmsb - s.p
    if x.exp + ec0 > s.emax then x.overflow rm
    else
      let ec := if x.exp + ec0 < s.emin then s.emin - x.exp else ec0
      if ec < 0 then { x with exp := x.exp + ec, mant := x.mant <<< ec.natAbs }
      else if ec > 0 then
        stepII { x with exp := x.exp + ec, mant := x.mant >>> ec.toNat }
               (combineLoss (lossOfBits x.mant ec.toNat) loss0)
      else stepII x loss0
  else stepII x loss0
where
  stepII (y : Flt) (l : Loss) : Flt :=
    let s := y.sem
    if l = .zero then (if y.mant = 0 then Flt.zero s y.sign else y)
    else if needRoundAway y.sign y.mant rm l then
      let e1 := if y.mant = 0 then s.emin else y.exp
      let m1 := y.mant + 1
      if m1 >>> s.p ≠ 0 then
        if e1 < s.emax then { y with exp := e1 + 1, mant := m1 >>> 1 }
        else Flt.inf s y.sign
      else { y with exp := e1, mant := m1 }
    else (if y.mant = 0 then Flt.zero s y.sign else y)

/-- The debug assertion at float.rs:524 ("losing information"): `true` iff it holds. -/
def Flt.normalizeDbgOk (x : Flt) (loss0 : Loss) : Bool :=
  if x.cat ≠ .normal then true else
  let s := x.sem
  let nmsb : Int := msb x.mant
  if nmsb > 0 then
    let ec0 : Int := nmsb - s.p
    if x.exp + ec0 > s.emax then true
    else
      let ec := if x.exp + ec0 < s.emin then s.emin - x.exp else ec0
      if ec < 0 then loss0 == .zero else true
  else true

/-! ### Canonical form (the predicate of C04, as a Bool) -/

def Flt.isCanonical (x : Flt) : Bool :=
  match x.cat with
  | .normal =>
      decide (x.sem.emin ≤ x.exp) && decide (x.exp ≤ x.sem.emax) && decide (0 < x.mant)
      && decide (x.mant < 2 ^ x.sem.p)
      && (decide (2 ^ (x.sem.p - 1) ≤ x.mant) || decide (x.exp = x.sem.emin))
  | _ => decide (x.exp = 0) && decide (x.mant = 0)

/-! ### `PartialEq` / `PartialOrd`, float.rs:577-642 -/

def Flt.beq (a b : Flt) : Bool :=
  let bitwise := a.sign == b.sign && a.exp == b.exp && a.mant == b.mant && a.cat == b.cat
  match a.cat with
  | .inf | .normal => bitwise
  | .zero => b.cat == .zero
  | .nan => false

/-- `bool_to_ord` -/
def boolToOrd (b : Bool) : Option Ordering := if b then some .lt else some .gt

def Flt.partialCmp (a b : Flt) : Option Ordering :=
  match a.cat, b.cat with
  | .nan, _ | _, .nan => none
  | .zero, .zero => some .eq
  | .inf, .inf => if a.sign == b.sign then some .eq else boolToOrd a.sign
  | .inf, .normal | .inf, .zero | .normal, .zero => boolToOrd a.sign
  | .normal, .inf | .zero, .inf | .zero, .normal => boolToOrd (!b.sign)
  | .normal, .normal =>
      if a.sign != b.sign then boolToOrd a.sign
      else if a.exp < b.exp then boolToOrd (!a.sign)
      else if a.exp > b.exp then boolToOrd a.sign
      else match compare a.mant b.mant with
        | .lt => boolToOrd (!a.sign)
        | .eq => some .eq
        | .gt => boolToOrd a.sign

def Flt.lt (a b : Flt) : Bool := a.partialCmp b == some .lt
def Flt.le (a b : Flt) : Bool := a.partialCmp b == some .lt || a.partialCmp b == some .eq
def Flt.gt (a b : Flt) : Bool := a.partialCmp b == some .gt
def Flt.ge (a b : Flt) : Bool := a.partialCmp b == some .gt || a.partialCmp b == some .eq

end Arp
