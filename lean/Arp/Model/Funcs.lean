import Arp.Model.Cast
/-!
# Implementation model — `operations/functions.rs`
Loops take a fuel argument; the result is `none` when the fuel is exhausted
(the driver reports `FUEL`, and the C19 theorems bound the fuel needed).
-/
namespace Arp

/-- `scale` -/
def Flt.scaleCore (x : Flt) (k : Int) (rm : RM) : Flt :=
  if !x.isNormal then x else
  (Flt.new x.sem x.sign (x.exp + k) x.mant).normalize rm .zero

/-- `upper - lower + precision + 1`: scaling by more than this cannot change the rounded result -/
def Sem.scaleSpan (s : Sem) : Int := s.emax - s.emin + (s.p : Int) + 1

/-- `scale`, functions.rs: the amount is clamped (`i64::clamp`) so that `exp + scale` stays in `i64` -/
def Flt.scale (x : Flt) (k : Int) (rm : RM) : Flt :=
  x.scaleCore (max (-x.sem.scaleSpan) (min x.sem.scaleSpan k)) rm

/-- operator `*` etc.: the format's own mode -/
def Flt.mul (a b : Flt) : Flt := mulWithRm a b a.sem.rm
def Flt.div (a b : Flt) : Flt := divWithRm a b a.sem.rm
def Flt.add (a b : Flt) : Flt := addWithRm a b a.sem.rm
def Flt.sub (a b : Flt) : Flt := subWithRm a b a.sem.rm

/-- the `while n > 0` loop of `powi` -/
def powiLoop : Nat → Nat → Flt → Flt → Flt
  | 0, _, elem, _ => elem
  | fuel + 1, n, elem, val =>
    if n = 0 then elem else
    let elem' := if n % 2 = 1 then elem.mul val else elem
    powiLoop fuel (n / 2) elem' (val.mul val)

/-- `powi`, functions.rs (n is a u64: 64 iterations suffice). The intermediate products round
    to nearest in every mode; only the final cast uses the format's own mode. -/
def powiInnerRm : RM → RM
  | .nta => .nta
  | _ => .nte

def Flt.powi (x : Flt) (n : Nat) : Flt :=
  let orig := x.sem
  let sem := (orig.increasePrecision 2).withRm (powiInnerRm orig.rm)
  (powiLoop 64 n (Flt.one sem false) (x.cast sem)).castWithRm orig orig.rm

def Flt.sqr (x : Flt) : Flt := x.powi 2

/-- Newton loop of `sqrt`, functions.rs (runs in the format `wide`, result cast back to `sem`) -/
def sqrtLoop (sem : Sem) : Nat → Flt → Flt → Flt → Option Flt
  | 0, _, _, _ => none
  | fuel + 1, target, x, prev =>
    let x1 := x.add (target.div x)
    let x2 := x1.scale (-1) .nte
    if prev.lt x2 || x2.beq prev then some (x2.cast sem) else sqrtLoop sem fuel target x2 x2

/-- `sqrt`, functions.rs -/
def Flt.sqrtFuel (fuel : Nat) (x : Flt) : Option Flt :=
  let sem := x.sem
  if x.isZero then some x
  else if x.isNan || x.sign then some (Flt.nan sem x.sign)
  else if x.isInf then some x
  else
    let wide := sem.increaseExponent 1
    let target := x.castWithRm wide .zero
    let two := fromU64 wide 2
    let x0 := if target.lt two then two else target
    sqrtLoop sem fuel target x0 x0

/-- `max`, functions.rs:71-88 -/
def Flt.max (a b : Flt) : Flt :=
  if a.isNan then b else if b.isNan then a
  else if a.sign != b.sign then (if a.sign then b else a)
  else if a.gt b then a else b

/-- `min`, functions.rs:91-108 -/
def Flt.min (a b : Flt) : Flt :=
  if a.isNan then b else if b.isNan then a
  else if a.sign != b.sign then (if a.sign then a else b)
  else if a.gt b then b else a

/-- the `while lhs >= rhs && lhs.is_normal()` loop of `rem` -/
def remLoop : Nat → Flt → Flt → Option Flt
  | 0, _, _ => none
  | fuel + 1, lhs, rhs =>
    if lhs.ge rhs && lhs.isNormal then
      let lhsTop : Int := lhs.exp + msb lhs.mant
      let rhsTop : Int := rhs.exp + msb rhs.mant
      let sc := lhsTop - rhsTop
      let d0 := rhs.scale sc .none
      let d := if d0.gt lhs then rhs.scale (sc - 1) .none else d0
      remLoop fuel (lhs.sub d) rhs
    else some lhs

/-- `rem`, functions.rs:227-266 -/
def Flt.remFuel (fuel : Nat) (x y : Flt) : Option Flt :=
  if x.isNan || y.isNan || x.isInf || y.isZero then some (Flt.nan x.sem x.sign)
  else if x.isZero || y.isInf then some x
  else
    let rhs := if y.sign then y.neg else y
    (remLoop fuel x.abs rhs).map (·.setSign x.sign)

end Arp
