import Arp.Model.Arith
/-!
# Implementation model — `cast.rs`
-/
namespace Arp

/-- `cast_with_rm`, cast.rs. -/
def Flt.castWithRm (x : Flt) (to : Sem) (rm : RM) : Flt :=
  match x.cat with
  | .zero => Flt.zero to x.sign
  | .inf => Flt.inf to x.sign
  | .nan => Flt.nan to x.sign
  | .normal =>
    let expDelta : Int := ((x.sem.p - 1 : Nat) : Int) - ((to.p - 1 : Nat) : Int)
    let y : Flt := ⟨to, x.sign, x.exp - expDelta, x.mant, .normal⟩
    if to.e ≠ x.sem.e ∨ to.p - 1 ≠ x.sem.p - 1 then y.normalize rm .zero else y

/-- `cast` -/
def Flt.cast (x : Flt) (to : Sem) : Flt := x.castWithRm to x.sem.rm

/-- `from_bigint` -/
def fromBigint (sem : Sem) (v : Nat) : Flt :=
  (Flt.new sem false ((sem.p - 1 : Nat) : Int) v).normalize sem.rm .zero

/-- `from_u64` -/
def fromU64 (sem : Sem) (v : Nat) : Flt := (fromBigint FP128 v).cast sem

/-- `from_i64` (argument as a mathematical integer in the i64 range). -/
def fromI64 (sem : Sem) (v : Int) : Flt :=
  if v < 0 then (fromU64 sem v.natAbs).setSign true else fromU64 sem v.toNat

/-- `convert_normal_to_integer` -/
def Flt.convertNormalToInteger (x : Flt) (rm : RM) : Nat :=
  let iExp : Int := x.exp - ((x.sem.p - 1 : Nat) : Int)
  if iExp < 0 then
    let bits := (-iExp).toNat
    let m := x.mant >>> bits
    let loss := lossOfBits x.mant bits
    if loss ≠ .zero ∧ needRoundAway x.sign m rm loss then m + 1 else m
  else x.mant <<< iExp.toNat

def i64Min : Int := -(2 ^ 63 : Nat)
def i64Max : Int := (2 ^ 63 : Nat) - 1

/-- `to_i64` -/
def Flt.toI64 (x : Flt) : Int :=
  if x.isNan || x.isZero then 0 else
  let saturated := if x.sign then i64Min else i64Max
  if x.isInf || x.exp ≥ 64 then saturated else
  let v := x.convertNormalToInteger x.sem.rm
  let limit : Nat := 2 ^ 63
  if x.sign then
    if v > limit then saturated else -(v : Int)
  else
    if v ≥ limit then saturated else (v : Int)

/-- `trunc`, cast.rs:64-89 -/
def Flt.trunc (x : Flt) : Flt :=
  if !x.isNormal then x else
  let mlen : Int := ((x.sem.p - 1 : Nat) : Int)
  if x.exp > mlen then x
  else if x.exp < -1 then Flt.zero x.sem x.sign
  else
    let trim := (mlen - x.exp).toNat
    Flt.new x.sem x.sign x.exp ((x.mant >>> trim) <<< trim)

/-- `round`, cast.rs:92-132 -/
def Flt.round (x : Flt) : Flt :=
  let sem := x.sem
  if !x.isNormal then x else
  let mlen : Int := ((sem.p - 1 : Nat) : Int)
  if x.exp > mlen then x
  else if x.exp = -1 then Flt.one sem x.sign
  else if x.exp < -2 then Flt.zero sem x.sign
  else
    let trim := (mlen - x.exp).toNat
    let loss := lossOfBits x.mant trim
    let t := Flt.new sem x.sign x.exp ((x.mant >>> trim) <<< trim)
    if loss.isLtHalf then t
    else if x.sign then subWithRm t (Flt.one sem false) sem.rm
    else addWithRm t (Flt.one sem false) sem.rm

/-- `utils::mask` -/
def maskBits (b : Nat) : Nat := 2 ^ b - 1

/-- `from_bits`, cast.rs:154-187 -/
def fromBits (sem : Sem) (bits : Nat) : Flt :=
  let mlen := sem.p - 1
  let biased : Nat := (bits >>> mlen) &&& maskBits sem.e
  let sign := ((bits >>> (sem.e + mlen)) &&& 1) == 1
  let mant0 := bits &&& maskBits mlen
  if biased = maskBits sem.e then
    (if mant0 = 0 then Flt.inf sem sign else Flt.nan sem sign)
  else
    let exp0 : Int := (biased : Int) - sem.bias
    if biased ≠ 0 then Flt.new sem sign exp0 (mant0 + (1 <<< mlen))
    else Flt.new sem sign (exp0 + 1) mant0

/-- `as_native_float`, cast.rs:222-260 -/
def Flt.asNativeFloat (x : Flt) : Nat :=
  let mlen := x.sem.p - 1
  let me : Nat × Nat :=
    match x.cat with
    | .inf => (0, maskBits x.sem.e)
    | .nan => (1 <<< (mlen - 1), maskBits x.sem.e)
    | .zero => (0, 0)
    | .normal =>
        let e := (x.exp + x.sem.bias).toNat
        let m := x.mant % 2 ^ 64
        let e' := if e = 1 ∧ (m >>> mlen) = 0 then 0 else e
        (m &&& maskBits mlen, e')
  let bits : Nat := if x.sign then 1 else 0
  let bits := (bits <<< x.sem.e) ||| me.2
  (bits <<< mlen) ||| me.1

def fromF32 (b : Nat) : Flt := fromBits FP32 b
def fromF64 (b : Nat) : Flt := fromBits FP64 b
def Flt.asF32 (x : Flt) : Nat := (x.cast FP32).asNativeFloat % 2 ^ 32
def Flt.asF64 (x : Flt) : Nat := (x.cast FP64).asNativeFloat

end Arp
