import Arp.Model.Str
/-!
# Glue around the core: error messages, `Display for Semantics`, `RoundingMode::as_string`,
`get_decimal_accuracy`, `BigInt::pseudorandom` (the LFSR of utils.rs) and `BigInt::default`

Kept apart from `Str.lean` so that the proof modules need not be rebuilt; tied to the code through the
`misc` and `parse` lines of the protocol.
-/
namespace Arp

/-- `impl Display for ParseError`, string.rs:379-392 -/
def ParseErr.message : ParseErr → String
  | .number => "Failed parsing number part of floating point number"
  | .exponent => "Failed parsing exponent of float number"
  | .empty => "The input provided was empty"

/-- `RoundingMode::as_string`, string.rs:149-158 -/
def RM.name : RM → String
  | .none => "None" | .nte => "NearestTiesToEven" | .nta => "NearestTiesToAway"
  | .zero => "Zero" | .pos => "Positive" | .neg => "Negative"

/-- `impl Display for Semantics`, string.rs:161-171 -/
def Sem.display (s : Sem) : String :=
  "(exponent:" ++ toString s.e ++ " precision:" ++ toString s.p ++ " rm:" ++ s.rm.name ++ ")"

/-- `get_decimal_accuracy`, string.rs:54-60: `2 + mantissa_len * 59 / 196` with `mantissa_len = precision - 1` -/
def Sem.decimalAccuracy (s : Sem) : Nat := 2 + ((s.p - 1) * 59) / 196

/-! ### utils.rs: the 32-bit linear-feedback shift register behind `BigInt::pseudorandom` -/

/-- `Lfsr::next`: taps 24, 23, 22, 17, inverted feedback; the state is a `u32` (the shift drops bit 31) -/
def lfsrNext (s : Nat) : Nat :=
  (2 * s) % 2 ^ 32 + ((s >>> 24) % 2 + (s >>> 23) % 2 + (s >>> 22) % 2 + (s >>> 17) % 2 + 1) % 2

/-- `Lfsr::get`: 32 steps, collecting the low state bit, most significant first; returns (state, word) -/
def lfsrGetAux : Nat → Nat → Nat → Nat × Nat
  | 0, s, res => (s, res)
  | k + 1, s, res =>
    lfsrGetAux k (lfsrNext s) ((2 * res) % 2 ^ 32 + lfsrNext s % 2)

def lfsrGet (s : Nat) : Nat × Nat := lfsrGetAux 32 s 0

/-- `Lfsr::get64`: high half first -/
def lfsrGet64 (s : Nat) : Nat × Nat :=
  ((lfsrGet (lfsrGet s).1).1, (lfsrGet s).2 * 2 ^ 32 + (lfsrGet (lfsrGet s).1).2)

/-- `from_iter(&mut lfsr, k)`: the first `k` words, least significant word first -/
def lfsrWords : Nat → Nat → List Nat
  | 0, _ => []
  | k + 1, s => (lfsrGet64 s).2 :: lfsrWords k (lfsrGet64 s).1

/-- `BigInt::pseudorandom(parts, seed)`: `Lfsr::new_with_seed` xors the seed into `0x13371337` -/
def pseudorandom (parts seed : Nat) : List Nat := lfsrWords parts (0x13371337 ^^^ seed)

theorem lfsrWords_length (k s : Nat) : (lfsrWords k s).length = k := by
  induction k generalizing s with
  | zero => rfl
  | succ k ih => simp [lfsrWords, ih]

/-- the result has exactly the requested number of words -/
theorem pseudorandom_length (parts seed : Nat) : (pseudorandom parts seed).length = parts :=
  lfsrWords_length _ _

theorem lfsrNext_lt (s : Nat) : lfsrNext s < 2 ^ 32 := by
  unfold lfsrNext
  have h1 : (2 * s) % 2 ^ 32 < 2 ^ 32 := Nat.mod_lt _ (by decide)
  have h2 : (2 * s) % 2 ^ 32 % 2 = 0 := by omega
  have h3 : ((s >>> 24) % 2 + (s >>> 23) % 2 + (s >>> 22) % 2 + (s >>> 17) % 2 + 1) % 2 < 2 := Nat.mod_lt _ (by decide)
  omega

theorem lfsrGetAux_lt (k s res : Nat) (hs : s < 2 ^ 32) (hr : res < 2 ^ 32) :
    (lfsrGetAux k s res).1 < 2 ^ 32 ∧ (lfsrGetAux k s res).2 < 2 ^ 32 := by
  induction k generalizing s res with
  | zero => exact ⟨hs, hr⟩
  | succ k ih =>
    simp only [lfsrGetAux]
    apply ih
    · exact lfsrNext_lt s
    · have h1 : (2 * res) % 2 ^ 32 < 2 ^ 32 := Nat.mod_lt _ (by decide)
      have h2 : (2 * res) % 2 ^ 32 % 2 = 0 := by omega
      omega

theorem lfsrGet64_lt (s : Nat) (hs : s < 2 ^ 32) :
    (lfsrGet64 s).1 < 2 ^ 32 ∧ (lfsrGet64 s).2 < 2 ^ 64 := by
  unfold lfsrGet64 lfsrGet
  have a := lfsrGetAux_lt 32 s 0 hs (by decide)
  have b := lfsrGetAux_lt 32 (lfsrGetAux 32 s 0).1 0 a.1 (by decide)
  refine ⟨b.1, ?_⟩
  have ha := a.2; have hb := b.2
  show (lfsrGetAux 32 s 0).2 * 2 ^ 32 + (lfsrGetAux 32 (lfsrGetAux 32 s 0).1 0).2 < 2 ^ 64
  omega

theorem lfsrWords_word_lt (k s : Nat) (hs : s < 2 ^ 32) : ∀ w ∈ lfsrWords k s, w < 2 ^ 64 := by
  induction k generalizing s with
  | zero => intro w hw; simp [lfsrWords] at hw
  | succ k ih =>
    intro w hw
    simp only [lfsrWords, List.mem_cons] at hw
    rcases hw with rfl | hw
    · exact (lfsrGet64_lt s hs).2
    · exact ih _ (lfsrGet64_lt s hs).1 w hw

/-- every word of `pseudorandom` fits a `u64` (for a `u32` seed): no arithmetic of the generator wraps
    except the documented shift of the state -/
theorem pseudorandom_word_lt (parts seed : Nat) (h : seed < 2 ^ 32) :
    ∀ w ∈ pseudorandom parts seed, w < 2 ^ 64 := by
  apply lfsrWords_word_lt
  exact Nat.xor_lt_two_pow (by decide) h

end Arp
