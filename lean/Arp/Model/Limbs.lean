import Arp.Model.Basic
/-!
# Limb-level implementation model — `bigint.rs` (and `as_decimal`/`as_binary` of `string.rs`)

Core-only, executable, every recursion structural (so that `decide` can evaluate it).
A `BigInt { parts: Vec<u64> }` is a `List Nat`, little-endian, each limb `< 2^64`.
One `def` per Rust function, same case structure; `&mut self` becomes a returned value,
index loops become structural recursions that walk the vectors in the same order.
Result lists have exactly the length the Rust code produces.

Conventions
* `overflowing_add/sub` on `u64` are `oadd/osub` (value modulo `2^64`, flag).
* `parts`/`carries` of `inplace_mul_slice` are kept zipped (`List (Nat × Nat)`).
* the digit output vector of `to_digits` is kept *reversed* (`push` = `::`), so the final
  `reverse()` is the identity and "pop trailing zeros" is "drop leading zeros".
* panics / debug assertions that are not provably dead by typing are exposed as Booleans
  (`mulSliceOk`, `toDigitsOk`).  A division by zero is *not* modelled (Rust panics).
-/
namespace Arp.Limbs

/-- the limb base `2^64` -/
def B : Nat := 2 ^ 64

/-- value of a little-endian limb list (Horner) -/
def val : List Nat → Nat
  | [] => 0
  | w :: ws => w + B * val ws

/-- every limb is a `u64` -/
def WF (l : List Nat) : Prop := ∀ w ∈ l, w < B

instance (l : List Nat) : Decidable (WF l) := by unfold WF; exact inferInstance

/-- `u64::overflowing_add` -/
def oadd (a b : Nat) : Nat × Bool := ((a + b) % B, decide (B ≤ a + b))
/-- `u64::overflowing_sub` -/
def osub (a b : Nat) : Nat × Bool := ((a + B - b) % B, decide (a < b))

/-- `BigInt::zero` -/
def zero : List Nat := [0]
/-- `BigInt::one` -/
def one : List Nat := [1]
/-- `BigInt::from_u64` -/
def fromU64 (v : Nat) : List Nat := [v]
/-- `BigInt::from_u128` -/
def fromU128 (v : Nat) : List Nat := [v % B, (v / B) % B]

/-- `BigInt::grow`: `for _ in len..size { push(0) }` -/
def grow (l : List Nat) (size : Nat) : List Nat := l ++ List.replicate (size - l.length) 0

/-- drops the most significant zero words of a list (helper of `shrink`) -/
def dropTop0 : List Nat → List Nat
  | [] => []
  | w :: ws =>
    let r := dropTop0 ws
    if r.isEmpty && w == 0 then [] else w :: r

/-- `BigInt::shrink`: `while len > 2 && parts[len-1] == 0 { pop }`.
Loop characterisation proved in `Arp/Lemmas/Limbs.lean` (`shrink_append_zero`, `shrink_stop`). -/
def shrink : List Nat → List Nat
  | a :: b :: rest => a :: b :: dropTop0 rest
  | l => l

/-- `BigInt::is_zero` -/
def isZero (l : List Nat) : Bool := l.all (· == 0)

/-- `parts[i] ^= m` -/
def xorAt : List Nat → Nat → Nat → List Nat
  | [], _, _ => []
  | w :: ws, 0, m => (w ^^^ m) :: ws
  | w :: ws, i + 1, m => w :: xorAt ws i m

/-- `BigInt::flip_bit` -/
def flipBit (l : List Nat) (bitNum : Nat) : List Nat :=
  let whichWord := bitNum / 64
  let bitInWord := bitNum % 64
  xorAt (grow l (whichWord + 1)) whichWord (1 <<< bitInWord)

/-- `BigInt::one_hot` -/
def oneHot (bit : Nat) : List Nat := flipBit zero bit

/-- `BigInt::mask` (the loop variable `bits` is the second argument) -/
def mask : List Nat → Nat → List Nat
  | [], _ => []
  | w :: ws, bits =>
    if bits ≥ 64 then w :: mask ws (bits - 64)
    else if bits = 0 then 0 :: mask ws 0
    else (w &&& ((1 <<< bits) - 1)) :: mask ws 0

/-- loop of `msb_index`, on the reversed list: `i = ws.length` -/
def msbRev : List Nat → Nat
  | [] => 0
  | w :: ws => if w ≠ 0 then ws.length * 64 + (Nat.log2 w + 1) else msbRev ws

/-- `BigInt::msb_index` (`64 - leading_zeros(part)` = `log2 part + 1` for `part ≠ 0`) -/
def msbIndex (l : List Nat) : Nat := msbRev l.reverse

/-- `u64::trailing_zeros` (64 for 0) -/
def ctz : Nat → Nat → Nat
  | 0, _ => 0
  | f + 1, w => if w % 2 = 1 then 0 else 1 + ctz f (w / 2)

/-- loop of `trailing_zeros` from word index `i` (the Rust code panics on zero; 0 here) -/
def tzFrom : Nat → List Nat → Nat
  | _, [] => 0
  | i, w :: ws => if w ≠ 0 then i * 64 + ctz 64 w else tzFrom (i + 1) ws

/-- `BigInt::trailing_zeros` -/
def trailingZeros (l : List Nat) : Nat := tzFrom 0 l

/-! ### comparison (`Ord for BigInt`) -/

/-- `for i in (0..same_len).rev()` on the reversed prefixes -/
def cmpRev : List Nat → List Nat → Ordering
  | x :: xs, y :: ys => if x < y then .lt else if x > y then .gt else cmpRev xs ys
  | _, _ => .eq

/-- `BigInt::cmp` -/
def cmp (a b : List Nat) : Ordering :=
  if a.length > b.length && (a.drop b.length).any (· != 0) then .gt
  else if b.length > a.length && (b.drop a.length).any (· != 0) then .lt
  else
    let sameLen := min b.length a.length
    cmpRev (a.take sameLen).reverse (b.take sameLen).reverse

/-! ### addition -/

/-- second loop of `inplace_add_slice` (carry propagation) and the final `push(1)` -/
def addCarry : List Nat → Bool → List Nat
  | [], c => if c then [1] else []
  | s :: ss, c =>
    let second := oadd s c.toNat
    second.1 :: addCarry ss second.2

/-- first loop of `inplace_add_slice`; `self` has been grown to at least `rhs.len()` -/
def addLoop : List Nat → List Nat → Bool → List Nat
  | s :: ss, r :: rs, c =>
    let first := oadd s r
    let second := oadd first.1 c.toNat
    second.1 :: addLoop ss rs (first.2 || second.2)
  | ss, [], c => addCarry ss c
  | [], _ :: _, c => addCarry [] c        -- unreachable after `grow`

/-- `BigInt::inplace_add_slice` (= `inplace_add`) -/
def addSlice (self rhs : List Nat) : List Nat :=
  shrink (addLoop (grow self rhs.length) rhs false)

/-! ### subtraction -/

/-- second loop of `inplace_sub_slice` -/
def subBorrow : List Nat → Bool → List Nat × Bool
  | [], c => ([], c)
  | s :: ss, c =>
    let second := osub s c.toNat
    let r := subBorrow ss second.2
    (second.1 :: r.1, r.2)

/-- first loop of `inplace_sub_slice`; the lowest `bz` words are skipped -/
def subLoop : List Nat → List Nat → Nat → Bool → List Nat × Bool
  | s :: ss, _ :: rs, bz + 1, c =>
    let r := subLoop ss rs bz c
    (s :: r.1, r.2)
  | s :: ss, r :: rs, 0, c =>
    let first := osub s r
    let second := osub first.1 c.toNat
    let t := subLoop ss rs 0 (first.2 || second.2)
    (second.1 :: t.1, t.2)
  | ss, [], _, c => subBorrow ss c
  | [], _ :: _, _, c => ([], c)           -- unreachable after `grow`

/-- `BigInt::inplace_sub_slice`: (new self, borrow) -/
def subSlice (self rhs : List Nat) (bottomZeros : Nat) : List Nat × Bool :=
  let r := subLoop (grow self rhs.length) rhs bottomZeros false
  (shrink r.1, r.2)

/-! ### shifts -/

/-- body of the second loop of `shift_left`, walking upwards; `prev` is `parts[i-wts-1]` -/
def shlWords (b : Nat) : Nat → List Nat → List Nat
  | _, [] => []
  | prev, x :: xs => (((x <<< b) % B) ||| (prev >>> (64 - b))) :: shlWords b x xs

/-- `BigInt::shift_left` (no shrink; the result has `len + bits/64 + 1` words) -/
def shiftLeft (l : List Nat) (bits : Nat) : List Nat :=
  let wts := bits / 64
  let bitsInWord := bits % 64
  let ext := l ++ List.replicate (wts + 1) 0
  if bitsInWord = 0 then
    List.replicate wts 0 ++ ext.take (ext.length - wts)
  else
    List.replicate wts 0 ++ shlWords bitsInWord 0 (ext.take (ext.length - wts))

/-- body of the second loop of `shift_right` on `parts[wts..]` -/
def shrWords (b : Nat) : List Nat → List Nat
  | [] => []
  | [x] => [x >>> b]
  | x :: y :: r => ((x >>> b) ||| ((y <<< (64 - b)) % B)) :: shrWords b (y :: r)

/-- `BigInt::shift_right` -/
def shiftRight (l : List Nat) (bits : Nat) : List Nat :=
  let wts := bits / 64
  let bitsInWord := bits % 64
  if bitsInWord = 0 then shrink (grow (l.drop wts) l.length)
  else shrink (grow (shrWords bitsInWord (l.drop wts)) l.length)

/-- `BigInt::all1s` -/
def all1s (bits : Nat) : List Nat :=
  if bits = 0 then zero else (subSlice (shiftLeft one bits) one 0).1

/-- `BigInt::get_loss_kind_for_bit` -/
def getLossKindForBit (l : List Nat) (bit : Nat) : Loss :=
  if isZero l then .zero
  else if bit > l.length * 64 then .lt
  else
    let a := mask l bit
    if isZero a then .zero
    else
      let half := oneHot (bit - 1)
      match cmp a half with
      | .lt => .lt
      | .eq => .half
      | .gt => .gt

/-! ### schoolbook multiplication -/

/-- inner `j` loop of `inplace_mul_slice` for one `i`; the list holds
`(parts[k], carries[k])` for `k ≥ i`. -/
def mulRow (pi : Nat) : List Nat → List (Nat × Nat) → List (Nat × Nat)
  | r :: rs, (p0, c0) :: (p1, c1) :: pcs =>
    let pij := pi * r
    let add0 := oadd p0 (pij % B)
    let add1 := oadd p1 (pij / B)
    (add0.1, c0 + add0.2.toNat) :: mulRow pi rs ((add1.1, c1 + add1.2.toNat) :: pcs)
  | _, pcs => pcs

/-- outer `i` loop -/
def mulRows : List Nat → List Nat → List (Nat × Nat) → List (Nat × Nat)
  | [], _, pcs => pcs
  | a :: as, rhs, pcs =>
    match mulRow a rhs pcs with
    | pc :: rest => pc :: mulRows as rhs rest
    | [] => []

/-- final carry propagation loop: (new parts, final carry) -/
def mulFinal : List (Nat × Nat) → Nat → List Nat × Nat
  | [], carry => ([], carry)
  | (p, c) :: rest, carry =>
    let add0 := oadd p carry
    let r := mulFinal rest (add0.2.toNat + c)
    (add0.1 :: r.1, r.2)

/-- the `parts`/`carries` vectors after the double loop -/
def mulAcc (self rhs : List Nat) : List (Nat × Nat) :=
  mulRows self rhs (List.replicate (self.length + rhs.length + 1) (0, 0))

/-- `BigInt::inplace_mul_slice` -/
def mulSlice (self rhs : List Nat) : List Nat :=
  shrink (mulFinal (mulAcc self rhs) 0).1

/-- `assert!(carry == 0)` holds and no `u64` carry counter overflowed -/
def mulSliceOk (self rhs : List Nat) : Bool :=
  (mulFinal (mulAcc self rhs) 0).2 == 0 && (mulAcc self rhs).all (fun pc => decide (pc.2 + 1 < B))

/-! ### Karatsuba -/

/-- `BigInt::mul_karatsuba`; `fuel` bounds the recursion depth (`max len` suffices; an
exhausted fuel returns the wrong value `[]`, so the correctness theorem shows it is enough) -/
def mulKaratsubaF : Nat → List Nat → List Nat → List Nat
  | 0, _, _ => []
  | fuel + 1, lhs, rhs =>
    if min lhs.length rhs.length < 64 then
      if lhs.isEmpty || rhs.isEmpty then zero else mulSlice lhs rhs
    else
      let mid := max lhs.length rhs.length / 2
      let a := lhs.take (min mid lhs.length)
      let b := lhs.drop (min mid lhs.length)
      let c := rhs.take (min mid rhs.length)
      let d := rhs.drop (min mid rhs.length)
      let ac := mulKaratsubaF fuel a c
      let bd := mulKaratsubaF fuel b d
      let a_b := addSlice a b
      let c_d := addSlice c d
      let adbc := mulKaratsubaF fuel a_b c_d
      let adbc := (subSlice adbc ac 0).1
      let adbc := (subSlice adbc bd 0).1
      let bd := shiftLeft bd (64 * mid * 2)
      let adbc := shiftLeft adbc (64 * mid)
      let bd := addSlice bd adbc
      addSlice bd ac

def mulKaratsuba (lhs rhs : List Nat) : List Nat :=
  mulKaratsubaF (max lhs.length rhs.length + 1) lhs rhs

/-- `BigInt::inplace_mul` -/
def mul (self rhs : List Nat) : List Nat :=
  if self.length > 64 || rhs.length > 64 then mulKaratsuba self rhs else mulSlice self rhs

/-! ### division -/

/-- `for i in (0..bits+1).rev()`; `divLoop (i+1)` runs iteration `i` -/
def divLoop : Nat → List Nat → List Nat → List Nat → List Nat × List Nat
  | 0, dividend, _, quotient => (quotient, dividend)
  | i + 1, dividend, divisor, quotient =>
    let lowZeros := i / 64
    if cmp dividend divisor != .lt then
      divLoop i (subSlice dividend divisor lowZeros).1 (shiftRight divisor 1) (flipBit quotient i)
    else
      divLoop i dividend (shiftRight divisor 1) quotient

/-- `BigInt::inplace_div`: (quotient = new self, remainder) -/
def divRem (self divisor : List Nat) : List Nat × List Nat :=
  if self.length == 1 && divisor.length == 1 then
    let a := self.headD 0
    let b := divisor.headD 0
    ([a / b], fromU64 (a % b))
  else
    let dividendMsb := msbIndex self
    let divisorMsb := msbIndex divisor
    if divisorMsb > dividendMsb then (zero, self)
    else
      let bits := dividendMsb - divisorMsb
      let r := divLoop (bits + 1) self (shiftLeft divisor bits) zero
      (shrink r.1, r.2)

/-! ### powers -/

/-- the `loop` of `powi`; 64 iterations suffice for a `u64` exponent -/
def powiLoop : Nat → List Nat → List Nat → Nat → List Nat
  | 0, v, _, _ => v
  | fuel + 1, v, base, exp =>
    let v := if exp % 2 = 1 then mul v base else v
    let exp := exp / 2
    if exp = 0 then v else powiLoop fuel v (mul base base) exp

/-- `BigInt::powi` (`exp : u64`) -/
def powi (self : List Nat) (exp : Nat) : List Nat := powiLoop 64 one self exp

/-! ### digit extraction -/

/-- `8 - DIGIT.leading_zeros()` for a `u8` -/
def bitLen (d : Nat) : Nat := if d = 0 then 0 else Nat.log2 d + 1

/-- `extract_digits`: `out` is the reversed output vector -/
def extractDigits (base : Nat) : Nat → List Nat → List Nat → List Nat × List Nat
  | 0, num, out => (num, out)
  | n + 1, num, out =>
    let qr := divRem num (fromU64 base)
    extractDigits base n qr.1 ((qr.2.headD 0 % 256) :: out)

/-- the word loop of the leaf case of `to_digits_impl` -/
def leafLoop (base dpw : Nat) (divisor : List Nat) : Nat → List Nat → List Nat → List Nat × List Nat
  | 0, num, out => (num, out)
  | n + 1, num, out =>
    let qr := divRem num divisor
    let e := extractDigits base dpw qr.2 out
    leafLoop base dpw divisor n qr.1 e.2

/-- `to_digits_impl::<base>`: (num, out, ok); `ok = false` iff `num_digits - k` underflows
(or the recursion fuel `num.len()` is exhausted, which means non-termination in Rust). -/
def toDigitsImpl (base : Nat) : Nat → List Nat → Nat → List Nat → List Nat × List Nat × Bool
  | 0, num, _, out => (num, out, false)
  | fuel + 1, num, numDigits, out =>
    let bitsPerDigit := bitLen base
    let digitsPerWord := 64 / bitsPerDigit
    let len := num.length
    if len > 5 then
      let half := len / 2 - 1
      let k := digitsPerWord * half
      let megaDigit := powi (fromU64 base) k
      let qr := divRem num megaDigit
      let t := toDigitsImpl base fuel qr.2 k out
      let h := toDigitsImpl base fuel qr.1 (numDigits - k) t.2.1
      (h.1, h.2.1, t.2.2 && h.2.2 && decide (k ≤ numDigits))
    else
      let divisor := fromU64 (base ^ digitsPerWord)
      let l := leafLoop base digitsPerWord divisor (numDigits / digitsPerWord) num out
      let e := extractDigits base (numDigits % digitsPerWord) l.1 l.2
      (e.1, e.2, true)

/-- `while !num.is_zero()` of `to_digits` -/
def toDigitsLoop (base : Nat) : Nat → List Nat → List Nat → Bool → List Nat × Bool
  | 0, num, out, ok => (out, ok && isZero num)
  | fuel + 1, num, out, ok =>
    if !isZero num then
      let len := num.length
      let digits := (len * 64 * 59) / 196
      let r := toDigitsImpl base (len + 1) num digits out
      toDigitsLoop base fuel r.1 r.2.1 (ok && r.2.2)
    else (out, ok)

/-- `while output.len() > 1 && output[last] == 0 { pop }` on the reversed vector -/
def stripLead : List Nat → List Nat
  | 0 :: x :: xs => stripLead (x :: xs)
  | l => l

/-- `to_digits::<base>` with its "no panic, terminates" flag -/
def toDigitsAux (base : Nat) (self : List Nat) : List Nat × Bool :=
  let num := shrink self
  let r := toDigitsLoop base (64 * num.length + 1) num [] true
  (stripLead r.1, r.2)

def toDigits (base : Nat) (self : List Nat) : List Nat := (toDigitsAux base self).1
def toDigitsOk (base : Nat) (self : List Nat) : Bool := (toDigitsAux base self).2

/-! ### `string.rs`: `as_decimal`, `as_binary` -/

def decChar (d : Nat) : Char := Char.ofNat (d + 48)

/-- `while !val.is_zero() { rem = val.inplace_div(ten); buff.insert(0, digits[rem]) }` -/
def asDecimalLoop : Nat → List Nat → List Char → List Char
  | 0, _, buff => buff
  | fuel + 1, v, buff =>
    if !isZero v then
      let qr := divRem v (fromU64 10)
      asDecimalLoop fuel qr.1 (decChar (qr.2.headD 0) :: buff)
    else buff

def asDecimalChars (self : List Nat) : List Char :=
  if isZero self then ['0'] else asDecimalLoop (64 * self.length + 1) self []

/-- `BigInt::as_decimal` -/
def asDecimal (self : List Nat) : String := String.ofList (asDecimalChars self)

def bitChar (part : Nat) : Char := if part % 2 = 1 then '1' else '0'

/-- `for _ in 0..64 { sb.insert(0, last); part /= 2 }` -/
def binWord : Nat → Nat → List Char → List Char
  | 0, _, sb => sb
  | n + 1, part, sb => binWord n (part / 2) (bitChar part :: sb)

/-- `while part > 0 { sb.insert(0, last); part /= 2 }` (at most 64 iterations) -/
def binTop : Nat → Nat → List Char → List Char
  | 0, _, sb => sb
  | n + 1, part, sb => if part > 0 then binTop n (part / 2) (bitChar part :: sb) else sb

/-- `for i in 0..=top_non_zero` over `parts[0..=top]` -/
def asBinaryLoop : List Nat → List Char → List Char
  | [], sb => sb
  | [w], sb => binTop 64 w sb
  | w :: ws, sb => asBinaryLoop ws (binWord 64 w sb)

/-- the search for `top_non_zero` on the reversed list -/
def topNonZeroRev : List Nat → Nat
  | [] => 0
  | w :: ws => if w ≠ 0 then ws.length else topNonZeroRev ws

def asBinaryChars (self : List Nat) : List Char :=
  if self.isEmpty || isZero self then ['0']
  else
    let top := topNonZeroRev self.reverse
    let sb := asBinaryLoop (self.take (top + 1)) []
    if sb.isEmpty then ['0'] else sb

/-- `BigInt::as_binary` -/
def asBinary (self : List Nat) : String := String.ofList (asBinaryChars self)

end Arp.Limbs
