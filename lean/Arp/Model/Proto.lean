import Arp.Model.Funcs
import Arp.Spec.Ops
/-!
# Line protocol: token parsing / printing shared by the driver
-/
namespace Arp
namespace Proto

def hexDigit (c : Char) : Option Nat :=
  if '0' ≤ c ∧ c ≤ '9' then some (c.toNat - '0'.toNat)
  else if 'a' ≤ c ∧ c ≤ 'f' then some (c.toNat - 'a'.toNat + 10)
  else if 'A' ≤ c ∧ c ≤ 'F' then some (c.toNat - 'A'.toNat + 10)
  else none

def parseHex (s0 : String) : Option Nat :=
  -- `hex~len`: the harness stores the value in `len` words (leading zero words); the value is what the model sees
  let s := (s0.splitOn "~").headD ""
  if s.isEmpty then none else
  s.foldl (fun acc c => match acc, hexDigit c with
    | some a, some d => some (a * 16 + d)
    | _, _ => none) (some 0)

def hexChar (d : Nat) : Char :=
  if d < 10 then Char.ofNat (d + '0'.toNat) else Char.ofNat (d - 10 + 'a'.toNat)

partial def toHexAux (n : Nat) (acc : List Char) : List Char :=
  if n < 16 then hexChar n :: acc else toHexAux (n / 16) (hexChar (n % 16) :: acc)

def toHex (n : Nat) : String := String.ofList (toHexAux n [])

def parseRM : String → Option RM
  | "O" => some .none | "E" => some .nte | "A" => some .nta
  | "Z" => some .zero | "P" => some .pos | "N" => some .neg
  | _ => none

def showRM : RM → String
  | .none => "O" | .nte => "E" | .nta => "A" | .zero => "Z" | .pos => "P" | .neg => "N"

def parseSem (s : String) : Option Sem :=
  match s.splitOn "," with
  | [e, p, m] => do
      let e ← e.toNat?
      let p ← p.toNat?
      let m ← parseRM m
      pure ⟨e, p, m⟩
  | _ => none

def showSem (s : Sem) : String := s!"{s.e},{s.p},{showRM s.rm}"

/-- float token `N0:exp:hex`, `Z1:0:0`, `I0:0:0`, `X0:0:0` (without the `@sem` suffix) -/
def parseFlt (sem : Sem) (s : String) : Option Flt :=
  match s.splitOn ":" with
  | [cs, e, m] => do
      let e ← e.toInt?
      let m ← parseHex m
      let sign ← (match cs.toList with
        | [_, '0'] => some false | [_, '1'] => some true | _ => none)
      let cat ← (match cs.toList with
        | 'N' :: _ => some Cat.normal | 'Z' :: _ => some Cat.zero
        | 'I' :: _ => some Cat.inf | 'X' :: _ => some Cat.nan | _ => none)
      let x : Flt := ⟨sem, sign, e, m, cat⟩
      -- every operand must be canonical (the generators' contract); anything else is a
      -- defect of the machinery and is reported as a protocol error, never as a violation
      if x.isCanonical then pure x else none
  | _ => none

/-- like `parseFlt` but without the canonicity requirement (used to judge an implementation's answer);
    accepts the sign-less NaN form `X:e:m` -/
def parseFltAny (sem : Sem) (s : String) : Option Flt :=
  match s.splitOn ":" with
  | [cs, e, m] => do
      let e ← e.toInt?
      let m ← parseHex m
      let sign := (match cs.toList with | [_, '1'] => true | _ => false)
      let cat ← (match cs.toList with
        | 'N' :: _ => some Cat.normal | 'Z' :: _ => some Cat.zero
        | 'I' :: _ => some Cat.inf | 'X' :: _ => some Cat.nan | _ => none)
      pure ⟨sem, sign, e, m, cat⟩
  | _ => none

def showCatSign (c : Cat) (sg : Bool) : String :=
  (match c with | .normal => "N" | .zero => "Z" | .inf => "I" | .nan => "X") ++
  (match c with | .nan => "" | _ => if sg then "1" else "0")

/-- printed form of a value: NaN's sign is dropped (no property constrains it) -/
def showFlt (x : Flt) : String :=
  s!"{showCatSign x.cat x.sign}:{x.exp}:{toHex x.mant}@{showSem x.sem}"

def showRes (F : Sem) : Res → String
  | .zero s => s!"Z{if s then 1 else 0}:0:0@{showSem F}"
  | .inf s => s!"I{if s then 1 else 0}:0:0@{showSem F}"
  | .nan => s!"X:0:0@{showSem F}"
  | .fin s e m => s!"N{if s then 1 else 0}:{e}:{toHex m}@{showSem F}"

def showOrd : Option Ordering → String
  | none => "U" | some .lt => "L" | some .eq => "E" | some .gt => "G"

def b01 (b : Bool) : String := if b then "1" else "0"

end Proto
end Arp
