import Arp.Model.Proto
import Arp.Model.Trans
import Arp.Model.Str
import Arp.Model.Limbs
import Arp.Model.Misc
/-!
# `arpdrv` — line protocol driver

One request per line on stdin; one answer per line on stdout:
`<model result>\t<spec result or ->\t<tag>`.
The model result is what the implementation must print for the same line
(correspondence); the spec result is the property's oracle.
-/
open Arp Arp.Proto

def hexBytes (h : String) : Option (List Nat) :=
  if h == "-" then some [] else
  let rec go : List Char → Option (List Nat)
    | [] => some []
    | [_] => none
    | a :: b :: r => match hexDigit a, hexDigit b, go r with
      | some x, some y, some t => some ((x * 16 + y) :: t)
      | _, _, _ => none
  go h.toList

/-- `hex/len` -> (value, limb count); plain `hex` means the minimal limb count (at least 1) -/
def parseBigTok (t : String) : Option (Nat × Nat) :=
  match t.splitOn "/" with
  | [h] => (parseHex h).map (fun v => (v, max 1 ((Nat.log2 v) / 64 + 1)))
  | [h, l] => (match parseHex h, l.toNat? with
      | some v, some n => some (v, max n (max 1 ((Nat.log2 v) / 64 + 1)))
      | _, _ => none)
  | _ => none

def binDigits (n : Nat) : String := if n = 0 then "0" else String.ofList (Nat.toDigits 2 n)

/-- Nat-level specification of the BigInt operations (C09) -/
def bigSpec (op : String) (args : List String) : Option String :=
  match op, args with
  | "add", [a, b] => do let (x, _) ← parseBigTok a; let (y, _) ← parseBigTok b; pure (toHex (x + y))
  | "sub", [a, b] => do
      let (x, lx) ← parseBigTok a; let (y, ly) ← parseBigTok b
      if y ≤ x then pure (toHex (x - y) ++ " 0") else pure (toHex (x + 2 ^ (64 * max lx ly) - y) ++ " 1")
  | "mul", [a, b] => do let (x, _) ← parseBigTok a; let (y, _) ← parseBigTok b; pure (toHex (x * y))
  | "div", [a, b] => do
      let (x, _) ← parseBigTok a; let (y, _) ← parseBigTok b
      if y = 0 then none else pure (toHex (x / y) ++ " " ++ toHex (x % y))
  | "u128", [a] => do let (x, _) ← parseBigTok a; if x < 2 ^ 128 then pure (toHex x) else none
  | "shl", [a, n] => do let (x, _) ← parseBigTok a; let k ← n.toNat?; pure (toHex (x <<< k))
  | "shr", [a, n] => do let (x, _) ← parseBigTok a; let k ← n.toNat?; pure (toHex (x >>> k))
  | "mask", [a, n] => do let (x, _) ← parseBigTok a; let k ← n.toNat?; pure (toHex (x % 2 ^ k))
  | "powi", [a, n] => do let (x, _) ← parseBigTok a; let k ← n.toNat?; pure (toHex (x ^ k))
  | "msb", [a] => do let (x, _) ← parseBigTok a; pure (toString (msb x))
  | "tz", [a] => do
      let (x, _) ← parseBigTok a
      if x = 0 then none else
      let rec go (fuel v c : Nat) : Nat := match fuel with
        | 0 => c
        | f + 1 => if v % 2 = 1 then c else go f (v / 2) (c + 1)
      pure (toString (go (Nat.log2 x + 2) x 0))
  | "cmp", [a, b] => do let (x, _) ← parseBigTok a; let (y, _) ← parseBigTok b
                        pure (showOrd (some (compare x y)) ++ " " ++ b01 (x == y) ++ " " ++ b01 (x < y))
  | "dec", [a] => do let (x, _) ← parseBigTok a; pure (toString x)
  | "bin", [a] => do let (x, _) ← parseBigTok a; pure (binDigits x)
  | "flags", [a] => do let (x, _) ← parseBigTok a; pure (b01 (x == 0) ++ " " ++ b01 (x % 2 == 0) ++ " " ++ b01 (x % 2 == 1))
  | "allones", [n] => do let k ← n.toNat?; pure (toHex (2 ^ k - 1))
  | "onehot", [n] => do let k ← n.toNat?; pure (toHex (2 ^ k))
  | _, _ => none

/-- C07: the model on FP64/FP32 bit patterns (NaN results print as `nan`) -/
def natOp (wide : Bool) (op : String) (a b : Nat) : Option String :=
  let F := if wide then FP64 else FP32
  let x := fromBits F a
  let y := fromBits F b
  let enc (v : Flt) : String :=
    let w := if wide then v.asF64 else v.asF32
    if (v.cast F).isNan then "nan" else toString w
  match op with
  | "add" => some (enc (x.add y)) | "sub" => some (enc (x.sub y))
  | "mul" => some (enc (x.mul y)) | "div" => some (enc (x.div y))
  | "rem" => (x.remFuel 4000000 y).map enc
  | "trunc" => some (enc x.trunc) | "round" => some (enc x.round)
  | "tof32" => some (if (x.cast FP32).isNan then "nan" else toString x.asF32)
  | "cmp" => some (b01 (x.lt y) ++ b01 (x.le y) ++ b01 (x.gt y) ++ b01 (x.ge y) ++ b01 (x.beq y))
  | _ => none

/-- limb list (little endian) of a `hex/len` token -/
def toLimbs (v len : Nat) : List Nat := (List.range len).map (fun i => (v >>> (64 * i)) % 2 ^ 64)

/-- the limb-level MODEL of the BigInt operations (same answer format as `bigSpec`) -/
def bigModel (op : String) (args : List String) : Option String :=
  let lim (t : String) : Option (List Nat) := (parseBigTok t).map (fun vl => toLimbs vl.1 vl.2)
  let hv (l : List Nat) : String := toHex (Limbs.val l)
  match op, args with
  | "add", [a, b] => do let x ← lim a; let y ← lim b; pure (hv (Limbs.addSlice x y))
  | "sub", [a, b] => do let x ← lim a; let y ← lim b
                        let r := Limbs.subSlice x y 0
                        pure (hv r.1 ++ " " ++ b01 r.2)
  | "mul", [a, b] => do let x ← lim a; let y ← lim b; pure (hv (Limbs.mul x y))
  | "div", [a, b] => do let x ← lim a; let y ← lim b
                        if Limbs.isZero y then none else
                        let r := Limbs.divRem x y
                        pure (hv r.1 ++ " " ++ hv r.2)
  | "shl", [a, n] => do let x ← lim a; let k ← n.toNat?; pure (hv (Limbs.shiftLeft x k))
  | "shr", [a, n] => do let x ← lim a; let k ← n.toNat?; pure (hv (Limbs.shiftRight x k))
  | "mask", [a, n] => do let x ← lim a; let k ← n.toNat?; pure (hv (Limbs.mask x k))
  | "powi", [a, n] => do let x ← lim a; let k ← n.toNat?; pure (hv (Limbs.powi x k))
  | "msb", [a] => do let x ← lim a; pure (toString (Limbs.msbIndex x))
  | "tz", [a] => do let x ← lim a; if Limbs.isZero x then none else pure (toString (Limbs.trailingZeros x))
  | "cmp", [a, b] => do let x ← lim a; let y ← lim b
                        let c := Limbs.cmp x y
                        pure (showOrd (some c) ++ " " ++ b01 (c == .eq) ++ " " ++ b01 (c == .lt))
  | "dec", [a] => do let x ← lim a; pure (Limbs.asDecimal x)
  | "bin", [a] => do let x ← lim a; pure (Limbs.asBinary x)
  | "flags", [a] => do let x ← lim a
                       pure (b01 (Limbs.isZero x) ++ " " ++ b01 (x.headD 0 % 2 == 0) ++ " " ++ b01 (x.headD 0 % 2 == 1))
  | "u128", [a] => do let x ← lim a; if Limbs.val x < 2 ^ 128 then pure (hv x) else none
  | "allones", [n] => do let k ← n.toNat?; pure (hv (Limbs.all1s k))
  | "onehot", [n] => do let k ← n.toNat?; pure (hv (Limbs.oneHot k))
  | _, _ => none

def bad : String := "bad-op\t-\t-"

/-- tag of a rounding result: c=special, o=overflowed, z=became zero, s=subnormal,
    r=inexact, x=exact -/
def tagOf (F : Sem) (exact : Option Rat) (r : Res) : String :=
  match r, exact with
  | .nan, _ => "c"
  | .inf _, some _ => "o"
  | .inf _, none => "c"
  | .zero _, some q => if q = 0 then "x0" else "z"
  | .zero _, none => "c"
  | .fin s e m, some q =>
      let v := Res.val F (.fin s e m)
      let a := if q < 0 then -q else q
      let av := if v < 0 then -v else v
      (if av = a then "x" else "r") ++ (if m < 2 ^ (F.p - 1) then "s" else "") ++
      (if e = F.emax ∧ m = 2 ^ F.p - 1 then "m" else "")
  | .fin _ _ _, none => "c"

def out (model : String) (spec : String) (tag : String) : String :=
  model ++ "\t" ++ spec ++ "\t" ++ tag

def fin2 (a b : Flt) : Bool := Spec.isFin a && Spec.isFin b

/-- one instruction of a `prog` line; registers are the results so far -/
def progStep (regs : Array Flt) (ins : String) : Option Flt :=
  let reg (t : String) : Option Flt := t.toNat? >>= fun i => regs[i]?
  match ins.splitOn "/" with
  | ["lit", s, t] => parseSem s >>= fun F => parseFlt F t
  | ["cast", g, r, a] =>
    (match parseSem g, parseRM r, reg a with
     | some G, some rm, some x => some (x.castWithRm G rm) | _, _, _ => none)
  | ["scale", r, k, a] =>
    (match parseRM r, k.toInt?, reg a with
     | some rm, some k, some x => some (x.scale k rm) | _, _, _ => none)
  | [op, r, a, b] =>
    (match parseRM r, reg a, reg b with
     | some rm, some x, some y =>
       (match op with
        | "add" => some (addWithRm x y rm) | "sub" => some (subWithRm x y rm)
        | "mul" => some (mulWithRm x y rm) | "div" => some (divWithRm x y rm)
        | _ => none)
     | _, _, _ => none)
  | [op, a, b] =>
    (match op with
     | "fromu64" => (match parseSem a, b.toNat? with | some F, some n => some (fromU64 F n) | _, _ => none)
     | "fromi64" => (match parseSem a, b.toInt? with | some F, some n => some (fromI64 F n) | _, _ => none)
     | "frombig" => (match parseSem a, parseHex b with | some F, some n => some (fromBigint F n) | _, _ => none)
     | "powi" => (match a.toNat?, reg b with | some n, some x => some (x.powi n) | _, _ => none)
     | "one" => (match parseSem a with | some F => some (Flt.one F (b == "1")) | none => none)
     | "setsign" => (match reg b with | some x => some (x.setSign (a == "1")) | none => none)
     | "const" =>
       (match parseSem b with
        | some F => (match a with
                     | "pi" => piFuel 200 F | "e" => some (eConst F) | "ln2" => some (ln2Const F) | _ => none)
        | none => none)
     | "fn" =>
       (match reg b with
        | some x => (match a with
                     | "exp" => x.expFuel 1000000 | "log" => x.logFuel 100000 | "sigmoid" => x.sigmoidFuel 1000000
                     | "sin" => x.sinFuel 200 | "cos" => x.cosFuel 200 | "tan" => x.tanFuel 200
                     | "sqr" => some x.sqr | _ => none)
        | none => none)
     | _ =>
       (match reg a, reg b with
        | some x, some y =>
          (match op with
           | "min" => some (x.min y) | "max" => some (x.max y)
           | "rem" => x.remFuel 4000000 y
           | "pow" => x.powFuel 100000 y
           | "oadd" => some (x.add y) | "osub" => some (x.sub y)
           | "omul" => some (x.mul y) | "odiv" => some (x.div y)
           | _ => none)
        | _, _ => none))
  | [op, a] =>
    (match reg a with
     | some x =>
       (match op with
        | "trunc" => some x.trunc | "round" => some x.round | "abs" => some x.abs | "neg" => some x.neg
        | "sqrt" => x.sqrtFuel 4000000
        | _ => none)
     | none => none)
  | _ => none

def runProg (inss : List String) : String :=
  let rec go (regs : Array Flt) : List String → Option (Array Flt)
    | [] => some regs
    | i :: rest => (progStep regs i) >>= fun v => go (regs.push v) rest
  match go #[] inss with
  | some regs => out (" ".intercalate (regs.toList.map showFlt))
                     (" ".intercalate (regs.toList.map (fun x => b01 x.isCanonical))) "prog"
  | none => bad

/-- `progcmp`: run the instructions, then compare the last two registers (identical semantics) -/
def runProgCmp (inss : List String) : String :=
  let rec go (regs : Array Flt) : List String → Option (Array Flt)
    | [] => some regs
    | i :: rest => (progStep regs i) >>= fun v => go (regs.push v) rest
  match go #[] inss with
  | some regs =>
    if regs.size < 2 then bad else
    let a := regs[regs.size - 2]!
    let b := regs[regs.size - 1]!
    if a.sem != b.sem then bad else
    let m := s!"{showOrd (a.partialCmp b)} {b01 (a.lt b)} {b01 (a.le b)} {b01 (a.gt b)} {b01 (a.ge b)} {b01 (a.beq b)} {showFlt (a.min b)} {showFlt (a.max b)}"
    let c := Spec.cmp a b
    let sp := s!"{showOrd c} {b01 (c == some .lt)} {b01 (c == some .lt || c == some .eq)} {b01 (c == some .gt)} {b01 (c == some .gt || c == some .eq)} {b01 (c == some .eq)} {showFlt (Spec.min a b)} {showFlt (Spec.max a b)}"
    out m sp (showOrd c)
  | none => bad

def handle (toks : List String) : String :=
  match toks with
  | ["misc", "sem", t] =>
    (match parseSem t with
     | some F => out s!"{F.display}|{F.rm.name}|{F.decimalAccuracy}" "-" "misc"
     | none => bad)
  | ["misc", "prand", parts, seed] =>
    (match parts.toNat?, seed.toNat? with
     | some k, some sd =>
       if sd < 2 ^ 32 then
         let ws := pseudorandom k sd
         out s!"{ws.length} {toHex (Limbs.val ws)}" "-" "misc"
       else bad
     | _, _ => bad)
  | ["misc", "default"] => out s!"{Limbs.zero.length} {toHex (Limbs.val Limbs.zero)}" "-" "misc"
  | "prog" :: inss => runProg inss
  | "progcmp" :: inss => runProgCmp inss
  | ["nat64", op, a, b] =>
    (match a.toNat?, b.toNat? with
     | some a, some b => (match natOp true op a b with | some r => out r "-" op | none => bad)
     | _, _ => bad)
  | ["nat32", op, a, b] =>
    (match a.toNat?, b.toNat? with
     | some a, some b => (match natOp false op a b with | some r => out r "-" op | none => bad)
     | _, _ => bad)
  | "big" :: op :: args =>
    (match bigModel op args, bigSpec op args with
     | some m, some r => out m r op
     | _, _ => bad)
  | ["operu", op, s, a, n] =>
    (match parseSem s, n.toNat? with
     | some F, some n =>
       (match parseFlt F a with
        | some a =>
          let b := fromU64 F n
          let r := match op with
            | "add" => some (a.add b) | "sub" => some (a.sub b)
            | "mul" => some (a.mul b) | "div" => some (a.div b) | _ => none
          (match r with
           | some r => out (showFlt r) "-" "oper"
           | none => bad)
        | none => bad)
     | _, _ => bad)
  | ["oper", op, s, a, b] =>
    (match parseSem s with
     | some F =>
       (match parseFlt F a, parseFlt F b with
        | some a, some b =>
          let r := match op with
            | "add" => some (a.add b) | "sub" => some (a.sub b)
            | "mul" => some (a.mul b) | "div" => some (a.div b) | _ => none
          (match r with
           | some r => out (showFlt r) "-" "oper"
           | none => bad)
        | _, _ => bad)
     | none => bad)
  | ["cast", s, g, r, a] =>
    (match parseSem s, parseSem g, parseRM r with
     | some F, some G, some rm =>
       (match parseFlt F a with
        | some x => let sp := Spec.cast G rm x
                    out (showFlt (x.castWithRm G rm)) (showRes G sp)
                      (tagOf G (if Spec.isFin x then some x.val else none) sp)
        | none => bad)
     | _, _, _ => bad)
  | ["scale", s, r, k, a] =>
    (match parseSem s, parseRM r, k.toInt? with
     | some F, some rm, some k =>
       (match parseFlt F a with
        | some x => let sp := Spec.scale rm k x
                    out (showFlt (x.scale k rm)) (showRes F sp)
                      (tagOf F (if Spec.isFin x then some (x.val * pow2 (Spec.clampK F k)) else none) sp)
        | none => bad)
     | _, _, _ => bad)
  | [op, s, r, a, b] =>
    (match parseSem s, parseRM r with
     | some F, some rm =>
       (match parseFlt F a, parseFlt F b with
        | some a, some b =>
          let ex (q : Rat) : Option Rat := if fin2 a b then some q else none
          (match op with
           | "add" => let sp := Spec.add F rm a b
                      out (showFlt (addWithRm a b rm)) (showRes F sp) (tagOf F (ex (a.val + b.val)) sp)
           | "sub" => let sp := Spec.sub F rm a b
                      out (showFlt (subWithRm a b rm)) (showRes F sp) (tagOf F (ex (a.val - b.val)) sp)
           | "mul" => let sp := Spec.mul F rm a b
                      out (showFlt (mulWithRm a b rm)) (showRes F sp) (tagOf F (ex (a.val * b.val)) sp)
           | "div" => let sp := Spec.div F rm a b
                      out (showFlt (divWithRm a b rm)) (showRes F sp)
                        (tagOf F (if fin2 a b && !Spec.isZero b then some (a.val / b.val) else none) sp)
           | _ => bad)
        | _, _ => bad)
     | _, _ => bad)
  | ["castd", s, t, a] =>
    (match parseSem s, parseSem t with
     | some F, some G =>
       (match parseFlt F a with
        | some x => let sp := Spec.cast G F.rm x
                    out (showFlt (x.cast G)) (showRes G sp) (tagOf G (if Spec.isFin x then some x.val else none) sp)
        | none => bad)
     | _, _ => bad)
  | ["frombig", s, h] =>
    (match parseSem s, parseHex h with
     | some F, some n => let sp := Spec.fromNat F F.rm n
                         out (showFlt (fromBigint F n)) (showRes F sp) (tagOf F (some (n : Rat)) sp)
     | _, _ => bad)
  | ["fromu64", s, d] =>
    (match parseSem s, d.toNat? with
     | some F, some n => let sp := Spec.fromNat F .nte n
                         out (showFlt (fromU64 F n)) (showRes F sp) (tagOf F (some (n : Rat)) sp)
     | _, _ => bad)
  | ["fromi64", s, d] =>
    (match parseSem s, d.toInt? with
     | some F, some n => let sp := Spec.fromInt F n
                         out (showFlt (fromI64 F n)) (showRes F sp) (tagOf F (some (n : Rat)) sp)
     | _, _ => bad)
  | ["disp", s, a] =>
    (match parseSem s with
     | some F =>
       (match parseFlt F a with
        | some x => out (String.ofList (x.display.map Char.ofNat)) "-" (if x.isNormal then (if x.exp < (F.p : Int) - 1 then "frac" else "int") else "c")
        | none => bad)
     | none => bad)
  | ["parse", s, h] =>
    (match parseSem s, hexBytes h with
     | some F, some bs =>
       (match tryFromStr bs F with
        | .ok x => out ("ok " ++ showFlt x) "-" (if x.isNormal then "n" else "c")
        | .error k => out ("err " ++ k.message) "-" "err")
     | _, _ => bad)
  | ["const", name, s] =>
    (match parseSem s with
     | some F =>
       (match name with
        | "pi" => (match piFuel 200 F with | some r => out (showFlt r) "-" "-" | none => out "FUEL" "-" "-")
        | "e" => out (showFlt (eConst F)) "-" "-"
        | "ln2" => out (showFlt (ln2Const F)) "-" "-"
        | _ => bad)
     | none => bad)
  | ["fn", name, s, a] =>
    (match parseSem s with
     | some F =>
       (match parseFlt F a with
        | some x =>
          let r : Option (Option Flt) := match name with
            | "exp" => some (x.expFuel 1000000) | "log" => some (x.logFuel 100000)
            | "sigmoid" => some (x.sigmoidFuel 1000000)
            | "sin" => some (x.sinFuel 200) | "cos" => some (x.cosFuel 200) | "tan" => some (x.tanFuel 200)
            | "sqr" => some (some x.sqr)
            | _ => none
          (match r with
           | some (some v) => out (showFlt v) "-" (if x.isNormal then "n" else "c")
           | some none => out "FUEL" "-" "-"
           | none => bad)
        | none => bad)
     | none => bad)
  | ["pow", s, a, b] =>
    (match parseSem s with
     | some F =>
       (match parseFlt F a, parseFlt F b with
        | some x, some y =>
          (match x.powFuel 1000000 y with
           | some v => out (showFlt v) "-" (if x.isNormal && y.isNormal then "n" else "c")
           | none => out "FUEL" "-" "-")
        | _, _ => bad)
     | none => bad)
  | ["frac", s, n, a] =>
    (match parseSem s, n.toNat? with
     | some F, some n =>
       (match parseFlt F a with
        | some x => let r := x.asFraction n
                    out s!"{toHex r.1}/{toHex r.2}" "-" (if x.isNormal then "n" else "c")
        | none => bad)
     | _, _ => bad)
  | [op, s, a] =>
    (match parseSem s with
     | some F =>
       (match parseFlt F a with
        | some x =>
          (match op with
           | "toi64" => out (toString x.toI64) (toString (Spec.toI64 x))
                          (if x.isNormal then (if x.exp ≥ 62 then "big" else if x.exp < (F.p : Int) - 1 then "frac" else "int") else "c")
           | "trunc" => let sp := Spec.trunc x
                        out (showFlt x.trunc) (showRes F sp) (tagOf F (if Spec.isFin x then some x.val else none) sp)
           | "round" =>
             (match Spec.roundHalfAway x with
              | some sp => out (showFlt x.round) (showRes F sp) (tagOf F (if Spec.isFin x then some x.val else none) sp)
              | none => out (showFlt x.round) "-" "nonfinite-int")
           | "abs" => out (showFlt x.abs) (showFlt { x with sign := false }) "x"
           | "neg" => out (showFlt x.neg) (showFlt { x with sign := !x.sign }) "x"
           | "canon" => out (b01 x.isCanonical) "-" "-"
           | "sqrt" =>
             (match x.sqrtFuel 4000000 with
              | some r =>
                let verdict :=
                  if x.cat == .zero then b01 (r.cat == .zero && r.sign == x.sign)
                  else if x.cat == .nan || x.sign then b01 (r.cat == .nan)
                  else if x.cat == .inf then b01 (r.cat == .inf && !r.sign)
                  else
                    let k := match F.rm with | .nte | .nta => 1 | _ => 2
                    b01 (Spec.sqrtWithin x r k (k == 1))
                out (showFlt r) ("ok=" ++ verdict) (if x.isNormal && !x.sign then "n" else "c")
              | none => out "FUEL" "-" "-")
           | _ => bad)
        | none => bad)
     | none => bad)
  | ["jsqrt", s, a, r] =>
    -- judge an arbitrary answer `r` for `sqrt a` with the property's own predicate (C12)
    (match parseSem s with
     | some F =>
       (match parseFlt F a, parseFltAny F r with
        | some x, some r =>
          let verdict :=
            if x.cat == .zero then b01 (r.cat == .zero && r.sign == x.sign)
            else if x.cat == .nan || x.sign then b01 (r.cat == .nan)
            else if x.cat == .inf then b01 (r.cat == .inf && !r.sign)
            else
              let k := match F.rm with | .nte | .nta => 1 | _ => 2
              b01 (r.isCanonical && Spec.sqrtWithin x r k (k == 1))
          out ("ok=" ++ verdict) "-" "judge"
        | _, _ => bad)
     | none => bad)
  | ["cmp", s, a, b] =>
    (match parseSem s with
     | some F =>
       (match parseFlt F a, parseFlt F b with
        | some a, some b =>
          let m := s!"{showOrd (a.partialCmp b)} {b01 (a.lt b)} {b01 (a.le b)} {b01 (a.gt b)} {b01 (a.ge b)} {b01 (a.beq b)} {showFlt (a.min b)} {showFlt (a.max b)}"
          let c := Spec.cmp a b
          let sp := s!"{showOrd c} {b01 (c == some .lt)} {b01 (c == some .lt || c == some .eq)} {b01 (c == some .gt)} {b01 (c == some .gt || c == some .eq)} {b01 (c == some .eq)} {showFlt (Spec.min a b)} {showFlt (Spec.max a b)}"
          out m sp (showOrd c)
        | _, _ => bad)
     | none => bad)
  | ["rem", s, a, b] =>
    (match parseSem s with
     | some F =>
       (match parseFlt F a, parseFlt F b with
        | some a, some b =>
          let sp := Spec.rem a b
          let exact := fin2 a b && !Spec.isZero b
          let spS := if exact && Res.val F sp ≠ Spec.remVal a b then "spec-inexact" else showRes F sp
          (match a.remFuel 4000000 b with
           | some r => out (showFlt r) spS (tagOf F (if exact then some (Spec.remVal a b) else none) sp)
           | none => out "FUEL" spS "-")
        | _, _ => bad)
     | none => bad)
  | ["powi", s, n, a] =>
    (match parseSem s, n.toNat? with
     | some F, some n =>
       (match parseFlt F a with
        | some x => out (showFlt (x.powi n)) "-" "-"
        | none => bad)
     | _, _ => bad)
  | ["f32", d] =>
    (match d.toNat? with
     | some b => let x := fromF32 b
                 out s!"{showFlt x} {x.asF32}" "-" "-"
     | none => bad)
  | ["f64", d] =>
    (match d.toNat? with
     | some b => let x := fromF64 b
                 out s!"{showFlt x} {x.asF64} {x.asF32}" "-" "-"
     | none => bad)
  | _ => bad

partial def loop (hin hout : IO.FS.Stream) : IO Unit := do
  let line ← hin.getLine
  if line.isEmpty then return ()
  let toks := (line.trimAscii.toString.splitOn " ").filter (· ≠ "")
  hout.putStrLn (handle toks)
  loop hin hout

def main : IO Unit := do
  let hin ← IO.getStdin
  let hout ← IO.getStdout
  loop hin hout
