"""Case generators (protocol lines). Every random choice derives from one PRNG seeded by VERIF_SEED."""
import random

MODES = ["O", "E", "A", "Z", "P", "N"]
SMALL_QUICK = [(2, 2), (2, 3), (3, 2), (3, 3), (3, 4), (4, 3)]
SMALL_THOROUGH = SMALL_QUICK + [(4, 4), (3, 5), (4, 5), (5, 4), (3, 6)]
REAL = [(5, 11), (8, 8), (8, 24), (11, 53), (15, 64), (15, 113), (10, 120), (19, 237),
        (11, 65), (15, 128), (12, 200), (20, 1024)]


class Sem:
    def __init__(self, E, P, M="E"):
        self.E, self.P, self.M = E, P, M
        self.bias = 2 ** (E - 1) - 1
        self.emin = 1 - self.bias
        self.emax = 2 ** E - self.bias - 2

    def __str__(self):
        return "%d,%d,%s" % (self.E, self.P, self.M)

    def with_rm(self, m):
        return Sem(self.E, self.P, m)


def ftok(cat, sign=0, exp=0, mant=0):
    return "%s%d:%d:%x" % (cat, sign, exp, mant)


SPECIALS = [ftok("Z", 0), ftok("Z", 1), ftok("I", 0), ftok("I", 1), ftok("X", 0)]


def finite_values(s, signs=(0, 1)):
    """every canonical finite non-zero value of the format (tokens)"""
    out = []
    for sg in signs:
        for m in range(1, 2 ** (s.P - 1)):
            out.append(ftok("N", sg, s.emin, m))
        for e in range(s.emin, s.emax + 1):
            for m in range(2 ** (s.P - 1), 2 ** s.P):
                out.append(ftok("N", sg, e, m))
    return out


def all_values(s):
    return SPECIALS + finite_values(s)


def finite_and_zero(s):
    return [ftok("Z", 0), ftok("Z", 1)] + finite_values(s)


# ---------------------------------------------------------------- structured random values

def rand_mant(rng, P, kind=None):
    lo, hi = 2 ** (P - 1), 2 ** P - 1
    kind = kind or rng.choice(["rand", "rand", "rand", "lo", "hi", "lo1", "hi1", "pow", "sparse", "dense"])
    if kind == "lo":
        return lo
    if kind == "hi":
        return hi
    if kind == "lo1":
        return lo + 1
    if kind == "hi1":
        return hi - 1
    if kind == "pow":
        return lo | (1 << rng.randrange(P))
    if kind == "sparse":
        m = lo
        for _ in range(rng.randrange(1, 4)):
            m |= 1 << rng.randrange(P)
        return m
    if kind == "dense":
        m = hi
        for _ in range(rng.randrange(1, 4)):
            m &= ~(1 << rng.randrange(P - 1))
        return m
    return rng.randrange(lo, hi + 1)


def rand_exp(rng, s):
    k = rng.choice(["emin", "emax", "zero", "p", "any", "any"])
    span = s.P + 2
    if k == "emin":
        e = s.emin + rng.randrange(0, span)
    elif k == "emax":
        e = s.emax - rng.randrange(0, span)
    elif k == "zero":
        e = rng.randrange(-span, span + 1)
    elif k == "p":
        e = s.P + rng.randrange(-3, 4)
    else:
        e = rng.randrange(s.emin, s.emax + 1)
    return max(s.emin, min(s.emax, e))


def rand_finite(rng, s, sign=None):
    """a canonical finite non-zero value drawn from boundary classes"""
    sg = rng.randrange(2) if sign is None else sign
    c = rng.randrange(10)
    if c == 0:  # subnormal
        k = rng.choice(["one", "max", "rand", "pow"])
        top = 2 ** (s.P - 1) - 1
        if top < 1:
            return ftok("N", sg, s.emin, 1)
        m = {"one": 1, "max": top, "rand": rng.randrange(1, top + 1), "pow": 1 << rng.randrange(max(1, s.P - 1))}[k]
        m = max(1, min(top, m))
        return ftok("N", sg, s.emin, m)
    if c == 1:
        return ftok("N", sg, s.emin, 2 ** (s.P - 1))  # min normal
    if c == 2:
        return ftok("N", sg, s.emax, 2 ** s.P - 1)  # max finite
    return ftok("N", sg, rand_exp(rng, s), rand_mant(rng, s.P))


def rand_pair(rng, s):
    """pair of finite values with structured exponent gaps / cancellation"""
    a = rand_finite(rng, s)
    c = rng.randrange(10)
    if c < 5:
        cat, rest = a[:2], a[3:].split(":")
        ea, ma = int(rest[0]), int(rest[1], 16)
        gap = rng.choice([0, 0, 1, 1, 2, s.P - 1, s.P, s.P + 1, s.P + 2, 2 * s.P, rng.randrange(0, 3 * s.P + 2)])
        eb = ea - gap if rng.randrange(2) else ea + gap
        eb = max(s.emin, min(s.emax, eb))
        k = rng.randrange(6)
        if k == 0:
            mb = ma
        elif k == 1:
            mb = ma + 1
        elif k == 2:
            mb = ma - 1
        else:
            mb = rand_mant(rng, s.P)
        if eb > s.emin:
            mb = max(2 ** (s.P - 1), min(2 ** s.P - 1, mb))
        else:
            mb = max(1, min(2 ** s.P - 1, mb))
        b = ftok("N", rng.randrange(2), eb, mb)
        return (a, b) if rng.randrange(2) else (b, a)
    return a, rand_finite(rng, s)


def rand_format(rng):
    c = rng.randrange(4)
    if c < 3:
        E, P = rng.choice(REAL)
    else:
        E, P = rng.randrange(2, 21), rng.randrange(2, 301)
    return E, P


# ---------------------------------------------------------------- streams

def exh_binary(ops, fmts, modes=MODES, values=finite_and_zero):
    lines = []
    for (E, P) in fmts:
        for m in modes:
            s = Sem(E, P, m)
            vals = values(s)
            for op in ops:
                pre = "%s %s %s " % (op, s, m)
                for a in vals:
                    pa = pre + a + " "
                    for b in vals:
                        lines.append(pa + b)
    return lines


def rand_binary(rng, ops, n, fmts=None):
    lines = []
    for _ in range(n):
        E, P = rng.choice(fmts) if fmts else rand_format(rng)
        m = rng.choice(MODES)
        s = Sem(E, P, m)
        a, b = rand_pair(rng, s)
        lines.append("%s %s %s %s %s" % (rng.choice(ops), s, m, a, b))
    return lines


def tie_products(rng, n):
    """products / quotients constructed to land on or next to a rounding tie"""
    lines = []
    for _ in range(n):
        E, P = rng.choice(REAL)
        m = rng.choice(MODES)
        s = Sem(E, P, m)
        # a = (2^(P-1) + x), b = 2^(P-1) + 2^k : product has a low part that is a power of two pattern
        x = rng.randrange(0, 2 ** (P - 1))
        a = 2 ** (P - 1) + x
        k = rng.randrange(0, P - 1)
        b = 2 ** (P - 1) + 2 ** k
        ea = rng.randrange(-3, 4)
        eb = rng.randrange(-3, 4)
        lines.append("mul %s %s %s %s" % (s, m, ftok("N", rng.randrange(2), ea, a), ftok("N", rng.randrange(2), eb, b)))
        # division by powers of two / by 3 / by 2^(P-1)+1
        d = rng.choice([2 ** (P - 1), 3 * 2 ** (P - 2) if P >= 2 else 1, 2 ** (P - 1) + 1, 2 ** P - 1])
        lines.append("div %s %s %s %s" % (s, m, ftok("N", rng.randrange(2), ea, a), ftok("N", rng.randrange(2), eb, d)))
    return lines


def parse_tok(t):
    cs, e, m = t.split(":")
    return cs[0], int(cs[1]) if len(cs) > 1 else 0, int(e), int(m.split("~")[0], 16)


def exh_unary(ops, fmts, modes=MODES, values=all_values):
    lines = []
    for (E, P) in fmts:
        for m in modes:
            s = Sem(E, P, m)
            for op in ops:
                for a in values(s):
                    lines.append("%s %s %s" % (op, s, a))
    return lines


def exh_cast(fmts, modes=MODES):
    lines = []
    for (E, P) in fmts:
        for (E2, P2) in fmts:
            for m in modes:
                s = Sem(E, P, "E")
                g = Sem(E2, P2, "E")
                for a in all_values(s):
                    lines.append("cast %s %s %s %s" % (s, g, m, a))
    return lines


def rand_cast(rng, n):
    lines = []
    for _ in range(n):
        E, P = rand_format(rng)
        if rng.randrange(3) == 0:
            E2, P2 = rand_format(rng)
        else:
            E2 = max(2, E + rng.choice([-3, -1, 0, 0, 1, 3, 5]))
            P2 = max(2, P + rng.choice([-P // 2, -3, -1, 0, 1, 2, 17, 64]))
        m = rng.choice(MODES)
        s = Sem(E, P, rng.choice(MODES))
        g = Sem(E2, P2, rng.choice(MODES))
        c = rng.randrange(12)
        a = rng.choice(SPECIALS) if c == 0 else rand_finite(rng, s)
        if c < 8:
            lines.append("cast %s %s %s %s" % (s, g, m, a))
        else:
            lines.append("castd %s %s %s" % (s, g, a))
    return lines


def overflow_lines(rng, fmts, per_fmt=6):
    """values at and around the overflow threshold reached through every rounding operation"""
    lines = []
    for (E, P) in fmts:
        for m in MODES:
            s = Sem(E, P, m)
            top = 2 ** P - 1
            for sg in (0, 1):
                mx = ftok("N", sg, s.emax, top)
                one_ulp = ftok("N", 0, s.emax - (P - 1), 2 ** (P - 1)) if s.emax - (P - 1) >= s.emin else None
                # add: max + k/4 ulp  (needs exponent room for the small operand)
                for k in range(1, 2 * per_fmt):
                    e = s.emax - (P - 1) - 2
                    if e >= s.emin and k < 2 ** P:
                        mk = k
                        ek = e
                        while mk < 2 ** (P - 1):
                            mk *= 2
                            ek -= 1
                        if ek >= s.emin:
                            lines.append("add %s %s %s %s" % (s, m, mx, ftok("N", sg, ek, mk)))
                            lines.append("sub %s %s %s %s" % (s, m, mx, ftok("N", 1 - sg, ek, mk)))
                if one_ulp:
                    lines.append("add %s %s %s %s" % (s, m, mx, one_ulp if sg == 0 else ftok("N", 1, s.emax - (P - 1), 2 ** (P - 1))))
                # mul: values whose product straddles the threshold
                for _ in range(per_fmt):
                    ea = rng.randrange(0, s.emax + 1)
                    eb = s.emax - ea + rng.choice([-1, 0, 0, 1])
                    eb = max(s.emin, min(s.emax, eb))
                    ma = rng.choice([top, top - 1, 2 ** (P - 1), 2 ** (P - 1) + 1, rand_mant(rng, P)])
                    mb = rng.choice([top, top - 1, 2 ** (P - 1), 2 ** (P - 1) + 1, rand_mant(rng, P)])
                    lines.append("mul %s %s %s %s" % (s, m, ftok("N", sg, ea, ma), ftok("N", 0, eb, mb)))
                    # div by a small number
                    ed = ea - s.emax + rng.choice([-1, 0, 0, 1])
                    ed = max(s.emin, min(s.emax, ed))
                    lines.append("div %s %s %s %s" % (s, m, ftok("N", sg, ea, ma), ftok("N", 0, ed, mb)))
                    # scale
                    lines.append("scale %s %s %d %s" % (s, m, s.emax - ea + rng.choice([0, 0, 1, 2]), ftok("N", sg, ea, ma)))
                # cast from a wider format: all patterns just around max
                w = Sem(E + 2, P + 3, "E")
                for extra in range(0, 8):
                    lines.append("cast %s %s %s %s" % (w, s, m, ftok("N", sg, s.emax, (top << 3) | extra)))
                    lines.append("cast %s %s %s %s" % (w, s, m, ftok("N", sg, s.emax + 1, (2 ** (P + 2)) | extra)))
                # from_bigint around 2^(emax+1)
                if s.emax < 4000:
                    base = top << max(0, s.emax - (P - 1)) if s.emax >= P - 1 else None
                    if base is not None and sg == 0:
                        sh = max(0, s.emax - (P - 1))
                        half = (1 << sh) >> 1
                        for d in [0, 1, half - 1, half, half + 1, (1 << sh) - 1, 1 << sh]:
                            if d >= 0:
                                lines.append("frombig %s %x" % (s, base + d))
            if s.emax <= 64:
                for v in [2 ** 64 - 1, 2 ** 63, 2 ** (s.emax + 1) - 1 if s.emax < 64 else 2 ** 64 - 1]:
                    lines.append("fromu64 %s %d" % (s, min(v, 2 ** 64 - 1)))
    return lines


def special_lines(fmts):
    lines = []
    for (E, P) in fmts:
        for m in MODES:
            s = Sem(E, P, m)
            fin = [ftok("N", 0, 0, 2 ** (P - 1)), ftok("N", 1, 0, 2 ** (P - 1)), ftok("N", 0, s.emin, 1), ftok("N", 1, s.emax, 2 ** P - 1),
                   ftok("N", 0, min(s.emax, 1), 2 ** (P - 1) + 1)]
            vals = SPECIALS + ["X1:0:0"] + fin
            for op in ["add", "sub", "mul", "div"]:
                for a in vals:
                    for b in vals:
                        lines.append("%s %s %s %s %s" % (op, s, m, a, b))
    return lines


def cancel_lines(rng, n):
    """exactly cancelling pairs in real formats"""
    lines = []
    for _ in range(n):
        E, P = rand_format(rng)
        m = rng.choice(MODES)
        s = Sem(E, P, m)
        a = rand_finite(rng, s)
        c, sg, e, mt = parse_tok(a)
        na = ftok("N", 1 - sg, e, mt)
        lines.append("add %s %s %s %s" % (s, m, a, na))
        lines.append("sub %s %s %s %s" % (s, m, a, a))
    return lines


def cmp_lines_real(rng, n):
    lines = []
    for _ in range(n):
        E, P = rand_format(rng)
        s = Sem(E, P, rng.choice(MODES))
        a = rand_finite(rng, s)
        c, sg, e, mt = parse_tok(a)
        k = rng.randrange(8)
        if k == 0:
            b = ftok("N", 1 - sg, e, mt)
        elif k == 1:
            b = a
        elif k == 2 and mt + 1 < 2 ** P:
            b = ftok("N", sg, e, mt + 1)
        elif k == 3 and P > 64 and (mt ^ (1 << (P - 2))) >= 2 ** (P - 1):
            b = ftok("N", sg, e, mt ^ (1 << (P - 2)))
        elif k == 4:
            b = rng.choice(SPECIALS)
        elif k == 5 and e + 1 <= s.emax and mt >= 2 ** (P - 1):
            b = ftok("N", sg, e + 1, 2 ** (P - 1))
        else:
            b = rand_finite(rng, s)
        if rng.randrange(2):
            a, b = b, a
        lines.append("cmp %s %s %s" % (s, a, b))
    return lines


def word_prefix_cmp_lines(rng, n):
    """comparison operands that agree on every word the shorter one stores and differ only above it: significands at the
    minimum exponent of multi-word formats (a small subnormal against the same low words plus high bits), both orders and signs"""
    lines = []
    fm = [(11, 65), (11, 128), (11, 129), (11, 200), (15, 113), (15, 237), (12, 300), (10, 120), (19, 237), (8, 70)]
    for _ in range(n):
        E, P = rng.choice(fm)
        s = Sem(E, P, rng.choice(MODES))
        words = (P + 63) // 64
        k = rng.randrange(1, words)                       # the short operand keeps k words
        low = rng.getrandbits(64 * k) | 1
        if rng.randrange(3) == 0:
            low = rng.choice([1, 2 ** (64 * k) - 1, 2 ** (64 * k - 1), rng.getrandbits(64) | 1])
        room = P - 64 * k
        high = rng.randrange(1, 2 ** room) if room > 0 else 1
        if rng.randrange(3) == 0:
            high = rng.choice([1, 2 ** (room - 1), 2 ** room - 1])
        big = low + (high << (64 * k))
        if big >= 2 ** P:
            continue
        sa, sb = rng.randrange(2), rng.randrange(2)
        if rng.randrange(3):
            sb = sa
        a, b = ftok("N", sa, s.emin, low), ftok("N", sb, s.emin, big)
        if rng.randrange(2):
            a, b = b, a
        lines.append("cmp %s %s %s" % (s, a, b))
    return lines


def big_prefix_cmp_lines(rng, n):
    """BigInt comparison of operands of different stored lengths that agree on the common words (with and without leading zero words)"""
    lines = []
    for _ in range(n):
        k = rng.randrange(1, 6)
        low = rng.getrandbits(64 * k)
        ext = rng.randrange(1, 4)
        high = rng.choice([0, 1, rng.getrandbits(64 * ext) | 1, 2 ** (64 * ext) - 1])
        big = low + (high << (64 * k))
        a = "%x/%d" % (low, k + rng.choice([0, 0, 1]))
        b = "%x/%d" % (big, k + ext + rng.choice([0, 1]))
        if rng.randrange(2):
            a, b = b, a
        lines.append("big cmp %s %s" % (a, b))
    return lines


def rm_mismatch_lines(rng, n, ops=("add", "sub", "mul", "div")):
    """the explicit-mode entry points called with a mode different from the format's own mode (both operands carry the same
    format): exhaustive over the finite values and zeros of (3,3) for add/sub, random pairs of real formats otherwise"""
    lines = []
    for m1 in MODES:
        s = Sem(3, 3, m1)
        vals = finite_and_zero(s)
        for m2 in MODES:
            if m2 == m1:
                continue
            for op in ops:
                if op in ("mul", "div") and (m1, m2) not in (("E", "N"), ("N", "E"), ("Z", "P"), ("P", "O")):
                    continue
                for a in vals:
                    for b in vals:
                        lines.append("%s %s %s %s %s" % (op, s, m2, a, b))
    for _ in range(n):
        E, P = rand_format(rng)
        m1 = rng.choice(MODES)
        m2 = rng.choice([m for m in MODES if m != m1])
        s = Sem(E, P, m1)
        a, b = rand_pair(rng, s)
        if rng.randrange(4) == 0:   # exactly cancelling pair / zeros of unlike sign
            c, sg, e, mt = parse_tok(a)
            b = ftok(c, sg if rng.randrange(2) else 1 - sg, e, mt) if c == "N" else rng.choice(SPECIALS[:2])
        lines.append("%s %s %s %s %s" % (rng.choice(ops), s, m2, a, b))
    return lines


def progcmp_lines(rng, n):
    """comparisons (and min / max) of values PRODUCED by public operations rather than written down: a short program whose
    last two registers carry the same semantics - casts of subnormals into formats with the same precision and a wider
    exponent, results of scale / arithmetic / loads next to the literal of the same value, signed zeros from cancellation"""
    lines = []
    shapes = [((4, 8), (8, 8)), ((8, 24), (11, 24)), ((5, 11), (8, 11)), ((15, 113), (19, 113)), ((11, 53), (15, 53)), ((3, 4), (5, 4)), ((8, 70), (11, 70)), ((11, 130), (15, 130))]
    for _ in range(n):
        k = rng.randrange(6)
        m = rng.choice(MODES)
        if k <= 2:
            (E, P), (E2, P2) = rng.choice(shapes)
            s, g = Sem(E, P, m), Sem(E2, P2, m)
            sub = ftok("N", rng.randrange(2), s.emin, rng.randrange(1, 2 ** (P - 1)))
            if k == 0:      # the same subnormal by two routes
                w = Sem(E2 + 1, P + 7, m)
                lines.append("progcmp lit/%s/%s cast/%s/%s/0 lit/%s/%s cast/%s/%s/2 cast/%s/%s/3 cast/%s/%s/1" % (s, sub, g, m, s, sub, w, m, g, m, g, m))
            elif k == 1:    # against a neighbouring subnormal cast the same way
                c, sg, e, mt = parse_tok(sub)
                mt2 = max(1, min(2 ** (P - 1) - 1, mt + rng.choice([-1, 1, 2, -2, 0])))
                lines.append("progcmp lit/%s/%s cast/%s/%s/0 lit/%s/%s cast/%s/%s/2 cast/%s/%s/1" % (s, sub, g, m, s, ftok("N", sg, e, mt2), g, m, g, m))
            else:           # against the smallest normal of the source format, written down in the wide format
                lines.append("progcmp lit/%s/%s cast/%s/%s/0 lit/%s/%s" % (s, sub, g, m, g, ftok("N", rng.randrange(2), s.emin, 2 ** (P2 - 1))))
        elif k == 3:        # scale route vs literal
            E, P = rng.choice([(8, 24), (11, 53), (15, 113), (19, 237), (11, 130)])
            s = Sem(E, P, m)
            a = rand_finite(rng, s)
            kk = rng.randrange(-2 * P, 2 * P)
            lines.append("progcmp lit/%s/%s scale/%s/%d/0 scale/%s/%d/1 lit/%s/%s" % (s, a, m, kk, m, -kk, s, a))
        elif k == 4:        # cancellation zero vs literal zeros
            E, P = rand_format(rng)
            s = Sem(E, P, m)
            a = rand_finite(rng, s)
            lines.append("progcmp lit/%s/%s sub/%s/0/0 lit/%s/%s" % (s, a, rng.choice(MODES), s, rng.choice(SPECIALS[:2])))
        else:               # two arithmetic results
            E, P = rand_format(rng)
            s = Sem(E, P, m)
            a, b = rand_pair(rng, s)
            op1, op2 = rng.choice(["add", "sub", "mul", "div"]), rng.choice(["add", "sub", "mul", "div"])
            lines.append("progcmp lit/%s/%s lit/%s/%s %s/%s/0/1 %s/%s/1/0" % (s, a, s, b, op1, m, op2, m))
    return lines


def rem_min_exponent_lines(rng, n):
    """rem with both operands at (or next to) the minimum exponent of formats whose significand spans more than one word
    (in particular precision 64k and 64k+1): a subnormal divisor whose significand fits one word against a dividend in the
    lowest normal binade or a larger subnormal - the comparison / subtraction there sees operands of different word counts"""
    lines = []
    fm = [(8, 65), (11, 65), (8, 64), (11, 128), (11, 129), (15, 113), (12, 200), (19, 237), (10, 120), (10, 565), (8, 66), (8, 127)]
    for _ in range(n):
        E, P = rng.choice(fm)
        s = Sem(E, P, rng.choice(MODES))
        k = rng.randrange(4)
        if k == 0:
            xm, xe = 2 ** (P - 1), s.emin
        elif k == 1:
            xm, xe = rand_mant(rng, P), s.emin + rng.choice([0, 0, 1, 2, 5])
        elif k == 2:
            xm, xe = 2 ** (P - 1) + rng.randrange(1, 2 ** 20), s.emin
        else:
            xm, xe = rng.randrange(1, 2 ** (P - 1)), s.emin
        yb = rng.choice([2, 3, 20, 60, 63, 64, 65, min(P - 2, 100)])
        ym = max(1, min(2 ** (P - 1) - 1, rng.getrandbits(yb) | 1))
        if rng.randrange(4) == 0:
            ym = rng.choice([1, 3, 5, 7, 1000003])
        x = ftok("N", rng.randrange(2), xe, xm)
        y = ftok("N", rng.randrange(2), s.emin, ym)
        lines.append("rem %s %s %s" % (s, x, y))
    return lines


_TOK_RE = None


def pad_lines(rng, lines, frac=1.0):
    """the same requests with the significands of the operands stored in MORE words than needed (`hex~len`: leading zero
    words, as left behind by shifts, from_u128, from_parts): numerically identical inputs whose internal representation
    differs - the model sees the value only, so any difference in the answers is the implementation's"""
    import re
    global _TOK_RE
    if _TOK_RE is None:
        _TOK_RE = re.compile(r"(?<![0-9a-zA-Z])(N[01]:-?[0-9]+:)([0-9a-f]+)(?![0-9a-zA-Z~/])")
    out = []
    for ln in lines:
        if rng.random() > frac:
            continue

        def rep(m):
            v = int(m.group(2), 16)
            words = max(1, (v.bit_length() + 63) // 64)
            return "%s%s~%d" % (m.group(1), m.group(2), words + rng.choice([1, 1, 2, 3, 6, 11]))
        new = _TOK_RE.sub(rep, ln)
        t = new.split()
        if t and t[0] == "frombig" and "~" not in t[-1] and "/" not in t[-1]:
            v = int(t[-1], 16)
            new = " ".join(t[:-1] + ["%s~%d" % (t[-1], max(1, (v.bit_length() + 63) // 64) + rng.choice([1, 2, 5, 9]))])
        if new != ln:
            out.append(new)
    return out


def int_lines(rng, n):
    lines = []
    ints = [0, 1, 2, 3, 2 ** 63 - 1, 2 ** 63, 2 ** 63 + 1, 2 ** 64 - 1, 2 ** 64 - 2, 2 ** 53, 2 ** 53 + 1, 2 ** 24 + 1, 65519, 65520, 2047, 2049]
    for k in range(64):
        ints += [2 ** k, 2 ** k + 1, max(0, 2 ** k - 1)]
    fm = REAL + [(5, 4), (4, 3), (3, 3), (8, 2), (6, 20), (10, 63), (10, 64), (10, 65)]
    for (E, P) in fm:
        for m in MODES:
            s = Sem(E, P, m)
            sel = ints if (E, P) in [(5, 11), (11, 53), (8, 24), (5, 4)] else rng.sample(ints, 12)
            for v in sel:
                lines.append("fromu64 %s %d" % (s, v))
                if v < 2 ** 63:
                    lines.append("fromi64 %s %d" % (s, v))
                    lines.append("fromi64 %s %d" % (s, -v))
                if v == 2 ** 63:
                    lines.append("fromi64 %s %d" % (s, -v))
                lines.append("frombig %s %x" % (s, v))
    for _ in range(n):
        E, P = rand_format(rng)
        s = Sem(E, P, rng.choice(MODES))
        bits = rng.choice([rng.randrange(1, 70), rng.randrange(1, P + 70), P, P + 1, P + 2, 64, 65, 128, 129, rng.randrange(1, 700)])
        v = rng.getrandbits(bits) | (1 << (bits - 1))
        k = rng.randrange(5)
        if k == 0:
            v = (v >> max(0, bits - P - 1) << max(0, bits - P - 1)) | ((1 << max(0, bits - P - 1)) >> 0)  # tie-ish
        elif k == 1:
            v = (1 << bits) - 1
        lines.append("frombig %s %x" % (s, v))
        u = v & (2 ** 64 - 1)
        lines.append("fromu64 %s %d" % (s, u))
        i = u - 2 ** 63
        lines.append("fromi64 %s %d" % (s, i))
    return lines


def toi64_lines_real(rng, n):
    lines = []
    for _ in range(n):
        E, P = rng.choice([(11, 53), (8, 24), (15, 113), (5, 11), (15, 64), (19, 237), (10, 120), (8, 8), (12, 70)])
        s = Sem(E, P, rng.choice(MODES))
        k = rng.randrange(8)
        sg = rng.randrange(2)
        if k == 0:  # exact integer
            e = rng.randrange(0, min(s.emax, 70) + 1)
            m = rand_mant(rng, P)
            sh = max(0, (P - 1) - e)
            m = (m >> sh) << sh
            a = ftok("N", sg, e, m)
        elif k == 1:  # n + 1/2 ties
            e = rng.randrange(0, min(s.emax, P - 2, 62) + 1) if P >= 3 else 0
            m = rand_mant(rng, P)
            sh = (P - 1) - e
            if sh >= 1:
                m = ((m >> sh) << sh) | (1 << (sh - 1))
            a = ftok("N", sg, e, m)
        elif k == 2:  # tie +- ulp
            e = rng.randrange(0, min(s.emax, P - 3, 62) + 1) if P >= 4 else 0
            m = rand_mant(rng, P)
            sh = (P - 1) - e
            if sh >= 2:
                m = ((m >> sh) << sh) | (1 << (sh - 1))
                m += rng.choice([-1, 1])
            a = ftok("N", sg, e, m)
        elif k == 3:  # around 2^63
            e = min(s.emax, rng.choice([61, 62, 62, 63, 63, 64, 65, 66]))
            m = rng.choice([2 ** (P - 1), 2 ** P - 1, 2 ** (P - 1) + 1, rand_mant(rng, P)])
            a = ftok("N", sg, e, m)
        elif k == 4:  # huge
            e = rng.choice([s.emax, s.emax - 1, min(s.emax, 1000), min(s.emax, 127)])
            a = ftok("N", sg, e, rand_mant(rng, P))
        elif k == 5:  # small fractions
            e = rng.randrange(max(s.emin, -5), 1)
            a = ftok("N", sg, e, rand_mant(rng, P))
        elif k == 6:
            a = rand_finite(rng, s)
        else:
            a = rng.choice(SPECIALS + ["X1:0:0"])
        lines.append("toi64 %s %s" % (s, a))
    return lines


def scale_lines_exh(fmts):
    lines = []
    for (E, P) in fmts:
        for m in MODES:
            s = Sem(E, P, m)
            R = 2 * P + 2 ** E
            for a in all_values(s):
                for k in range(-R, R + 1):
                    lines.append("scale %s %s %d %s" % (s, m, k, a))
    return lines


def scale_lines_real(rng, n):
    lines = []
    for _ in range(n):
        E, P = rand_format(rng)
        m = rng.choice(MODES)
        s = Sem(E, P, m)
        a = rand_finite(rng, s)
        c, sg, e, mt = parse_tok(a)
        k = rng.choice([0, 1, -1, s.emax - e, s.emax - e + 1, s.emin - e, s.emin - e - 1, s.emin - e - P, s.emin - e - P + 1, s.emin - e - P - 1,
                        rng.randrange(-2 ** 20, 2 ** 20), 2 ** 40 - 1, -(2 ** 40 - 1), rng.randrange(-(s.emax - s.emin) - P - 3, (s.emax - s.emin) + P + 3)])
        lines.append("scale %s %s %d %s" % (s, m, k, a))
    return lines


def truncround_real(rng, n):
    lines = []
    for _ in range(n):
        E, P = rand_format(rng)
        s = Sem(E, P, rng.choice(MODES))
        sg = rng.randrange(2)
        k = rng.randrange(6)
        if k < 4:
            e = max(s.emin, min(s.emax, rng.randrange(-3, P + 3)))
            m = rand_mant(rng, P) if e > s.emin else rng.randrange(1, 2 ** P)
            sh = (P - 1) - e
            if k == 1 and 1 <= sh < P and e > s.emin:
                m = ((m >> sh) << sh) | (1 << (sh - 1))
            if k == 2 and 1 <= sh < P and e > s.emin:
                m = (((m >> sh) << sh) | (1 << (sh - 1))) - 1
                if m < 2 ** (P - 1):
                    m = 2 ** (P - 1)
            if k == 3 and 1 <= sh < P and e > s.emin:
                m = ((m >> sh) << sh) | ((1 << sh) - 1)
            a = ftok("N", sg, e, m)
        elif k == 4:
            a = rand_finite(rng, s)
        else:
            a = rng.choice(SPECIALS + ["X1:0:0"])
        lines.append("%s %s %s" % (rng.choice(["trunc", "round", "abs", "neg"]), s, a))
    return lines


def rem_real(rng, n):
    lines = []
    for _ in range(n):
        E, P = rng.choice([(5, 11), (8, 8), (8, 24), (11, 53), (15, 64), (6, 70), (7, 130)])
        s = Sem(E, P, rng.choice(MODES))
        a = rand_finite(rng, s)
        k = rng.randrange(8)
        if k == 0:
            b = ftok("N", rng.randrange(2), s.emin, rng.randrange(1, 2 ** (P - 1)))  # subnormal divisor
        elif k == 1:
            a = ftok("N", rng.randrange(2), s.emin, rng.randrange(1, 2 ** (P - 1)))
            b = rand_finite(rng, s)
        elif k == 2:
            a = ftok("N", rng.randrange(2), s.emax, rand_mant(rng, P))
            b = ftok("N", rng.randrange(2), s.emin, rng.randrange(1, 2 ** P))
        elif k == 3:
            b = rng.choice(SPECIALS)
        elif k == 4:
            a = rng.choice(SPECIALS)
            b = rand_finite(rng, s)
        else:
            _, b = rand_pair(rng, s)
        lines.append("rem %s %s %s" % (s, a, b))
    return lines


def sqrt_real(rng, n):
    lines = []
    for _ in range(n):
        E, P = rng.choice([(5, 11), (8, 8), (8, 24), (11, 53), (15, 64), (15, 113), (10, 120), (6, 70)])
        s = Sem(E, P, rng.choice(MODES))
        k = rng.randrange(8)
        if k == 0:  # perfect square
            r = rng.randrange(1, 2 ** (P // 2))
            v = r * r
            bl = v.bit_length()
            a = ftok("N", 0, bl - 1, v << (P - bl)) if bl <= P and bl - 1 <= s.emax else rand_finite(rng, s, 0)
        elif k == 1:
            a = ftok("N", 0, s.emin, rng.randrange(1, 2 ** (P - 1)))
        elif k == 2:
            a = ftok("N", 0, s.emax, 2 ** P - 1)
        elif k == 3:
            a = rng.choice(SPECIALS + ["X1:0:0"])
        elif k == 4:
            a = rand_finite(rng, s, 1)
        else:
            a = rand_finite(rng, s, 0)
        lines.append("sqrt %s %s" % (s, a))
    return lines


def sqrt_wide_lines(rng, per):
    """sqrt at precisions beyond 237 bits and at precisions that fill whole words: deep subnormals (the Newton iteration
    needs (bias + p)/2 steps there), arguments one or two floats below / above a power of four (the rounding carry runs
    through every word of the significand), every mode"""
    lines = []
    for (E, P) in [(10, 300), (15, 256), (11, 280), (15, 128), (11, 192), (15, 64), (12, 330), (10, 242)]:
        for m in MODES:
            s = Sem(E, P, m)
            for _ in range(per):
                k = rng.randrange(5)
                if k == 0:      # deep subnormal
                    bits = rng.randrange(1, max(2, P // 8))
                    a = ftok("N", 0, s.emin, rng.getrandbits(bits) | 1)
                elif k == 1:    # subnormal, any depth
                    a = ftok("N", 0, s.emin, rng.randrange(1, 2 ** (P - 1)))
                elif k == 2:    # just below a power of four: 4^j - d ulps
                    j = rng.randrange(-20, 21)
                    a = ftok("N", 0, 2 * j - 1, 2 ** P - rng.choice([1, 1, 2, 3]))
                elif k == 3:    # just above a power of four / of two
                    j = rng.randrange(-40, 41)
                    a = ftok("N", 0, j, 2 ** (P - 1) + rng.choice([0, 1, 2]))
                else:
                    a = rand_finite(rng, s, 0)
                lines.append("sqrt %s %s" % (s, a))
    return lines


def rand_prog(rng, max_len=12, fmts=None, allow_slow=True):
    """random expression DAG; results are fed back as operands across formats and modes"""
    fmts = fmts or [(5, 11), (8, 8), (8, 24), (11, 53), (4, 3), (3, 4), (5, 4), (15, 64), (10, 120), (6, 70), (11, 128), (8, 64), (9, 65)]
    regs = []  # sems
    ins = []

    def lit(s):
        c = rng.randrange(14)
        t = rng.choice(SPECIALS) if c == 0 else rand_finite(rng, s)
        ins.append("lit/%s/%s" % (s, t))
        regs.append(s)

    E, P = rng.choice(fmts)
    lit(Sem(E, P, rng.choice(MODES)))
    n = rng.randrange(3, max_len + 1)
    while len(ins) < n:
        k = rng.randrange(16)
        i = rng.randrange(len(regs))
        si = regs[i]
        if k < 6:  # binary arithmetic with a partner of identical semantics
            same = [j for j in range(len(regs)) if str(regs[j]) == str(si)]
            if len(same) < 2 and rng.randrange(2):
                lit(si)
                same.append(len(regs) - 1)
            j = rng.choice(same)
            op = rng.choice(["add", "sub", "mul", "div", "add", "sub", "mul", "div", "oadd", "osub", "omul", "odiv"])
            if op[0] == "o":
                ins.append("%s/%d/%d" % (op, i, j))
            else:
                ins.append("%s/%s/%d/%d" % (op, rng.choice(MODES), i, j))
            regs.append(si)
        elif k < 9:  # cast
            E2, P2 = rng.choice(fmts)
            g = Sem(E2, P2, rng.choice(MODES))
            ins.append("cast/%s/%s/%d" % (g, rng.choice(MODES), i))
            regs.append(g)
        elif k == 9:
            kk = rng.choice([1, -1, 2, -3, si.P, -si.P, si.emax, si.emin, rng.randrange(-300, 300)])
            ins.append("scale/%s/%d/%d" % (rng.choice(MODES), kk, i))
            regs.append(si)
        elif k == 10:
            ins.append("%s/%d" % (rng.choice(["trunc", "round", "abs", "neg"]), i))
            regs.append(si)
        elif k == 11:
            same = [j for j in range(len(regs)) if str(regs[j]) == str(si)]
            j = rng.choice(same)
            ins.append("%s/%d/%d" % (rng.choice(["min", "max"]), i, j))
            regs.append(si)
        elif k == 12 and allow_slow and si.E <= 8:
            same = [j for j in range(len(regs)) if str(regs[j]) == str(si)]
            j = rng.choice(same)
            ins.append("rem/%d/%d" % (i, j))
            regs.append(si)
        elif k == 13 and allow_slow:
            ins.append("sqrt/%d" % i)
            regs.append(si)
        elif k == 14:
            ins.append("powi/%d/%d" % (rng.choice([0, 1, 2, 3, 5, 8]), i))
            regs.append(si)
        elif k == 15 and allow_slow and si.P <= 64 and 3 <= si.E <= 11 and rng.randrange(2):
            # the transcendental functions and constants, results fed back like any other value
            c = rng.randrange(6)
            if c == 0:
                ins.append("const/%s/%s" % (rng.choice(["pi", "e", "ln2"]), si))
            elif c == 1:
                same = [j for j in range(len(regs)) if str(regs[j]) == str(si)]
                ins.append("pow/%d/%d" % (i, rng.choice(same)))
            elif c == 2:
                ins.append("one/%s/%d" % (si, rng.randrange(2)))
            elif c == 3:
                ins.append("setsign/%d/%d" % (rng.randrange(2), i))
            else:
                ins.append("fn/%s/%d" % (rng.choice(["exp", "log", "sigmoid", "sin", "cos", "tan", "sqr"]), i))
            regs.append(si)
        else:
            c = rng.randrange(3)
            if c == 0:
                ins.append("fromu64/%s/%d" % (si, rng.choice([0, 1, 3, 2 ** 64 - 1, rng.getrandbits(64), rng.getrandbits(12)])))
            elif c == 1:
                ins.append("fromi64/%s/%d" % (si, rng.choice([0, -1, -2 ** 63, 2 ** 63 - 1, rng.getrandbits(63) - 2 ** 62])))
            else:
                ins.append("frombig/%s/%x" % (si, rng.getrandbits(rng.randrange(1, 200))))
            regs.append(si)
    return "prog " + " ".join(ins)


# ---------------------------------------------------------------- C07 native patterns
def f32_patterns(rng, n):
    pats = [0, 1, 2, 0x7fffff, 0x800000, 0x800001, 0x7f7fffff, 0x7f800000, 0x7f800001, 0x7fc00000, 0x3f800000, 0x3f7fffff, 0x3f800001,
            0x00400000, 0x4b000000, 0x4b000001, 0x4affffff, 0x3f000000, 0x3effffff, 0x3f000001, 0x40200000, 0x40600000, 0x5f000000, 0x5effffff]
    pats += [p | 0x80000000 for p in pats]
    for e in range(0, 256, 5):
        for m in (0, 1, 0x400000, 0x7fffff):
            pats.append((e << 23) | m)
    while len(pats) < n:
        c = rng.randrange(4)
        if c == 0:
            pats.append(rng.getrandbits(32))
        elif c == 1:
            pats.append((rng.randrange(2) << 31) | rng.getrandbits(23))  # subnormal
        elif c == 2:
            pats.append((rng.randrange(2) << 31) | (rng.choice([1, 2, 126, 127, 128, 150, 151, 253, 254]) << 23) | rng.getrandbits(23))
        else:
            pats.append((rng.randrange(2) << 31) | (rng.randrange(100, 160) << 23) | rng.choice([0, 1, 0x7fffff, 0x400000, rng.getrandbits(23)]))
    return pats


def f64_patterns(rng, n):
    pats = [0, 1, 2, 0xfffffffffffff, 0x10000000000000, 0x10000000000001, 0x7fefffffffffffff, 0x7ff0000000000000, 0x7ff0000000000001,
            0x7ff8000000000000, 0x3ff0000000000000, 0x3fefffffffffffff, 0x3ff0000000000001, 0x4330000000000000, 0x4330000000000001,
            0x432fffffffffffff, 0x3fe0000000000000, 0x3fdfffffffffffff, 0x4004000000000000, 0x400c000000000000, 0x43e0000000000000,
            0x47efffffe0000000, 0x47efffffefffffff, 0x47effffff0000000, 0x36a0000000000000, 0x369fffffffffffff, 0x36a0000000000001,
            0x3690000000000000, 0x3690000000000001, 0x380fffffe0000000, 0x3810000000000000]
    pats += [p | (1 << 63) for p in pats]
    while len(pats) < n:
        c = rng.randrange(5)
        if c == 0:
            pats.append(rng.getrandbits(64))
        elif c == 1:
            pats.append((rng.randrange(2) << 63) | rng.getrandbits(52))
        elif c == 2:
            pats.append((rng.randrange(2) << 63) | (rng.choice([1, 2, 1022, 1023, 1024, 1075, 1076, 2045, 2046]) << 52) | rng.getrandbits(52))
        elif c == 3:
            # values that are near f32 rounding boundaries
            e = rng.choice([897, 896, 873, 874, 872, 1150, 1151, 1023, 1000])
            m = (rng.getrandbits(23) << 29) | rng.choice([0, 1 << 28, (1 << 28) + 1, (1 << 28) - 1, (1 << 29) - 1])
            pats.append((rng.randrange(2) << 63) | (e << 52) | m)
        else:
            pats.append((rng.randrange(2) << 63) | (rng.randrange(1000, 1050) << 52) | rng.choice([0, 1, (1 << 52) - 1, 1 << 51, rng.getrandbits(52)]))
    return pats


def nat_lines(rng, n):
    lines = []
    p64 = f64_patterns(rng, n)
    p32 = f32_patterns(rng, n)
    ops = ["add", "sub", "mul", "div", "rem", "cmp"]
    for i in range(n):
        a, b = rng.choice(p64), rng.choice(p64)
        k = rng.randrange(6)
        if k == 0:
            b = a
        elif k == 1:
            b = a ^ (1 << 63)
        elif k == 2:
            b = (a + rng.choice([1, -1])) & (2 ** 64 - 1)
        lines.append("nat64 %s %d %d" % (rng.choice(ops), a, b))
        a, b = rng.choice(p32), rng.choice(p32)
        if k == 0:
            b = a
        elif k == 1:
            b = a ^ (1 << 31)
        elif k == 2:
            b = (a + rng.choice([1, -1])) & (2 ** 32 - 1)
        lines.append("nat32 %s %d %d" % (rng.choice(ops), a, b))
    for p in p64[: n // 2]:
        lines.append("nat64 trunc %d 0" % p)
        lines.append("nat64 round %d 0" % p)
    for p in p32[: n // 2]:
        lines.append("nat32 trunc %d 0" % p)
        lines.append("nat32 round %d 0" % p)
    return lines


# ---------------------------------------------------------------- C09 big integers
def rand_limbs(rng, n):
    ws = []
    for _ in range(n):
        c = rng.randrange(6)
        ws.append([0, 1, 2 ** 63, 2 ** 64 - 1, rng.getrandbits(64), rng.getrandbits(64)][c])
    return ws


def big_tok(rng, maxlen=8, zero_pad=True):
    n = rng.choice([1, 1, 2, 2, 3, 5, 6, rng.randrange(1, maxlen + 1)])
    ws = rand_limbs(rng, n)
    v = sum(w << (64 * i) for i, w in enumerate(ws))
    ln = n + (rng.choice([0, 0, 1, 3]) if zero_pad else 0)
    return "%x/%d" % (v, ln), v


def big_lines(rng, n, maxlen=8, karatsuba=0):
    lines = []
    for _ in range(n):
        a, av = big_tok(rng, maxlen)
        b, bv = big_tok(rng, maxlen)
        op = rng.choice(["add", "sub", "mul", "div", "cmp", "shl", "shr", "mask", "msb", "tz", "dec", "bin", "flags", "powi", "add", "sub", "mul", "div"])
        if op in ("add", "sub", "mul", "cmp"):
            if rng.randrange(6) == 0:
                b = a
            lines.append("big %s %s %s" % (op, a, b))
        elif op == "div":
            if bv == 0:
                continue
            if rng.randrange(4) == 0:  # divisor much smaller / single word
                b, bv = big_tok(rng, 1, False)
                if bv == 0:
                    continue
            lines.append("big div %s %s" % (a, b))
        elif op in ("shl", "shr", "mask"):
            k = rng.choice([0, 1, 63, 64, 65, 127, 128, 129, rng.randrange(0, 64 * maxlen + 70), rng.randrange(0, 20000) if op != "shl" else rng.randrange(0, 2000)])
            lines.append("big %s %s %d" % (op, a, k))
        elif op == "tz":
            if av:
                lines.append("big tz %s" % a)
        elif op == "powi":
            s, sv = big_tok(rng, 2, False)
            lines.append("big powi %s %d" % (s, rng.choice([0, 1, 2, 3, 5, 8, 17, 33])))
        else:
            lines.append("big %s %s" % (op, a))
    for k in [0, 1, 63, 64, 65, 127, 128, 129, 300]:
        lines.append("big allones %d" % k)
        lines.append("big onehot %d" % k)
    # divisors of every exact bit length next to the half-word / word boundaries (31..34, 63..66, 127..130) under long dividends
    for _ in range(max(60, n // 40)):
        b = rng.choice([31, 32, 33, 33, 33, 34, 63, 64, 65, 66, 127, 128, 129, 130, rng.randrange(2, 200)])
        dv = rng.getrandbits(b) | (1 << (b - 1)) | rng.choice([0, 1])
        if rng.randrange(4) == 0:
            dv = rng.choice([5 ** 14, 2 ** 32 + 1, 7777777777, 10 ** 10, 2 ** 33 - 1, 2 ** 32 + 2 ** 31, (1 << (b - 1)) + 1])
        la = rng.randrange(3, 9)
        av = rng.getrandbits(64 * la) | (1 << (64 * la - 1 - rng.randrange(0, 64)))
        lines.append("big div %x %x" % (av, dv))
    # decimal strings with long runs of zero digits in the middle (beyond the 5-word splitting threshold): c*10^k + small
    for _ in range(max(30, n // 200)):
        k = rng.choice([97, 100, 112, 120, 128, 150, 200, 320, rng.randrange(97, 400)])
        c = rng.choice([1, 7, 123456789, rng.randrange(1, 10 ** 18)])
        v = c * 10 ** k + rng.choice([0, 0, 7, 42, rng.randrange(0, 10 ** 9), 10 ** (k - 17) + 3 if k > 20 else 0])
        lines.append("big dec %x" % v)
        if rng.randrange(3) == 0:
            lines.append("big dec %x" % (10 ** k - 1))
    # glue: u128 / u64 constructors and accessors, zero in every printing routine, u64 right-hand operators
    for v in [0, 1, 2 ** 63, 2 ** 64 - 1, 2 ** 64, 2 ** 64 + 1, 2 ** 127, 2 ** 128 - 1] + [rng.getrandbits(rng.choice([10, 64, 65, 128])) for _ in range(40)]:
        lines.append("big u128 %x" % v)
    for t in ["0", "0/3"]:
        lines += ["big bin %s" % t, "big dec %s" % t, "big flags %s" % t, "big msb %s" % t]
    for _ in range(max(20, n // 100)):
        a, av = big_tok(rng, maxlen)
        w = rng.choice([0, 1, 2, 10, 2 ** 63, 2 ** 64 - 1, rng.getrandbits(64)])
        for op in ("add", "sub", "mul", "div"):
            if op == "div" and w == 0:
                continue
            lines.append("big %s %s %x" % (op, a, w))
    for _ in range(karatsuba):
        la, lb = rng.choice([(64, 64), (65, 65), (65, 1), (1, 65), (63, 66), (128, 129), (130, 64), (200, 257), (70, 300), (129, 129)])
        av = sum(w << (64 * i) for i, w in enumerate(rand_limbs(rng, la)))
        bv = sum(w << (64 * i) for i, w in enumerate(rand_limbs(rng, lb)))
        lines.append("big mul %x/%d %x/%d" % (av, la, bv, lb))
        if bv:
            lines.append("big div %x/%d %x/%d" % (av * bv + rng.getrandbits(30), la + lb, bv, lb))
    return lines


# ---------------------------------------------------------------- C13 display
def disp_lines_real(rng, n):
    lines = []
    fm = [(5, 11), (8, 24), (11, 53), (15, 113), (19, 237), (10, 120), (8, 8), (20, 600), (16, 1100), (12, 300), (6, 70)]
    for _ in range(n):
        E, P = rng.choice(fm)
        s = Sem(E, P, rng.choice(MODES))
        k = rng.randrange(8)
        sg = rng.randrange(2)
        if k == 0:
            a = rng.choice(SPECIALS + ["X1:0:0"])
        elif k == 1:  # integers
            e = rng.randrange(0, min(s.emax, 3000) + 1)
            m = rand_mant(rng, P)
            sh = max(0, (P - 1) - e)
            m = (m >> sh) << sh
            a = ftok("N", sg, e, m)
        elif k == 2:  # tiny
            e = max(s.emin, -rng.randrange(1, 4000))
            a = ftok("N", sg, e, rand_mant(rng, P) if e > s.emin else rng.randrange(1, 2 ** (P - 1)))
        elif k == 3:
            a = ftok("N", sg, min(s.emax, rng.randrange(0, 4000)), rand_mant(rng, P))
        elif k == 4:
            a = ftok("N", sg, max(s.emin + 1, min(s.emax, rng.randrange(-8, P + 8))), rand_mant(rng, P))
        else:
            a = rand_finite(rng, s, sg) if E <= 12 else ftok("N", sg, max(s.emin + 1, min(s.emax, rng.randrange(-3000, 3000))), rand_mant(rng, P))
        lines.append("disp %s %s" % (s, a))
    return lines


# ---------------------------------------------------------------- C14 parse
def hexs(b):
    return b.hex() if b else "-"


def rand_digits(rng, lo=0, hi=25):
    n = rng.choice([lo, 1, 1, 2, 3, 5, 8, rng.randrange(lo, hi + 1)])
    n = max(lo, n)
    k = rng.randrange(5)
    if k == 0:
        return b"0" * n
    if k == 1:
        return b"9" * n
    if k == 2:
        return b"0" * (n // 2) + bytes(rng.choice(b"0123456789") for _ in range(n - n // 2))
    return bytes(rng.choice(b"0123456789") for _ in range(n))


def parse_lines(rng, n):
    lines = []
    fm = [(5, 11), (8, 24), (11, 53), (15, 113), (10, 120), (8, 8), (19, 237)]
    for _ in range(n):
        E, P = rng.choice(fm)
        s = Sem(E, P, rng.choice(MODES))
        k = rng.randrange(12)
        sign = rng.choice([b"", b"", b"-", b"+"])
        if k <= 6:  # well-formed numbers
            ip = rand_digits(rng, 0, 30)
            s_ = sign + ip
            if rng.randrange(3):
                s_ += b"." + rand_digits(rng, 0, 30)
            if rng.randrange(3) == 0:
                ex = rng.choice([0, 1, 2, 5, 10, 20, 38, 308, 400, rng.randrange(0, 60), rng.randrange(0, 5000)])
                s_ += rng.choice([b"e", b"E"]) + rng.choice([b"", b"+", b"-"]) + (b"0" * rng.randrange(3)) + str(ex).encode()
        elif k == 7:
            s_ = sign + rng.choice([b"inf", b"INF", b"Inf", b"nan", b"NaN", b"NAN", b"iNf", b"nAn", b"infinity", b"na", b"nann"])
        elif k == 8:  # malformed exponent
            s_ = sign + rand_digits(rng, 1, 6) + rng.choice([b"e", b"E", b"e+", b"e-", b"e1e2", b"e1.5", b"e 1", b"e99999999999999999999", b"ee1", b"e+-1", b"e1+", b"E-"])
        elif k == 9:  # foreign characters
            base = sign + rand_digits(rng, 1, 6) + b"." + rand_digits(rng, 1, 6)
            pos = rng.randrange(len(base) + 1)
            ch = rng.choice([b" ", b"x", b",", b"_", b"\t", b"/", b":", b"f", b"d", "é".encode(), "٣".encode(), b"\x00", b"'", b"+", b"-", b"."])
            s_ = base[:pos] + ch + base[pos:]
        elif k == 10:
            s_ = rng.choice([b"", b"+", b"-", b".", b"+.", b"-.", b"e", b".e1", b"1.", b".5", b"0", b"00", b"0.0", b"-0", b"-0.000", b"+-1", b"--1", b"1..2", b"1.2.3", b"e5", b".e", b"1e", b"-e1"])
        else:
            L = rng.randrange(0, 8)
            try:
                s_ = bytes(rng.randrange(0x20, 0x7f) for _ in range(L))
            except ValueError:
                s_ = b""
        lines.append("parse %s %s" % (s, hexs(s_)))
    # long digit runs (hundreds of digits in one run), well-formed and with ONE foreign byte buried inside the run, also at
    # the 19-digit group boundaries counted from either end; decimal exponents far beyond 5000 in formats with >= 17 exponent bits
    for _ in range(max(40, n // 6)):
        E, P = rng.choice(fm + [(17, 64), (20, 64)])
        s = Sem(E, P, rng.choice(MODES))
        sign = rng.choice([b"", b"-", b"+"])
        k = rng.randrange(6)
        run = rand_digits(rng, 31, rng.choice([60, 80, 100, 160, 400]))
        if k == 0:
            s_ = sign + run
        elif k == 1:
            s_ = sign + rand_digits(rng, 0, 5) + b"." + run
        elif k == 2:
            s_ = sign + run + b"." + rand_digits(rng, 31, 120) + rng.choice([b"", b"e-12", b"E+7"])
        elif k == 3:   # one foreign byte inside a long run
            L = len(run)
            j = rng.randrange(0, L // 19 + 1)
            # (group boundaries of 19 / 18 / 9 digits counted from either end, with the inserted byte counted or not)
            pos = rng.choice([rng.randrange(0, L + 1), L - 19 * j, L + 1 - 19 * j, 19 * j, 19 * j - 1, L - 18 * j, L + 1 - 18 * j, 18 * j, L - 9 * j, L + 1 - 9 * j, 0, L])
            pos = max(0, min(L, pos))
            ch = rng.choice([b"+", b"+", b"-", b" ", b"_", b"x", b",", b"."])   # (not `e`: the rest of the run would be a huge exponent)
            part = run[:pos] + ch + run[pos:]
            s_ = rng.choice([sign + part, sign + b"1." + part, sign + part + b".5"])   # (never as an exponent: magnitudes beyond 5000 are outside the no-panic clause)
        elif k == 4 and E >= 17:   # huge decimal exponents (the powers of ten are hundreds of words long)
            ex = rng.choice([5300, 5400, 6000, 6136, 9500, 13502, rng.randrange(5001, 20000)])
            s_ = sign + rand_digits(rng, 1, 20) + rng.choice([b"", b"." + rand_digits(rng, 1, 20)]) + b"e" + rng.choice([b"", b"+", b"-"]) + str(ex).encode()
        else:          # very many fraction digits
            s_ = sign + rand_digits(rng, 0, 3) + b"." + (b"0" * rng.randrange(0, 300)) + rand_digits(rng, 1, 40)
        lines.append("parse %s %s" % (s, hexs(s_)))
    return lines


# ---------------------------------------------------------------- C15-C18, C20
TRANS_FMTS_Q = [(5, 11), (8, 8), (8, 24), (11, 53), (15, 64), (15, 113), (10, 120), (19, 237), (12, 260), (12, 340), (13, 420), (13, 480)]
TRANS_FMTS_T = TRANS_FMTS_Q + [(12, 190), (12, 200), (12, 300), (13, 500), (14, 1024), (6, 20), (5, 8), (9, 33)]


def rand_arg(rng, s, lo_exp, hi_exp, sign=None):
    sg = rng.randrange(2) if sign is None else sign
    e = max(s.emin, min(s.emax, rng.randrange(lo_exp, hi_exp + 1)))
    m = rand_mant(rng, s.P) if e > s.emin else rng.randrange(1, 2 ** (s.P - 1))
    return ftok("N", sg, e, m)


def fn_lines(rng, names, fmts, per, modes=MODES):
    lines = []
    for (E, P) in fmts:
        for m in modes:
            s = Sem(E, P, m)
            for name in names:
                args = list(SPECIALS) + ["X1:0:0"]
                for _ in range(per):
                    k = rng.randrange(8)
                    if name in ("exp", "sigmoid"):
                        a = [rand_arg(rng, s, -12, 10), rand_arg(rng, s, -3, 3), rand_arg(rng, s, 6, 10), rand_arg(rng, s, s.emin, s.emin + 4),
                             rand_arg(rng, s, -s.P - 3, -s.P + 3), rand_arg(rng, s, 8, 10, 1), rand_arg(rng, s, 0, 9), rand_arg(rng, s, -30, 12)][k]
                    elif name == "log":
                        a = [rand_arg(rng, s, -1, 0, 0), rand_arg(rng, s, 0, 0, 0), rand_arg(rng, s, s.emin, s.emin + 3, 0), rand_arg(rng, s, s.emax - 3, s.emax, 0),
                             ftok("N", 0, 0, 2 ** (P - 1)), ftok("N", 0, 0, 2 ** (P - 1) + 1), ftok("N", 0, -1, 2 ** P - 1), rand_arg(rng, s, -40, 40, 0)][k]
                        if rng.randrange(12) == 0:
                            a = rand_arg(rng, s, -3, 3, 1)
                        if rng.randrange(4) == 0:  # 1 - 2^-k and 1 + 2^-k
                            kk = rng.randrange(1, P)
                            a = rng.choice([ftok("N", 0, -1, 2 ** P - 2 ** (P - kk)), ftok("N", 0, 0, 2 ** (P - 1) + 2 ** (P - 1 - kk)),
                                            ftok("N", 0, -1, 2 ** P - 1 - rng.getrandbits(kk))])
                    else:  # sin cos tan sqr
                        a = [rand_arg(rng, s, -10, 6), rand_arg(rng, s, 0, 1), rand_arg(rng, s, s.emin, s.emin + 3), rand_arg(rng, s, -s.P - 2, -s.P // 2),
                             rand_arg(rng, s, 2, 6), rand_arg(rng, s, -3, 2), rand_arg(rng, s, -1, 0), rand_arg(rng, s, -25, 6)][k]
                    args.append(a)
                for a in args:
                    lines.append("fn %s %s %s" % (name, s, a))
    return lines


def pow_lines(rng, fmts, per):
    lines = []
    for (E, P) in fmts:
        for m in MODES:
            s = Sem(E, P, m)
            one = ftok("N", 0, 0, 2 ** (P - 1))
            for _ in range(per):
                x = rand_arg(rng, s, -6, 6, 0)
                y = rand_arg(rng, s, -4, 5)
                k = rng.randrange(10)
                if k == 0:
                    y = rng.choice(["Z0:0:0", "Z1:0:0"])
                    x = rng.choice([x, "X0:0:0", "I0:0:0", "I1:0:0", "Z0:0:0", rand_arg(rng, s, -3, 3, 1)])
                elif k == 1:
                    x = one
                    y = rng.choice([y, "I0:0:0", "X0:0:0", "Z0:0:0"])
                elif k == 2:
                    x = rand_arg(rng, s, -3, 3, 1)
                elif k == 3:
                    x = rng.choice(SPECIALS)
                elif k == 4:
                    y = rng.choice(SPECIALS)
                lines.append("pow %s %s %s" % (s, x, y))
            for _ in range(per):
                x = rand_arg(rng, s, -4, 4)
                n = rng.choice([0, 1, 2, 2, 3, 4, 5, 7, 8, 16, 31, 64, 100])
                if rng.randrange(10) == 0:
                    x = rng.choice(SPECIALS)
                lines.append("powi %s %d %s" % (s, n, x))
    return lines


def frac_lines(rng, n):
    lines = []
    for _ in range(n):
        E, P = rng.choice([(8, 24), (11, 53), (15, 113), (19, 237), (10, 120), (15, 64), (2, 16), (2, 24), (3, 20), (3, 30), (4, 40)])
        s = Sem(E, P, "E")
        k = rng.randrange(8)
        if E <= 4:  # tiny exponent range: every value is interesting
            a = rand_finite(rng, s)
        elif k == 0:
            a = rng.choice(SPECIALS)
        elif k == 1:  # p/q with small q
            q = rng.randrange(1, 200)
            p = rng.randrange(1, 2000)
            # nearest float to p/q
            from fractions import Fraction
            v = Fraction(p, q)
            e = v.numerator.bit_length() - v.denominator.bit_length()
            if Fraction(2) ** e > v:
                e -= 1
            m = int(v / Fraction(2) ** (e - (P - 1)))
            a = ftok("N", rng.randrange(2), e, m)
        elif k == 2:
            a = rand_arg(rng, s, -6, -1)
        elif k == 3:
            e = rng.randrange(0, P)
            m = rand_mant(rng, P)
            sh = (P - 1) - e
            m = (m >> sh) << sh
            a = ftok("N", rng.randrange(2), e, m)
        else:
            a = rand_arg(rng, s, -3, 8)
        lines.append("frac %s %d %s" % (s, rng.randrange(0, 17), a))
    return lines


def frac_structured_lines(rng, n):
    """values built FROM a chosen continued fraction [a0; a1, ..., ak] and rounded to the format, so that the property's
    hypothesis (n+2 terms, Q^2*ulp <= 2^-8) holds by construction: partial quotients of every size up to the precision allows
    (in particular 2^(p-1-64j), where the integer part of an iterate ends on a word boundary), values below one, deep
    subnormals, and formats whose exponent width equals the bit length of the precision (the widening rule's boundary)"""
    from fractions import Fraction
    lines = []
    fm = [(8, 24), (11, 53), (15, 64), (15, 113), (10, 120), (19, 237), (6, 53), (6, 43), (7, 100), (5, 20), (4, 12), (8, 130), (7, 64),
          (19, 320), (12, 400), (20, 512), (4, 100), (5, 160)]   # beyond 256 bits; precision far beyond the exponent range
    tries = 0
    while len(lines) < n and tries < 40 * n:
        tries += 1
        E, P = rng.choice(fm)
        s = Sem(E, P, rng.choice(["E", "E", "A", "Z", "P", "N", "O"]))
        nq = rng.randrange(1, 7)
        budget = P - 10            # bits available for Q^2 (ulp of a value in [1,2) is 2^-(p-1))
        qs = []
        # sizes of a1.. so that the denominator stays within the budget
        big_at = rng.randrange(0, nq + 2)
        for i in range(nq + 2):
            if i == big_at and rng.randrange(2):
                j = rng.randrange(1, max(2, P // 64 + 1))
                b = max(1, P - 1 - 64 * j + rng.choice([-1, 0, 0, 0, 1]))
                b = min(b, max(1, budget // 2 - 2)) if i > 0 else min(b, P - 12)
                qv = rng.getrandbits(b) | (1 << (b - 1)) if b > 0 else 1
            else:
                qv = rng.choice([1, 1, 2, 3, rng.randrange(1, 20), rng.randrange(1, 1000)])
            qs.append(max(1, qv))
        if rng.randrange(3) == 0:
            qs[0] = 0               # value below one
        v = Fraction(qs[-1])
        for qv in reversed(qs[:-1]):
            v = qv + 1 / v
        if v <= 0:
            continue
        sub = rng.randrange(6) == 0
        if sub:                     # push the value into the subnormal range (a0 = 0, a1 huge)
            shift = rng.randrange(1, max(2, P - 12))
            v = v / Fraction(2) ** (-(s.emin) + shift + 2)
        e = v.numerator.bit_length() - v.denominator.bit_length()
        if Fraction(2) ** e > v:
            e -= 1
        if e > s.emax or e < s.emin - (P - 1) + 12:
            continue
        ee = max(e, s.emin)
        m = int(v / Fraction(2) ** (ee - (P - 1)))
        if m == 0 or m >= 2 ** P:
            continue
        lines.append("frac %s %d %s" % (s, rng.randrange(0, nq + 1), ftok("N", rng.randrange(2), ee, m)))
    return lines


def underflow_boundary_casts(rng, n):
    """casts whose result sits at the bottom of the destination range, in particular sources whose
    precision fills whole 64-bit words (64, 128, 192, 256) shifted by exactly that many bits"""
    lines = []
    srcs = [(15, 64), (15, 128), (16, 192), (19, 256), (15, 113), (11, 53), (15, 65), (15, 127), (15, 129)]
    dsts = [(8, 24), (5, 11), (11, 53), (8, 8), (8, 64), (10, 64), (11, 128), (5, 4), (8, 23), (8, 25)]
    for _ in range(n):
        E, P = rng.choice(srcs)
        E2, P2 = rng.choice(dsts)
        s = Sem(E, P, rng.choice(MODES))
        g = Sem(E2, P2, rng.choice(MODES))
        m = rng.choice(MODES)
        # destination's smallest subnormal is 2^(emin2-(P2-1)); aim at c * 2^(that + d)
        base = g.emin - (g.P - 1) + rng.choice([-2, -1, -1, -1, 0, 0, 1, P2 - 2, P2 - 1])
        base = max(s.emin, min(s.emax, base))
        mant = rng.choice([2 ** (P - 1), 3 * 2 ** (P - 2), 2 ** (P - 1) + 1, 2 ** P - 1, 2 ** (P - 1) + 2 ** (P - 2) + 1, rand_mant(rng, P)])
        lines.append("cast %s %s %s %s" % (s, g, m, ftok("N", rng.randrange(2), base, mant)))
    return lines


def word_boundary_arith(rng, n):
    """add/sub/mul/div in formats whose precision fills whole words, with exponent gaps / underflow
    depths equal to the precision and neighbours (loss classification at a word boundary)"""
    lines = []
    for _ in range(n):
        E, P = rng.choice([(15, 64), (15, 128), (16, 192), (17, 256), (12, 64), (10, 128)])
        m = rng.choice(MODES)
        s = Sem(E, P, m)
        ea = rng.randrange(s.emin + 2 * P + 4, s.emax - 4)
        gap = rng.choice([P - 1, P, P, P, P + 1, 2 * P, 64, 128])
        a = ftok("N", rng.randrange(2), ea, rng.choice([2 ** (P - 1), rand_mant(rng, P)]))
        b = ftok("N", rng.randrange(2), ea - gap, rng.choice([2 ** (P - 1), 2 ** (P - 1) + 1, 3 * 2 ** (P - 2), 2 ** P - 1, rand_mant(rng, P)]))
        lines.append("%s %s %s %s %s" % (rng.choice(["add", "sub"]), s, m, a, b))
        # products / quotients that underflow by about P bits
        e1 = rng.randrange(s.emin, s.emin + 40)
        e2 = -rng.choice([P - 1, P, P, P + 1]) - rng.randrange(0, 3) - (e1 - s.emin)
        e2 = max(s.emin, min(s.emax, e2))
        lines.append("mul %s %s %s %s" % (s, m, ftok("N", 0, e1, rng.choice([2 ** (P - 1), 3 * 2 ** (P - 2), rand_mant(rng, P)])), ftok("N", rng.randrange(2), e2, rng.choice([2 ** (P - 1), 3 * 2 ** (P - 2), rand_mant(rng, P)]))))
        e3 = min(s.emax, -e2)
        lines.append("div %s %s %s %s" % (s, m, ftok("N", 0, e1, rng.choice([2 ** (P - 1), 3 * 2 ** (P - 2), rand_mant(rng, P)])), ftok("N", rng.randrange(2), e3, rng.choice([2 ** (P - 1), 3 * 2 ** (P - 2), rand_mant(rng, P)]))))
    return lines


def scale_overflow_lines(rng, fmts):
    """scale of subnormal / tiny operands by amounts beyond the width of the exponent range"""
    lines = []
    for (E, P) in fmts:
        for m in MODES:
            s = Sem(E, P, m)
            rng_w = s.emax - s.emin
            for sg in (0, 1):
                for mant in (1, 2 ** (P - 1) - 1, 3):
                    if mant >= 2 ** (P - 1):
                        continue
                    for k in (rng_w, rng_w + 1, rng_w + 2, rng_w + P - 2, rng_w + P - 1, rng_w + P, rng_w + P + 1, 2 * rng_w, 2 ** 40 - 1):
                        lines.append("scale %s %s %d %s" % (s, m, k, ftok("N", sg, s.emin, mant)))
                top = ftok("N", sg, s.emax, 2 ** P - 1)
                for k in (-rng_w, -rng_w - 1, -rng_w - P + 1, -rng_w - P, -rng_w - P - 1, -2 * rng_w, -(2 ** 40 - 1)):
                    lines.append("scale %s %s %d %s" % (s, m, k, top))
    return lines


def scale_extreme_k_lines(rng, fmts):
    """scale by amounts at the limits of the i64 argument: the sum `exp + k` leaves the machine range"""
    I64MAX, I64MIN = 2 ** 63 - 1, -2 ** 63
    lines = []
    for (E, P) in fmts:
        for m in MODES:
            s = Sem(E, P, m)
            vals = [ftok("N", 0, s.emin, 1), ftok("N", 1, s.emin, 2 ** (P - 1) - 1), ftok("N", 0, 0, 2 ** (P - 1)), ftok("N", 1, 1, 2 ** (P - 1) + 1),
                    ftok("N", 0, s.emax, 2 ** P - 1), ftok("N", 1, s.emax, 2 ** (P - 1)), ftok("N", 0, -1, 2 ** P - 1), ftok("N", 0, s.emin, 2 ** (P - 1))]
            for a in vals:
                ex = int(a.split(":")[1])
                if not (s.emin <= ex <= s.emax):
                    continue
                ks = {I64MAX, I64MAX - 1, I64MIN, I64MIN + 1, 2 ** 62, -2 ** 62, I64MAX - ex, I64MAX - ex + 1, I64MAX - ex - 1, I64MIN - ex, I64MIN - ex - 1, I64MIN - ex + 1,
                      rng.randrange(2 ** 62, 2 ** 63), -rng.randrange(2 ** 62, 2 ** 63)}
                for k in sorted(ks):
                    if I64MIN <= k <= I64MAX:
                        lines.append("scale %s %s %d %s" % (s, m, k, a))
    return lines


def wide_exponent_prog_lines(rng, per):
    """core operations (no loops over the exponent range) in formats whose exponent field is as wide as the i64 exponent
    arithmetic allows (C19Ovf: e <= 62): extreme operands, every mode, scale amounts at the i64 limits, casts both ways"""
    lines = []
    for (E, P) in [(61, 24), (61, 113), (62, 11), (48, 53), (33, 64)]:
        for m in MODES:
            s = Sem(E, P, m)
            ext = [ftok("N", 0, s.emax, 2 ** P - 1), ftok("N", 1, s.emax, 2 ** (P - 1)), ftok("N", 0, s.emin, 1), ftok("N", 1, s.emin, 2 ** (P - 1) - 1),
                   ftok("N", 0, s.emin, 2 ** (P - 1)), ftok("N", 0, 0, 2 ** (P - 1)), ftok("N", 1, -1, 2 ** P - 1), ftok("N", 0, s.emax // 2, 2 ** (P - 1) + 1),
                   ftok("N", 1, s.emin // 2, 2 ** P - 1)] + SPECIALS[:5]
            for _ in range(per):
                a, b = rng.choice(ext), rng.choice(ext)
                ins = ["lit/%s/%s" % (s, a), "lit/%s/%s" % (s, b)]
                for op in ("add", "sub", "mul", "div"):
                    ins.append("%s/%s/0/1" % (op, m))
                k = rng.choice([2 ** 63 - 1, -2 ** 63, s.emax - s.emin, s.emin - s.emax, s.emax, -s.emax, rng.randrange(-2 ** 62, 2 ** 62), 1, -1])
                ins.append("scale/%s/%d/%d" % (m, k, rng.randrange(2, 6)))
                G = rng.choice([Sem(5, 11, m), Sem(E, P + 3, m), Sem(E - 1, P, m), Sem(11, 53, m), Sem(max(2, E - 30), max(2, P - 5), m)])
                ins.append("cast/%s/%s/%d" % (G, rng.choice(MODES), rng.randrange(0, 7)))
                ins.append("cast/%s/%s/%d" % (s, m, len(ins) - 1))
                ins.append("trunc/%d" % rng.randrange(0, 6))
                ins.append("round/%d" % rng.randrange(0, 6))
                ins.append("min/0/1")
                ins.append("max/2/3")
                ins.append("fromu64/%s/%d" % (s, rng.choice([0, 1, 2 ** 64 - 1, rng.randrange(2 ** 64)])))
                ins.append("fromi64/%s/%d" % (s, rng.choice([-2 ** 63, -1, 2 ** 63 - 1])))
                lines.append("prog " + " ".join(ins))
    return lines


def nat_special_pairs():
    """every ordered pair of the special FP64 / FP32 patterns x every native-compared operation"""
    p64 = [0, 1 << 63, 1, (1 << 63) | 1, 0x7ff0000000000000, 0xfff0000000000000, 0x7ff8000000000000, 0x7fefffffffffffff, 0xffefffffffffffff,
           0x3ff0000000000000, 0xbff0000000000000, 0x10000000000000, 0x8010000000000000, 0xfffffffffffff]
    p32 = [0, 1 << 31, 1, (1 << 31) | 1, 0x7f800000, 0xff800000, 0x7fc00000, 0x7f7fffff, 0xff7fffff, 0x3f800000, 0xbf800000, 0x800000, 0x80800000, 0x7fffff]
    lines = []
    for op in ("add", "sub", "mul", "div", "rem", "cmp"):
        for a in p64:
            for b in p64:
                lines.append("nat64 %s %d %d" % (op, a, b))
        for a in p32:
            for b in p32:
                lines.append("nat32 %s %d %d" % (op, a, b))
    return lines


def nearest_tok(s, v, sign=0, delta=0):
    """token of the float of format s nearest (by truncation) to the positive rational/float v, moved by delta ulps"""
    from fractions import Fraction
    v = Fraction(v)
    e = v.numerator.bit_length() - v.denominator.bit_length()
    if Fraction(2) ** e > v:
        e -= 1
    e = max(s.emin, min(s.emax, e))
    m = int(v / Fraction(2) ** (e - (s.P - 1))) + delta
    if m >= 2 ** s.P:
        m, e = m >> 1, e + 1
    if m < 2 ** (s.P - 1) and e > s.emin:
        m, e = m * 2, e - 1
    m = max(1, min(2 ** s.P - 1, m))
    if e > s.emax:
        e, m = s.emax, 2 ** s.P - 1
    return ftok("N", sign, e, m)


def exp_threshold_lines(rng, fmts, names=("exp", "sigmoid"), modes=("E", "A")):
    """arguments near the overflow / underflow thresholds of exp: +-ln(max finite), +-ln(min normal), +-ln(min subnormal)"""
    import math
    lines = []
    for (E, P) in fmts:
        if E > 11:
            continue  # |x| <= 1024 is the property's domain
        for m in modes:
            s = Sem(E, P, m)
            pts = [(s.emax + 1) * math.log(2), s.emin * math.log(2), (s.emin - (P - 1)) * math.log(2), (s.emin - P) * math.log(2),
                   (s.emax + 1) * math.log(2) / 2, ((s.emax + 1) + (P - 1) / 2.0) * math.log(2)]
            for t in pts:
                a = abs(t)
                if a > 1024 or a == 0:
                    continue
                for f in (0.98, 0.995, 0.9999, 1.0, 1.0001, 1.005, 1.02, 1.08, 1.15):
                    for sg in (0, 1):
                        for name in names:
                            lines.append("fn %s %s %s" % (name, s, nearest_tok(s, a * f, sg, rng.randrange(-2, 3))))
    return lines


def exp_narrow_wide_lines(rng, per, names=("exp", "sigmoid"), modes=("E", "A")):
    """few significand bits, many exponent bits, large arguments (|x| up to 1024): the squarings that undo the range
    reduction amplify the error of the Taylor value 2^12-fold, which a guard-bit budget sized by the precision alone
    does not cover"""
    lines = []
    for (E, P) in [(11, 12), (11, 8), (11, 10), (11, 16), (11, 20), (12, 14), (10, 9), (15, 12), (11, 24)]:
        for m in modes:
            s = Sem(E, P, m)
            for name in names:
                for _ in range(per):
                    a = rand_arg(rng, s, 6, 9)
                    lines.append("fn %s %s %s" % (name, s, a))
                for _ in range(per // 4):
                    lines.append("fn %s %s %s" % (name, s, rand_arg(rng, s, 3, 5)))
    return lines


def exp_top_binade_lines(ps, names=("exp",), modes=("E", "A")):
    """every argument in [512, 1024) of the 11-exponent-bit formats with the given (small) precisions: the most
    squarings the property's domain allows on top of the fewest guard bits (exhaustive over that binade)"""
    lines = []
    for P in ps:
        for m in modes:
            s = Sem(11, P, m)
            for name in names:
                for mant in range(2 ** (P - 1), 2 ** P):
                    lines.append("fn %s %s %s" % (name, s, ftok("N", 0, 9, mant)))
    return lines


def sigmoid_negative_lines(rng, per, modes=("E", "A")):
    """sigmoid of moderately negative arguments (-16 < x <= -1): e^x, 1 + e^x and the quotient are rounded one after the
    other and the three errors add up there (dense random sampling; about 2 arguments in 10^4 show the extreme)"""
    lines = []
    for (E, P) in [(8, 24), (11, 53), (5, 14), (8, 12), (15, 64), (10, 30)]:
        for m in modes:
            s = Sem(E, P, m)
            for _ in range(per):
                lines.append("fn sigmoid %s %s" % (s, ftok("N", 1, rng.choice([0, 1, 1, 2, 2, 3]), rand_mant(rng, P))))
    return lines


def log_near_one_lines(rng, fmts, per=24, modes=MODES):
    lines = []
    for (E, P) in fmts:
        for m in modes:
            s = Sem(E, P, m)
            for _ in range(per):
                k = rng.randrange(2, min(P - 1, 40))
                c = rng.randrange(1, 64)
                below = 2 ** P - min(2 ** P - 2 ** (P - 1) - 1, c * 2 ** max(0, P - k - 6))
                above = 2 ** (P - 1) + min(2 ** (P - 1) - 1, c * 2 ** max(0, P - 1 - k - 6))
                lines.append("fn log %s %s" % (s, ftok("N", 0, -1, max(2 ** (P - 1), below))))
                lines.append("fn log %s %s" % (s, ftok("N", 0, 0, above)))
    return lines


def trig_multiple_lines(rng, fmts, modes=("E", "A"), kmax=81):
    """both signs of the floats around k*pi/2, |x| <= 128 (range-reduction boundaries)"""
    from fractions import Fraction
    PI = Fraction(314159265358979323846264338327950288419716939937510, 10 ** 50)
    lines = []
    for (E, P) in fmts:
        for m in modes:
            s = Sem(E, P, m)
            for k in range(1, kmax + 1):
                v = PI * k / 2
                if v > 128:
                    break
                for d in (-1, 0, 1, 2):
                    for name in ("sin", "cos", "tan"):
                        for sg in (0, 1):
                            lines.append("fn %s %s %s" % (name, s, nearest_tok(s, v, sg, d)))
    return lines


def powi_guard_lines(rng, per):
    """powi with exponents 15..1023 in formats whose precision sits next to a multiple of 64 (63, 64, 65, 127, 128, 191, 255):
    the working precision of powi is p + 2 bits, and any shortfall of the guard bits shows as a fraction of a per cent of the
    arguments exceeding 1 + n/4 ulps only for n >= 15"""
    lines = []
    for (E, P) in [(15, 63), (11, 127), (15, 191), (19, 255), (15, 64), (15, 65)]:
        for m in MODES:
            s = Sem(E, P, m)
            for _ in range(per):
                n = rng.choice([15, 31, 63, 127, 255, 511, 1023, rng.randrange(15, 1024)])
                # x in [1, 2) close enough to 1 that x^n stays finite
                lim = min(s.emax - 1, 600)
                top = 2 ** P - 1 if n * 1 <= lim else 2 ** (P - 1) + int((2 ** (P - 1)) * min(1.0, 0.69 * lim / n))
                mant = rng.randrange(2 ** (P - 1), max(2 ** (P - 1) + 1, top))
                lines.append("powi %s %d %s" % (s, n, ftok("N", rng.randrange(2), 0, mant)))
    return lines


def pow_wide_exponent_lines(rng, per):
    """pow in formats with 22 and more exponent bits, bases with exponents beyond 2^20 (both parities) and below -2^20:
    the logarithm's square-root chain starts from there"""
    lines = []
    for (E, P) in [(22, 53), (24, 24), (22, 64)]:
        for m in ("E", "A"):
            s = Sem(E, P, m)
            for _ in range(per):
                ex = rng.choice([2 ** 20 + 1, 2 ** 20 + 2, 2 ** 20 + 3, 2 ** 20 + 1000, 2 ** 20 + 1001, -(2 ** 20) - 1, -(2 ** 20) - 2, 2 ** 20 - 1, s.emax - 1, s.emin + 1])
                x = ftok("N", 0, ex, rand_mant(rng, P) if rng.randrange(2) else 2 ** (P - 1))
                # |y ln x| <= 512  ->  |y| <= 512 / (|ex| ln 2)
                ye = -12 - rng.randrange(0, 4)
                y = ftok("N", rng.randrange(2), ye, rand_mant(rng, P))
                lines.append("pow %s %s %s" % (s, x, y))
    return lines


def pow_large_lines(rng, fmts, per, modes=("E", "A")):
    """pow with 100 <= |y ln x| <= 512 (error amplification through exp)"""
    import math
    lines = []
    for (E, P) in fmts:
        if E < 11:
            continue
        for m in modes:
            s = Sem(E, P, m)
            for _ in range(per):
                xv = rng.choice([rng.uniform(1.5, 30.0), rng.uniform(0.03, 0.7), 3.0, 7.5, 11.0, 19.0])
                t = rng.uniform(100.0, 511.0) * rng.choice([1, -1])
                yv = t / math.log(xv)
                lines.append("pow %s %s %s" % (s, nearest_tok(s, xv, 0), nearest_tok(s, abs(yv), 1 if yv < 0 else 0)))
    return lines


def misc_lines(rng, n):
    """the public glue that no arithmetic stream touches: `Display for Semantics`, `RoundingMode::as_string`, `get_decimal_accuracy`
    (every precision up to 1100, then scattered ones), `BigInt::pseudorandom(parts, seed)` (the 32-bit LFSR of utils.rs:
    zero parts, one word, many words; seeds 0, all-ones, single bits, random), `BigInt::default`"""
    lines = ["misc default"]
    for P in range(2, 1100):
        E = next(e for e in range(2, 40) if P <= 2 ** (e - 1) - 2) if P > 2 else 2
        lines.append("misc sem %d,%d,%s" % (rng.choice([E, E + 1, 20, 30]), P, MODES[P % 6]))
    for _ in range(n):
        lines.append("misc sem %d,%d,%s" % (rng.randrange(2, 40), rng.choice([rng.randrange(2, 5000), rng.randrange(2, 10 ** 6)]), rng.choice(MODES)))
    seeds = [0, 1, 2 ** 32 - 1, 0x13371337, 0x13371336, 2 ** 31] + [1 << k for k in range(0, 32, 3)]
    for sd in seeds:
        for parts in (0, 1, 2, 3, 17):
            lines.append("misc prand %d %d" % (parts, sd))
    for _ in range(n):
        lines.append("misc prand %d %d" % (rng.choice([0, 1, 2, 4, 5, 8, rng.randrange(0, 80)]), rng.getrandbits(32)))
    return lines
