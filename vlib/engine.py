"""Check engine: streams of protocol lines -> implementation vs model vs spec; verdict; evidence."""
import json
import os
import re
import subprocess
import sys
import time
from collections import Counter

from . import run

VERIF = run.VERIF
TRUSTED_BASE = [
    "Lean 4.33 kernel (theorems re-checked by `lake build`; `leanchecker` in the thorough tier)",
    "axioms allowed: propext, Classical.choice, Quot.sound (audited per theorem by lean/Audit.lean); no sorry, no native_decide, no own axioms",
    "Mathlib v4.33 definitions of Rat/Int.floor/Int.log used in the statements",
    "hand-written Lean model of the Rust code (lean/Arp/Model), tied to /repo by the correspondence run of this check (tested, not proved)",
    "Nat abstraction of BigInt under the float model (justified by the C09 limb theorems to the extent proved)",
    "rustc/cargo, the harness (public API only), Python orchestration",
]


def canon(s):
    return s.strip()


class Failure:
    def __init__(self, kind, stream, line, impl, model, spec, note=""):
        self.kind, self.stream, self.line = kind, stream, line
        self.impl, self.model, self.spec, self.note = impl, model, spec, note

    def to_json(self):
        return {"kind": self.kind, "stream": self.stream, "line": self.line, "impl": self.impl,
                "model": self.model, "spec": self.spec, "note": self.note}


class Ctx:
    def __init__(self, pid, tier, seed):
        self.pid, self.tier, self.seed = pid, tier, seed
        self.t0 = time.time()
        self.failures = []          # oracle failures on concrete inputs (violations unless known)
        self.disagreements = []     # impl != model (broken correspondence)
        self.broken = []            # broken obligations (theorems, builds)
        self.evals = 0
        self.nontrivial = set()
        self.tags = Counter()
        self.streams = {}
        self.samples = []
        self.exhaustive = []
        self.assumptions = []
        self.obligations = []       # (name, ok, axioms)
        self.notes = []
        self.profiles_built = set()

    # ------------------------------------------------------------------ builds
    def build(self, lean_targets, profiles=("release",)):
        for prof in profiles:
            ok, log = run.build_harness(prof)
            if not ok:
                self.broken.append({"what": "harness build (%s) against /repo failed" % prof, "log": log})
            else:
                self.profiles_built.add(prof)
        ok, log = run.build_lean(list(lean_targets) + ["arpdrv"])
        if not ok:
            self.broken.append({"what": "lake build %s failed" % " ".join(lean_targets), "log": log})
        return not self.broken

    def audit(self, module, namespace, expected):
        """axioms of every expected theorem (names relative to `namespace` unless they contain a dot)"""
        full = [(n if n.startswith("Arp.") else (("Arp." + n) if "." in n else namespace + "." + n)) for n in expected]
        p = subprocess.run(["lake", "env", "lean", "--run", "Audit.lean", module] + full,
                           cwd=run.LEAN, capture_output=True, text=True)
        found = {}
        if p.returncode == 0:
            for ln in p.stdout.splitlines():
                if ln.startswith("THM "):
                    _, name, ax = (ln.split(" ", 2) + [""])[:3]
                    found[name] = [a for a in ax.split(",") if a]
        else:
            self.broken.append({"what": "audit of %s failed" % module, "log": (p.stdout + p.stderr)[-3000:]})
        allowed = {"propext", "Classical.choice", "Quot.sound"}
        for name in full:
            if name not in found:
                self.obligations.append((name, False, ["<missing>"]))
                self.broken.append({"what": "theorem %s missing / did not elaborate" % name})
            else:
                ok = set(found[name]) <= allowed
                self.obligations.append((name, ok, found[name]))
                if not ok:
                    self.broken.append({"what": "theorem %s depends on disallowed axioms %s" % (name, found[name])})
        # source hygiene
        g = subprocess.run("grep -rnE 'sorry|admit|^axiom |native_decide|bv_decide|implemented_by|unsafe |maxHeartbeats 0' Arp Driver.lean | grep -v -- '--' || true",
                           cwd=run.LEAN, shell=True, capture_output=True, text=True)
        if g.stdout.strip():
            self.broken.append({"what": "forbidden construct in Lean sources", "log": g.stdout[:2000]})

    # ------------------------------------------------------------------ streams
    def stream(self, name, lines, profile="release", spec_mode="eq", exhaustive=False,
               nontrivial=lambda tag: tag not in ("x", "c", "-", ""), chunk_timeout=300, per_line_timeout=5.0,
               impl_post=None, judge=None, chunk_lines=500):
        """run lines on implementation and model; compare impl/model (correspondence) and impl/spec (oracle)."""
        if not lines:
            return [], []
        if profile not in self.profiles_built:
            return [], []
        impl = run.run_lines(run.harness_bin(profile), lines, "h-%s-%s" % (self.pid, name), chunk_timeout, per_line_timeout, chunk_lines=chunk_lines)
        mod = run.run_lines(run.drv_bin(), lines, "d-%s-%s" % (self.pid, name), chunk_timeout, max(30.0, per_line_timeout), chunk_lines=chunk_lines)
        st = self.streams.setdefault(name, {"lines": 0, "disagree": 0, "oracle_fail": 0, "profile": profile})
        st["lines"] += len(lines)
        self.evals += len(lines)
        if exhaustive:
            self.exhaustive.append(name)
        if len(self.samples) < 12:
            for i in (0, len(lines) // 2, len(lines) - 1):
                self.samples.append({"stream": name, "line": lines[i], "impl": impl[i], "model": mod[i]})
        for ln, im, mo in zip(lines, impl, mod):
            parts = mo.split("\t")
            if len(parts) != 3:
                parts = [mo, "-", "-"]
            m, sp, tag = parts
            im_c = canon(impl_post(im) if impl_post else im)
            im_extra = None
            if spec_mode in ("prog", "native") and "\t" in im:
                im_c, im_extra = [x.strip() for x in im.split("\t", 1)]
            self.tags[name + ":" + tag] += 1
            if nontrivial(tag):
                self.nontrivial.add(ln)
            if im_c == "SKIP" or m == "SKIP":
                st["skipped"] = st.get("skipped", 0) + 1   # not executed: too many aborts/hangs in this chunk already
                continue
            if m == "bad-op" or im_c == "bad-op":
                self.broken.append({"what": "protocol error", "line": ln, "impl": im, "model": mo})
                continue
            if im_c != m and not (im_c == "HANG" and m == "FUEL"):
                # (a loop the model cannot finish within its fuel corresponds to a hang of the code)
                st["disagree"] += 1
                self.disagreements.append(Failure("disagree", name, ln, im, m, sp))
            # oracle
            if im_c in ("PANIC", "ABORT", "HANG"):
                st["oracle_fail"] += 1
                self.failures.append(Failure("total", name, ln, im, m, sp, "operation did not return normally"))
            elif spec_mode == "eq" and sp != "-":
                if im_c != sp:
                    st["oracle_fail"] += 1
                    self.failures.append(Failure("oracle", name, ln, im, m, sp))
            elif spec_mode == "native":
                # C07: the crate's bits must equal the host's native result (NaN payloads aside)
                if im_extra is None or im_extra != im_c:
                    st["oracle_fail"] += 1
                    self.failures.append(Failure("oracle", name, ln, im, m, im_extra or "-", "differs from the native IEEE-754 operation"))
            elif spec_mode == "prog":
                # direct oracle: the harness' own canonical-form predicate on every value the crate returned
                if im_extra is None or set(im_extra.split()) - {"1"}:
                    st["oracle_fail"] += 1
                    self.failures.append(Failure("oracle", name, ln, im, m, sp, "a returned value is not canonical"))
            elif spec_mode == "ok" and sp.startswith("ok="):
                if im_c == m:
                    if sp != "ok=1":
                        st["oracle_fail"] += 1
                        self.failures.append(Failure("oracle", name, ln, im, m, sp))
                # impl != model: judged separately by the caller (judge stream)
        if spec_mode == "ok" and judge is not None:
            # second pass: the implementation's own answers that differ from the model's are judged by the
            # property's predicate (the verdict printed with the model's answer does not apply to them)
            pend = []
            for ln, im, mo in zip(lines, impl, mod):
                m = mo.split("\t")[0]
                if im != m and im not in ("PANIC", "ABORT", "HANG", "SKIP", "bad-op") and m not in ("FUEL", "bad-op"):
                    jl = judge(ln, im)
                    if jl:
                        pend.append((ln, im, m, jl))
            if pend:
                jo = run.run_lines(run.drv_bin(), [p[3] for p in pend], "j-%s-%s" % (self.pid, name), chunk_timeout, 30.0)
                for (ln, im, m, jl), o in zip(pend, jo):
                    if not o.startswith("ok=1"):
                        st["oracle_fail"] += 1
                        self.failures.append(Failure("oracle", name, ln, im, m, o.split("\t")[0], "judged by the property's predicate: " + jl))
        return impl, mod

    def fail(self, kind, stream, line, impl, expected, note=""):
        self.streams.setdefault(stream, {"lines": 0, "disagree": 0, "oracle_fail": 0})["oracle_fail"] += 1
        self.failures.append(Failure(kind, stream, line, impl, "", expected, note))

    # ------------------------------------------------------------------ verdict
    def finish(self, level_text="", unproven=(), full_strength=True):
        os.makedirs(os.path.join(run.OUT, "evidence"), exist_ok=True)
        os.makedirs(os.path.join(run.OUT, "replays"), exist_ok=True)
        known = load_known()
        open_entries = [k for k in known if k["property"] == self.pid and k["status"] == "open"]
        hits = Counter()
        unknown = []
        for f in self.failures:
            k = classify(f, open_entries)
            if k:
                hits[k["id"]] += 1
            else:
                unknown.append(f)
        unknown_dis = []
        for f in self.disagreements:
            k = classify(f, open_entries)
            if k:
                continue
            unknown_dis.append(f)
        out = []
        rc = 0
        for k in open_entries:
            out.append("KNOWN-FINDING: property=%s %s: %s (reproduced on %d case(s) this run)" % (self.pid, k["id"], k["what"], hits[k["id"]]))
        nviol = 0
        if unknown:
            nviol = len(unknown)
            rp = self._replay("input", unknown[:50], extra={"n_failing": len(unknown)})
            out.append("VIOLATION property=%s replay=%s" % (self.pid, rp))
            rc = 1
        elif unknown_dis or self.broken:
            # correspondence or obligation broken, no failing input found by the property's oracle
            nviol = 1
            rp = self._replay("broken", unknown_dis[:50], extra={"broken_obligations": self.broken,
                              "n_disagreements": len(unknown_dis),
                              "note": "model/implementation correspondence or a proof obligation no longer checks; the search over this run's pools found no input on which the property's oracle fails"})
            out.append("VIOLATION property=%s replay=%s no-failing-input-found" % (self.pid, rp))
            rc = 1
        obligations = len(self.obligations)
        discharged = sum(1 for o in self.obligations if o[1])
        ev = {
            "property_id": self.pid, "tier": self.tier, "seed": self.seed, "level": "proof",
            "coverage": {
                "obligations": max(obligations, 0), "discharged": discharged,
                "checker_cmd": "cd /verif/lean && lake build %s && lake env lean --run Audit.lean %s <theorem names of lean/obligations.json>" % (getattr(self, "module", "Arp.Props." + self.pid), getattr(self, "module", "Arp.Props." + self.pid)),
                "trusted_base": TRUSTED_BASE,
                "theorems": [{"name": n, "ok": ok, "axioms": ax} for n, ok, ax in self.obligations],
                "full_strength": full_strength, "unproven_clauses": list(unproven),
                "evaluations": self.evals, "distinct_nontrivial": len(self.nontrivial),
                "rule": "correspondence lines run through the real crate and the Lean model; non-trivial = distinct lines whose model branch tag is not the trivial 'exact / special operand' path",
                "samples": self.samples[:12], "exhaustive_streams": self.exhaustive, "exhaustive": bool(self.exhaustive),
                "streams": self.streams, "branch_tags": dict(self.tags.most_common(60)),
                "disagreements": len(self.disagreements), "oracle_failures": len(self.failures),
                "known_finding_hits": dict(hits), "broken_obligations": len(self.broken),
            },
            "assumptions": self.assumptions + self.notes,
            "wall_s": round(time.time() - self.t0, 2), "violations": nviol,
        }
        with open(os.path.join(run.OUT, "evidence", self.pid + ".json"), "w") as f:
            json.dump(ev, f, indent=1)
        for l in out:
            print(l)
        print("%s tier=%s seed=%d evaluations=%d nontrivial=%d disagreements=%d oracle_failures=%d obligations=%d/%d wall=%.1fs rc=%d" % (
            self.pid, self.tier, self.seed, self.evals, len(self.nontrivial), len(self.disagreements), len(self.failures), discharged, obligations, time.time() - self.t0, rc))
        return rc

    def _replay(self, kind, fails, extra=None):
        path = os.path.join(run.OUT, "replays", "%s-%d-%d.json" % (self.pid, self.seed, int(time.time())))
        d = {"property": self.pid, "tier": self.tier, "seed": self.seed, "kind": kind,
             "cases": [f.to_json() for f in fails],
             "how_to_replay": "./check.py %s --replay %s   (re-executes the case lines on the current /repo and on the model)" % (self.pid, path)}
        if extra:
            d.update(extra)
        with open(path, "w") as f:
            json.dump(d, f, indent=1)
        return path


def load_known():
    p = os.path.join(VERIF, "known_findings.json")
    if not os.path.exists(p):
        return []
    return json.load(open(p)).get("findings", [])


def classify(f, entries):
    for k in entries:
        m = k.get("match", {})
        if "line_regex" in m and not re.search(m["line_regex"], f.line):
            continue
        if "impl_regex" in m and not re.search(m["impl_regex"], f.impl):
            continue
        if "kind" in m and f.kind not in m["kind"]:
            continue
        return k
    return None
