"""Per-property check definitions."""
import json
import os
import random

from . import engine, gen, run
from .gen import MODES, Sem, ftok

OBL = json.load(open(os.path.join(run.LEAN, "obligations.json")))


# properties whose thorough pools cost well under a minute: the quick tier already uses them (measured: 14-30 s each),
# and the thorough tier triples the random streams
CHEAP = {"C02", "C03", "C04", "C05", "C06", "C07", "C08"}


def tiers(ctx, q, t):
    if ctx.pid in CHEAP:
        if ctx.tier == "thorough" and isinstance(t, int) and not isinstance(t, bool) and t >= 1000:
            return 3 * t
        return t
    return t if ctx.tier == "thorough" else q


def start(ctx, profiles=("release",)):
    pid = ctx.pid
    module = OBL.get(pid, {}).get("module", "Arp.Props." + pid)
    ctx.module = module
    ctx.build([module], profiles)
    if not any(b["what"].startswith("lake build") for b in ctx.broken):
        ctx.audit(module, "Arp." + pid, OBL.get(pid, {}).get("theorems", []))
    if ctx.tier == "thorough":
        import subprocess
        p = subprocess.run(["lake", "env", "leanchecker", module], cwd=run.LEAN, capture_output=True, text=True)
        if p.returncode != 0:
            ctx.broken.append({"what": "leanchecker rejected " + module, "log": (p.stdout + p.stderr)[-2000:]})
        else:
            ctx.notes.append("leanchecker %s: accepted" % module)
    corpus(ctx)


def corpus_lines(pid, ops=None):
    p = os.path.join(run.VERIF, "corpus", pid + ".txt")
    if not os.path.exists(p):
        return []
    lines = [l.strip() for l in open(p) if l.strip() and not l.startswith("#")]
    return [l for l in lines if ops is None or l.split()[0] in ops]


SEARCH_OPS = {"const", "fn", "pow", "powi", "frac", "disp", "parse"}   # judged by a search oracle: added to the property's own stream


def corpus(ctx):
    """minimised past disagreements / finding witnesses: always run first"""
    p = os.path.join(run.VERIF, "corpus", ctx.pid + ".txt")
    if os.path.exists(p):
        lines = [l for l in corpus_lines(ctx.pid) if l.split()[0] not in SEARCH_OPS or ctx.pid == "C19"]
        eq = [l for l in lines if not l.split()[0] in OK_OPS]
        ok = [l for l in lines if l.split()[0] in OK_OPS]
        ctx.stream("corpus", eq)
        ctx.stream("corpus-ok", ok, spec_mode="ok", judge=_sqrt_judge)


OK_OPS = {"sqrt"}


def padded(ctx, rng, name, lines, n, **kw):
    """a sample of the stream's requests again, with the operands' significands stored in more words than needed"""
    sample = lines if len(lines) <= n else rng.sample(lines, n)
    pl = gen.pad_lines(rng, sample)
    return pl, ctx.stream(name + "-padded", pl, **kw)


def done(ctx):
    o = OBL.get(ctx.pid, {})
    return ctx.finish(unproven=o.get("unproven_clauses", []), full_strength=o.get("full_strength", False))


# --------------------------------------------------------------------------- C01
def c01(ctx):
    start(ctx)
    rng = random.Random(ctx.seed)
    ops = ["add", "sub", "mul", "div"]
    small = tiers(ctx, gen.SMALL_QUICK, gen.SMALL_THOROUGH)
    ctx.stream("exh-small", gen.exh_binary(ops, small), exhaustive=True)
    n = tiers(ctx, 20000, 400000)
    ctx.stream("rand-real", gen.rand_binary(rng, ops, n))
    ctx.stream("ties", gen.tie_products(rng, n // 8))
    ctx.stream("word-boundary", gen.word_boundary_arith(rng, tiers(ctx, 3000, 50000)))
    ctx.stream("mode-differs-from-format", gen.rm_mismatch_lines(rng, tiers(ctx, 6000, 80000)))
    padded(ctx, rng, "rand-real", gen.rand_binary(rng, ops, tiers(ctx, 6000, 60000)) + gen.word_boundary_arith(rng, 2000), 10 ** 9)
    # operator spellings (glue): every spelling must equal *_with_rm(sem.mode)
    lines = []
    for _ in range(tiers(ctx, 3000, 30000)):
        E, P = gen.rand_format(rng)
        s = Sem(E, P, rng.choice(MODES))
        a, b = gen.rand_pair(rng, s)
        lines.append("oper %s %s %s %s" % (rng.choice(ops), s, a, b))
    for (E, P) in [(3, 3), (4, 3)]:
        for m in MODES:
            s = Sem(E, P, m)
            vals = gen.finite_and_zero(s)
            for op in ops:
                for a in vals[::3]:
                    for b in vals[::5]:
                        lines.append("oper %s %s %s %s" % (op, s, a, b))
    ctx.stream("operators", lines)
    lines = []
    for _ in range(tiers(ctx, 2000, 20000)):
        E, P = gen.rand_format(rng)
        s = Sem(E, P, rng.choice(MODES))
        a = gen.rand_finite(rng, s)
        n64 = rng.choice([0, 1, 2, 3, 10, 2 ** 63, 2 ** 64 - 1, rng.randrange(2 ** 64), rng.randrange(2 ** 20), 2 ** rng.randrange(64)])
        lines.append("operu %s %s %s %d" % (rng.choice(ops), s, a, n64))
    ctx.stream("operators-u64", lines)
    return done(ctx)


# --------------------------------------------------------------------------- C02
def c02(ctx):
    start(ctx)
    rng = random.Random(ctx.seed)
    fm = gen.SMALL_QUICK + gen.REAL + [(5, 4), (6, 20)]
    if ctx.tier == "thorough":
        fm = gen.SMALL_THOROUGH + gen.REAL + [(5, 4), (6, 20), (7, 70), (9, 33), (13, 300)]
    over = lambda tag: ("o" in tag) or ("m" in tag)
    ctx.stream("threshold", gen.overflow_lines(rng, fm, tiers(ctx, 6, 40)), nontrivial=over)
    ctx.stream("scale-beyond-range", gen.scale_overflow_lines(rng, fm), nontrivial=over)
    ctx.stream("scale-extreme-k", gen.scale_extreme_k_lines(rng, [(2, 2), (3, 3), (5, 11), (8, 24), (11, 53), (15, 64), (19, 237)]), nontrivial=lambda t: True)
    # exhaustive small formats: all four operations (every result that overflows or is the largest finite)
    small = tiers(ctx, [(2, 2), (2, 3), (3, 3), (3, 4)], gen.SMALL_QUICK + [(4, 4)])
    ctx.stream("exh-small-arith", gen.exh_binary(["add", "sub", "mul", "div"], small, values=gen.finite_values), exhaustive=True, nontrivial=over)
    ctx.stream("exh-small-cast", gen.exh_cast(tiers(ctx, [(2, 2), (3, 3), (4, 3), (3, 4), (5, 4)], gen.SMALL_THOROUGH)), exhaustive=True, nontrivial=over)
    return done(ctx)


# --------------------------------------------------------------------------- C03
def c03(ctx):
    start(ctx)
    rng = random.Random(ctx.seed)
    fm = gen.SMALL_QUICK + gen.REAL
    sp = lambda tag: tag in ("c", "x0")
    ctx.stream("special-table", gen.special_lines(fm), exhaustive=True, nontrivial=sp)
    ctx.stream("cancel-real", gen.cancel_lines(rng, tiers(ctx, 3000, 60000)), nontrivial=sp)
    ctx.stream("mode-differs-from-format", gen.rm_mismatch_lines(rng, tiers(ctx, 6000, 80000), ops=("add", "sub")), nontrivial=sp)
    padded(ctx, rng, "cancel", gen.cancel_lines(rng, 6000) + gen.rm_mismatch_lines(rng, 3000, ops=("add", "sub"))[-3000:], 10 ** 9, nontrivial=sp)
    # every exactly cancelling pair of the small formats comes with the exhaustive enumeration
    small = tiers(ctx, [(2, 2), (2, 3), (3, 3), (3, 4)], gen.SMALL_QUICK + [(4, 4)])
    ctx.stream("exh-small-addsub", gen.exh_binary(["add", "sub"], small, values=gen.all_values), exhaustive=True, nontrivial=sp)
    ctx.stream("exh-small-muldiv", gen.exh_binary(["mul", "div"], small[:3], values=gen.all_values), exhaustive=True, nontrivial=sp)
    return done(ctx)


# --------------------------------------------------------------------------- C04
def c04(ctx):
    start(ctx)
    rng = random.Random(ctx.seed)
    n = tiers(ctx, 4000, 100000)
    lines = [gen.rand_prog(rng) for _ in range(n)]
    impl, mod = ctx.stream("dag", lines, spec_mode="prog", nontrivial=lambda t: True, chunk_timeout=600)
    # equality clause: == on pairs of results must be numeric equality (checked by the cmp line, which
    # prints `==` next to the spec's order) -- feed pairs of values produced by the programs back in
    pairs = []
    for im in impl[: tiers(ctx, 1500, 20000)]:
        vals = im.split("\t")[0].split()
        by = {}
        for v in vals:
            if "@" in v:
                t, s = v.split("@")
                if t.startswith("X"):
                    t = "X0" + t[1:]
                by.setdefault(s, []).append(t)
        for s, ts in by.items():
            for a in ts[:4]:
                for b in ts[:4]:
                    pairs.append("cmp %s %s %s" % (s, a, b))
    ctx.stream("eq-on-results", pairs, nontrivial=lambda t: True)
    small = tiers(ctx, [(3, 3)], [(3, 3), (3, 4), (4, 3)])
    ctx.stream("exh-small-eq", gen.exh_binary(["cmp"], small, modes=["E"], values=gen.all_values) and
               ["cmp %s %s %s" % (Sem(E, P, "E"), a, b) for (E, P) in small for a in gen.all_values(Sem(E, P)) for b in gen.all_values(Sem(E, P))],
               exhaustive=True, nontrivial=lambda t: True)
    return done(ctx)


# --------------------------------------------------------------------------- C05
def c05(ctx):
    start(ctx)
    rng = random.Random(ctx.seed)
    small = tiers(ctx, gen.SMALL_QUICK, gen.SMALL_THOROUGH)
    lines = ["cmp %s %s %s" % (Sem(E, P, "E"), a, b) for (E, P) in small for a in gen.all_values(Sem(E, P)) + ["X1:0:0"] for b in gen.all_values(Sem(E, P)) + ["X1:0:0"]]
    ctx.stream("exh-small-pairs", lines, exhaustive=True, nontrivial=lambda t: True)
    ctx.stream("real", gen.cmp_lines_real(rng, tiers(ctx, 20000, 300000)), nontrivial=lambda t: True)
    ctx.stream("word-prefix", gen.word_prefix_cmp_lines(rng, tiers(ctx, 4000, 60000)), nontrivial=lambda t: True)
    ctx.stream("produced-values", gen.progcmp_lines(rng, tiers(ctx, 6000, 60000)), nontrivial=lambda t: True)
    padded(ctx, rng, "real", gen.cmp_lines_real(rng, 6000) + gen.word_prefix_cmp_lines(rng, 3000), 10 ** 9, nontrivial=lambda t: True)
    return done(ctx)


# --------------------------------------------------------------------------- C06
def c06(ctx):
    start(ctx)
    rng = random.Random(ctx.seed)
    small = tiers(ctx, gen.SMALL_QUICK, gen.SMALL_THOROUGH)
    ctx.stream("exh-small", gen.exh_cast(small), exhaustive=True)
    ctx.stream("rand-real", gen.rand_cast(rng, tiers(ctx, 30000, 500000)))
    ctx.stream("underflow-boundary", gen.underflow_boundary_casts(rng, tiers(ctx, 8000, 100000)))
    padded(ctx, rng, "casts", gen.rand_cast(rng, 6000) + gen.underflow_boundary_casts(rng, 4000), 10 ** 9)
    # widening then narrowing is the identity (prog: lit, cast up, cast back; third register must equal the first)
    lines = []
    for _ in range(tiers(ctx, 3000, 50000)):
        E, P = gen.rand_format(rng)
        s = Sem(E, P, rng.choice(MODES))
        g = Sem(E + rng.randrange(0, 4), P + rng.randrange(0, 70), rng.choice(MODES))
        a = gen.rand_finite(rng, s) if rng.randrange(10) else rng.choice(gen.SPECIALS)
        lines.append("prog lit/%s/%s cast/%s/%s/0 cast/%s/%s/1" % (s, a, g, rng.choice(MODES), s, rng.choice(MODES)))
    impl, _ = ctx.stream("widen-narrow", lines, spec_mode="prog", nontrivial=lambda t: True)
    for ln, im in zip(lines, impl):
        v = im.split("\t")[0].split()
        if len(v) == 3 and v[0] != v[2]:
            ctx.fail("oracle", "widen-narrow", ln, im, "third value == first value", "widening followed by narrowing is not the identity")
    return done(ctx)


# --------------------------------------------------------------------------- C08
def c08(ctx):
    start(ctx, profiles=("release", "dbg"))
    rng = random.Random(ctx.seed)
    il = gen.int_lines(rng, tiers(ctx, 4000, 80000))
    ctx.stream("load", il)
    ctx.stream("load-dbg", il[:: tiers(ctx, 4, 2)], profile="dbg")
    small = tiers(ctx, gen.SMALL_QUICK + [(5, 4), (7, 3)], gen.SMALL_THOROUGH + [(5, 4), (7, 3), (7, 5)])
    tl = gen.exh_unary(["toi64"], small)
    ctx.stream("toi64-exh-small", tl, exhaustive=True, nontrivial=lambda t: t in ("frac", "big"))
    tr = gen.toi64_lines_real(rng, tiers(ctx, 20000, 300000))
    ctx.stream("toi64-real", tr, nontrivial=lambda t: t in ("frac", "big"))
    ctx.stream("toi64-dbg", tr[::4] + tl[::4], profile="dbg", nontrivial=lambda t: t in ("frac", "big"))
    padded(ctx, rng, "toi64-and-loads", tr[:6000] + [l for l in il if l.startswith("frombig")], 10 ** 9, nontrivial=lambda t: t in ("frac", "big"))
    return done(ctx)


# --------------------------------------------------------------------------- C10
def c10(ctx):
    start(ctx)
    rng = random.Random(ctx.seed)
    small = tiers(ctx, [(2, 2), (2, 3), (3, 2), (3, 3), (3, 4), (4, 3)], gen.SMALL_THOROUGH)
    ctx.stream("trunc-round-exh", gen.exh_unary(["trunc", "round", "abs", "neg"], small, modes=["E", "Z", "P"]), exhaustive=True)
    ctx.stream("scale-exh", gen.scale_lines_exh(tiers(ctx, [(2, 2), (2, 3), (3, 3), (3, 4)], gen.SMALL_QUICK + [(4, 4)])), exhaustive=True)
    ctx.stream("scale-real", gen.scale_lines_real(rng, tiers(ctx, 20000, 300000)))
    ctx.stream("scale-beyond-range", gen.scale_overflow_lines(rng, gen.SMALL_QUICK + gen.REAL))
    ctx.stream("scale-extreme-k", gen.scale_extreme_k_lines(rng, [(2, 2), (3, 3), (5, 11), (8, 24), (11, 53), (15, 64), (19, 237), (20, 70)]), nontrivial=lambda t: True)
    ctx.stream("trunc-round-real", gen.truncround_real(rng, tiers(ctx, 20000, 300000)))
    padded(ctx, rng, "trunc-round-scale", gen.truncround_real(rng, 5000) + gen.scale_lines_real(rng, 5000), 10 ** 9)
    return done(ctx)


# --------------------------------------------------------------------------- C11
def c11(ctx):
    start(ctx)
    rng = random.Random(ctx.seed)
    small = tiers(ctx, [(2, 2), (2, 3), (3, 2), (3, 3), (3, 4), (4, 3)], gen.SMALL_THOROUGH)
    lines = ["rem %s %s %s" % (Sem(E, P, m), a, b) for (E, P) in small for m in ["E", "Z"]
             for a in gen.all_values(Sem(E, P)) for b in gen.all_values(Sem(E, P))]
    ctx.stream("exh-small", lines, exhaustive=True, chunk_timeout=600)
    ctx.stream("real", gen.rem_real(rng, tiers(ctx, 5000, 100000)), chunk_timeout=600, per_line_timeout=10)
    ctx.stream("minimum-exponent-multiword", gen.rem_min_exponent_lines(rng, tiers(ctx, 6000, 60000)), chunk_timeout=600, per_line_timeout=10)
    padded(ctx, rng, "rem", gen.rem_real(rng, 3000) + gen.rem_min_exponent_lines(rng, 3000), 10 ** 9, chunk_timeout=600, per_line_timeout=10)
    return done(ctx)


# --------------------------------------------------------------------------- C12
def _sqrt_judge(line, answer):
    t = line.split()
    if t[0] != "sqrt" or "@" not in answer:
        return None
    tok = answer.split("@")[0]
    if tok.startswith("X:"):
        tok = "X0:" + tok[2:]
    return "jsqrt %s %s %s" % (t[1], t[2], tok)


def c12(ctx):
    start(ctx)
    rng = random.Random(ctx.seed)
    small = tiers(ctx, gen.SMALL_QUICK, gen.SMALL_THOROUGH)
    ctx.stream("exh-small", gen.exh_unary(["sqrt"], small), spec_mode="ok", exhaustive=True, nontrivial=lambda t: t == "n", judge=_sqrt_judge)
    ctx.stream("real", gen.sqrt_real(rng, tiers(ctx, 4000, 60000)), spec_mode="ok", nontrivial=lambda t: t == "n", chunk_timeout=600, judge=_sqrt_judge)
    ctx.stream("wide-and-word-filling", gen.sqrt_wide_lines(rng, tiers(ctx, 25, 250)), spec_mode="ok", nontrivial=lambda t: t == "n", chunk_timeout=900, per_line_timeout=30, judge=_sqrt_judge, chunk_lines=40)
    return done(ctx)


# --------------------------------------------------------------------------- C07
def c07(ctx):
    start(ctx)
    rng = random.Random(ctx.seed)
    n = tiers(ctx, 6000, 120000)
    l32 = ["f32 %d" % p for p in gen.f32_patterns(rng, n)]
    l64 = ["f64 %d" % p for p in gen.f64_patterns(rng, n)]
    i32, _ = ctx.stream("load-store-f32", l32, nontrivial=lambda t: True)
    i64, _ = ctx.stream("load-store-f64", l64, nontrivial=lambda t: True)
    # direct oracle: storing back returns the identical bit pattern for every non-NaN value
    for ln, im in zip(l32, i32):
        b = int(ln.split()[1])
        parts = im.split()
        isnan = (b & 0x7f800000) == 0x7f800000 and (b & 0x7fffff) != 0
        if len(parts) == 2 and not isnan and int(parts[1]) != b:
            ctx.fail("oracle", "load-store-f32", ln, im, str(b), "f32 load/store round trip")
        if len(parts) == 2 and isnan and not parts[0].startswith("X"):
            ctx.fail("oracle", "load-store-f32", ln, im, "NaN", "NaN must load as NaN")
    for ln, im in zip(l64, i64):
        b = int(ln.split()[1])
        parts = im.split()
        isnan = (b & 0x7ff0000000000000) == 0x7ff0000000000000 and (b & 0xfffffffffffff) != 0
        if len(parts) == 3 and not isnan and int(parts[1]) != b:
            ctx.fail("oracle", "load-store-f64", ln, im, str(b), "f64 load/store round trip")
    ctx.stream("native-special-pairs", gen.nat_special_pairs(), spec_mode="native", exhaustive=True, nontrivial=lambda t: True, chunk_timeout=900)
    ctx.stream("native-ops", gen.nat_lines(rng, tiers(ctx, 8000, 150000)), spec_mode="native", nontrivial=lambda t: True, chunk_timeout=900)
    ctx.stream("native-f64-to-f32", ["nat64 tof32 %d 0" % p for p in gen.f64_patterns(rng, n)], spec_mode="native", nontrivial=lambda t: True)
    # hardware side, swept inside the harness (no model involved): f32 patterns through load/store, f64->f32, trunc, round,
    # the four operations and the comparisons with rotating fixed partners; every pattern in the thorough tier
    thorough = ctx.tier == "thorough"
    stride = 1 if thorough else 251
    nchunk = 256
    step = (2 ** 32 + nchunk - 1) // nchunk
    sw = ["f32sweep %d %d %d" % (lo + (lo * 7) % stride, min(2 ** 32, lo + step), stride) for lo in range(0, 2 ** 32, step)]
    ans = run.run_lines(run.harness_bin(), sw, "sweep-C07", chunk_timeout=3600 if thorough else 300, per_line_timeout=600 if thorough else 60, chunk_lines=16)
    st = ctx.streams.setdefault("f32-sweep", {"lines": 0, "disagree": 0, "oracle_fail": 0, "profile": "release"})
    swept = 0
    for ln, a in zip(sw, ans):
        if a.startswith("ok "):
            swept += int(a.split()[1])
        else:
            ctx.fail("oracle", "f32-sweep", ln, a, "native f32 result", "the crate's FP32 result differs from the host's native operation")
    st["lines"] += swept
    ctx.evals += swept
    if stride == 1:
        ctx.exhaustive.append("f32-sweep")
    ctx.notes.append("f32 sweep: %d patterns (stride %d) x load/store, f64->f32, trunc, round, + - * / and comparisons against native" % (swept, stride))
    ctx.assumptions.append("that the host CPU implements IEEE-754 binary32/binary64 is validated by this run (native results are compared), not proved")
    return done(ctx)


# --------------------------------------------------------------------------- C09
def c09(ctx):
    start(ctx, profiles=("release", "dbg"))
    rng = random.Random(ctx.seed)
    lines = gen.big_lines(rng, tiers(ctx, 12000, 150000), maxlen=tiers(ctx, 12, 40), karatsuba=tiers(ctx, 60, 1500))
    ctx.stream("big-ops", lines, nontrivial=lambda t: True, chunk_timeout=900)
    ctx.stream("big-ops-dbg", lines[:: tiers(ctx, 6, 3)], profile="dbg", nontrivial=lambda t: True, chunk_timeout=900)
    # long operands: hundreds of words
    big = []
    for _ in range(tiers(ctx, 60, 1200)):
        la, lb = rng.randrange(1, 300), rng.randrange(1, 300)
        av = sum(w << (64 * i) for i, w in enumerate(gen.rand_limbs(rng, la)))
        bv = sum(w << (64 * i) for i, w in enumerate(gen.rand_limbs(rng, lb)))
        op = rng.choice(["add", "sub", "mul", "div", "cmp", "dec"])
        if op == "div" and bv == 0:
            continue
        if op == "dec":
            # (as_decimal does one long division per digit: keep the limb model's run time bounded)
            la = min(la, 24)
            av &= (1 << (64 * la)) - 1
            big.append("big dec %x/%d" % (av, la))
        else:
            big.append("big %s %x/%d %x/%d" % (op, av, la, bv, lb))
    ctx.stream("big-long", big, nontrivial=lambda t: True, chunk_timeout=900)
    ctx.stream("cmp-common-prefix", gen.big_prefix_cmp_lines(rng, tiers(ctx, 3000, 40000)), nontrivial=lambda t: True)
    return done(ctx)


# --------------------------------------------------------------------------- C13
def c13(ctx):
    from . import oracle
    start(ctx)
    rng = random.Random(ctx.seed)
    small = tiers(ctx, gen.SMALL_QUICK, gen.SMALL_THOROUGH)
    l1 = ["disp %s %s" % (Sem(E, P), a) for (E, P) in small for a in gen.all_values(Sem(E, P)) + ["X1:0:0"]]
    l2 = gen.disp_lines_real(rng, tiers(ctx, 3000, 40000))
    # integers of thousands of words (formats with 20 exponent bits): the digit budgets of the recursive extraction are
    # only tight for word counts no other stream reaches; one value per word count, spread over 5800..8190 words
    l3 = []
    for _ in range(tiers(ctx, 64, 320)):
        E, P = rng.choice([(20, 64), (20, 24), (20, 70)])
        s = Sem(E, P, "E")
        words = rng.randrange(5800, 8191)
        # mostly values whose leading bit is the top bit of their top word: the left-over of the first split is largest there
        e = min(s.emax, 64 * words - rng.choice([1, 1, 1, 1, 2, 3, rng.randrange(1, 64)]))
        l3.append("disp %s %s" % (s, ftok("N", rng.randrange(2), e, rng.choice([2 ** (P - 1), 2 ** P - 1, gen.rand_mant(rng, P)]))))
    l4 = gen.pad_lines(rng, gen.disp_lines_real(rng, 1500) + [l for l in l1 if ":N" in l or " N" in l][::7])
    for name, lines, exh in (("exh-small", l1, True), ("real-wide", l2, False), ("huge-integers", l3, False), ("padded-significands", l4, False)):
        impl, _ = ctx.stream(name, lines, exhaustive=exh, nontrivial=lambda t: t in ("frac", "int"), chunk_timeout=900, per_line_timeout=60.0,
                             chunk_lines=2 if name == "huge-integers" else 500)
        for ln, im in zip(lines, impl):
            if im in ("PANIC", "ABORT", "HANG"):
                continue
            _, st, tok = ln.split()
            E, P, M = st.split(",")
            why = oracle.check_display(Sem(int(E), int(P), M), tok, im)
            if why:
                ctx.fail("oracle", name, ln, im, "-", why)
    return done(ctx)


# --------------------------------------------------------------------------- C14
def c14(ctx):
    from . import oracle
    start(ctx, profiles=("release", "dbg"))
    rng = random.Random(ctx.seed)
    lines = gen.parse_lines(rng, tiers(ctx, 6000, 120000))
    impl, _ = ctx.stream("grammar+malformed", lines, nontrivial=lambda t: True, chunk_timeout=900)
    ctx.stream("dbg", lines[:: tiers(ctx, 3, 2)], profile="dbg", nontrivial=lambda t: True, chunk_timeout=900)
    kinds = {"err": 0, "ok": 0}
    for ln, im in zip(lines, impl):
        if im in ("PANIC", "ABORT", "HANG"):
            continue
        # (an error answer carries the message of `Display for ParseError`; the model must name the same kind)
        kinds[im if im.startswith("err") else "ok"] = kinds.get(im if im.startswith("err") else "ok", 0) + 1
        _, st, hx = ln.split()
        E, P, M = st.split(",")
        raw = b"" if hx == "-" else bytes.fromhex(hx)
        why = oracle.check_parse(Sem(int(E), int(P), M), raw, "err" if im.startswith("err ") else im)
        if why:
            ctx.fail("oracle", "grammar+malformed", ln, im, "-", why + " (input %r)" % raw)
    ctx.notes.append("input distribution: %s" % kinds)
    return done(ctx)


def _sem_of(st):
    E, P, M = st.split(",")
    return Sem(int(E), int(P), M)


# --------------------------------------------------------------------------- C15
def c15(ctx):
    from . import oracle
    start(ctx)
    fm = tiers(ctx, gen.TRANS_FMTS_Q + [(12, 300)], gen.TRANS_FMTS_T)
    lines = corpus_lines("C15", {"const"}) + ["const %s %s" % (c, Sem(E, P, m)) for (E, P) in fm for m in MODES for c in ("pi", "e", "ln2")]
    # every precision of a range (the AGM loop of pi gets stuck at scattered precisions only), two modes each, the narrowest exponent width of the domain
    for P in range(8, tiers(ctx, 300, 1030)):
        E = next(e for e in range(2, 30) if P <= 2 ** (e - 1) - 2)
        for m in {MODES[P % 6], "A"}:
            for c in ("pi", "e", "ln2"):
                lines.append("const %s %s" % (c, Sem(E, P, m)))
    impl, _ = ctx.stream("constants", lines, nontrivial=lambda t: True, chunk_timeout=tiers(ctx, 180, 1200), per_line_timeout=tiers(ctx, 20, 120))
    for ln, im in zip(lines, impl):
        _, c, st = ln.split()
        why = oracle.check_const(c, _sem_of(st), im)
        if why:
            ctx.fail("oracle", "constants", ln, im, "-", why)
    ctx.assumptions.append("accuracy: ln2 and e are theorems for every format of the domain (ln2_accuracy, e_accuracy), pi at eight standard formats (pi_ulp_*); pi at the other formats is searched with mpmath at 4x precision on every run (no universal theorem); this run additionally re-judges every constant of the pool with mpmath")
    return done(ctx)


def _fn_check(ctx, names, stream, extra=()):
    from . import oracle
    rng = random.Random(ctx.seed)
    fm = tiers(ctx, gen.TRANS_FMTS_Q, gen.TRANS_FMTS_T)
    lines = corpus_lines(ctx.pid, {"fn"}) + list(extra) + gen.fn_lines(rng, names, fm, tiers(ctx, 6, 40))
    impl, _ = ctx.stream(stream, lines, nontrivial=lambda t: t == "n", chunk_timeout=tiers(ctx, 400, 1800), per_line_timeout=tiers(ctx, 20, 120))
    for ln, im in zip(lines, impl):
        _, name, st, tok = ln.split()
        why = oracle.check_fn(name, _sem_of(st), tok, im)
        if why:
            ctx.fail("oracle", stream, ln, im, "-", why)
    return lines, impl


# --------------------------------------------------------------------------- C16
def c16(ctx):
    start(ctx)
    rng = random.Random(ctx.seed + 1)
    fm = tiers(ctx, gen.TRANS_FMTS_Q, gen.TRANS_FMTS_T)
    extra = gen.exp_threshold_lines(rng, fm) + gen.log_near_one_lines(rng, fm, tiers(ctx, 12, 60)) + gen.exp_narrow_wide_lines(rng, tiers(ctx, 40, 400)) + gen.exp_top_binade_lines(tiers(ctx, [11, 12, 13], [9, 10, 11, 12, 13, 14, 15, 16])) + gen.sigmoid_negative_lines(rng, tiers(ctx, 3000, 30000))
    _fn_check(ctx, ["exp", "log", "sigmoid"], "exp-log-sigmoid", extra)
    ctx.assumptions.append("accuracy: exp, log, sigmoid are theorems for p >= 8 (exp_accuracy/exp_total, log_accuracy, sigmoid_accuracy; side conditions in unproven_clauses); this run additionally judges every answer of the pool with mpmath at 4x precision, which is the only judge for p < 8 and for the sigmoid edge formats")
    return done(ctx)


# --------------------------------------------------------------------------- C17
def c17(ctx):
    from . import oracle
    start(ctx)
    rng2 = random.Random(ctx.seed + 2)
    extra = gen.trig_multiple_lines(rng2, tiers(ctx, [(5, 11), (8, 24), (11, 53)], [(5, 11), (8, 8), (8, 24), (11, 53), (15, 113), (10, 120)]))
    lines, impl = _fn_check(ctx, ["sin", "cos", "tan"], "sin-cos-tan", extra)
    # exact symmetry: f(-x) against f(x)
    sym = []
    for ln in lines:
        _, name, st, tok = ln.split()
        if tok.startswith("N0") and st.split(",")[2] in ("E", "A"):
            sym.append("fn %s %s N1%s" % (name, st, tok[2:]))
    sym = sym[: tiers(ctx, 6000, 60000)]
    pos = {ln: im for ln, im in zip(lines, impl)}
    si, _ = ctx.stream("symmetry", sym, nontrivial=lambda t: True, chunk_timeout=1800, per_line_timeout=tiers(ctx, 20, 120))
    for ln, im in zip(sym, si):
        _, name, st, tok = ln.split()
        p = pos.get("fn %s %s N0%s" % (name, st, tok[2:]))
        if p and p not in ("PANIC", "ABORT", "HANG") and im not in ("PANIC", "ABORT", "HANG"):
            why = oracle.check_symmetry(name, p, im)
            if why:
                ctx.fail("oracle", "symmetry", ln, im, p, why)
    if ctx.tier == "thorough":
        # all FP16 values (the property's exhaustive clause), nearest-even
        s = Sem(5, 11, "E")
        vals = gen.all_values(s)
        ex = ["fn %s %s %s" % (nm, s, a) for nm in ("sin", "cos", "tan") for a in vals]
        ei, _ = ctx.stream("fp16-exhaustive", ex, exhaustive=True, nontrivial=lambda t: t == "n", chunk_timeout=3600, per_line_timeout=60)
        res = {}
        for ln, im in zip(ex, ei):
            _, name, st, tok = ln.split()
            res[(name, tok)] = im
            why = oracle.check_fn(name, s, tok, im)
            if why:
                ctx.fail("oracle", "fp16-exhaustive", ln, im, "-", why)
        for (name, tok), im in res.items():   # exact symmetry over every FP16 value
            if tok.startswith("N0"):
                other = res.get((name, "N1" + tok[2:]))
                if other and im not in ("PANIC", "ABORT", "HANG") and other not in ("PANIC", "ABORT", "HANG"):
                    why = oracle.check_symmetry(name, im, other)
                    if why:
                        ctx.fail("oracle", "fp16-exhaustive", "fn %s %s N1%s" % (name, s, tok[2:]), other, im, why)
    ctx.assumptions.append("accuracy: theorems for |x| < 1 (every format of the domain) and for 1 <= |x| <= 128 at the standard formats / conditionally on the computed pi elsewhere (see unproven_clauses); this run additionally judges every answer of the pool with mpmath at 4x precision, which is the only judge where no theorem applies")
    return done(ctx)


# --------------------------------------------------------------------------- C18
def c18(ctx):
    from . import oracle
    start(ctx)
    rng = random.Random(ctx.seed)
    fm = tiers(ctx, gen.TRANS_FMTS_Q, gen.TRANS_FMTS_T)
    lines = corpus_lines("C18", {"pow", "powi"}) + gen.pow_lines(rng, fm, tiers(ctx, 8, 50)) + gen.pow_large_lines(rng, fm + [(11, 24), (12, 30)], tiers(ctx, 60, 600))
    lines += gen.powi_guard_lines(rng, tiers(ctx, 40, 400))
    wide = gen.pow_wide_exponent_lines(rng, 1) if ctx.tier == "thorough" else []   # (minutes per line in the model: thorough tier only)
    wi, _ = ctx.stream("pow-wide-exponent", wide, nontrivial=lambda t: t in ("n", "-"), chunk_timeout=tiers(ctx, 600, 1800), per_line_timeout=tiers(ctx, 60, 240), chunk_lines=1)
    for ln, im in zip(wide, wi):
        t = ln.split()
        why = oracle.check_pow(_sem_of(t[1]), t[2], t[3], im)
        if why:
            ctx.fail("oracle", "pow-wide-exponent", ln, im, "-", why)
    impl, _ = ctx.stream("pow-powi", lines, nontrivial=lambda t: t in ("n", "-"), chunk_timeout=tiers(ctx, 600, 1800), per_line_timeout=tiers(ctx, 20, 120))
    for ln, im in zip(lines, impl):
        t = ln.split()
        if t[0] == "pow":
            why = oracle.check_pow(_sem_of(t[1]), t[2], t[3], im)
        else:
            why = oracle.check_powi(_sem_of(t[1]), int(t[2]), t[3], im)
        if why:
            ctx.fail("oracle", "pow-powi", ln, im, "-", why)
    ctx.assumptions.append("accuracy: powi_within and pow_accuracy are theorems (side conditions in unproven_clauses); this run additionally judges powi against the exact rational power and pow with mpmath at 4x precision")
    return done(ctx)


# --------------------------------------------------------------------------- C19
def c19(ctx):
    """totality: every public operation x extreme values x wide-exponent formats x modes x both build profiles"""
    start(ctx, profiles=("release", "dbg"))
    rng = random.Random(ctx.seed)
    # the last five: precision far beyond the exponent range (p > 2^(E-1)), where reciprocals and squares of subnormals leave a range widened by a few bits only
    fm = tiers(ctx, [(5, 11), (8, 24), (11, 53), (15, 64), (19, 237), (20, 30), (3, 3), (2, 2), (5, 30), (4, 20), (7, 100), (3, 12), (2, 9)],
               [(5, 11), (8, 8), (8, 24), (11, 53), (15, 64), (15, 113), (19, 237), (20, 30), (20, 64), (3, 3), (2, 2), (2, 3), (12, 300), (5, 30), (4, 20), (7, 100), (3, 12), (2, 9), (6, 70), (4, 64)])
    lines = []
    for (E, P) in fm:
        for m in MODES:
            s = Sem(E, P, m)
            ext = [ftok("N", 0, s.emax, 2 ** P - 1), ftok("N", 1, s.emax, 2 ** P - 1), ftok("N", 0, s.emin, 1), ftok("N", 1, s.emin, 1),
                   ftok("N", 0, s.emin, 2 ** (P - 1)), ftok("N", 0, 0, 2 ** (P - 1)), ftok("N", 1, 0, 2 ** (P - 1) + 1), ftok("N", 0, s.emax, 2 ** (P - 1)),
                   ftok("N", 0, min(s.emax, 63), 2 ** (P - 1)), ftok("N", 0, min(s.emax, 64), 2 ** P - 1), ftok("N", 0, min(s.emax, P), 2 ** P - 1)] + gen.SPECIALS
            for a in ext:
                for op in ("trunc", "round", "abs", "neg", "sqrt", "toi64", "disp", "canon"):
                    lines.append("%s %s %s" % (op, s, a))
                for fn in ("exp", "log", "sigmoid", "sin", "cos", "tan", "sqr"):
                    lines.append("fn %s %s %s" % (fn, s, a))
                lines.append("powi %s %d %s" % (s, rng.choice([0, 1, 2, 3, 2 ** 63, 2 ** 64 - 1]), a))
                lines.append("frac %s %d %s" % (s, rng.choice([0, 1, 2, 5, 16]), a))
                lines.append("scale %s %s %d %s" % (s, m, rng.choice([2 ** 40 - 1, -(2 ** 40 - 1), s.emax - s.emin, s.emin - s.emax]), a))
                lines.append("scale %s %s %d %s" % (s, m, rng.choice([2 ** 63 - 1, -2 ** 63, 2 ** 63 - 2, -2 ** 63 + 1, 2 ** 62, -2 ** 62]), a))
                for (E2, P2) in [(2, 2), (20, 64), (E, P + 1)]:
                    lines.append("cast %s %s %s %s" % (s, Sem(E2, P2, "E"), m, a))
                for b in ext[:6] + gen.SPECIALS[:3]:
                    for op in ("add", "sub", "mul", "div"):
                        lines.append("%s %s %s %s %s" % (op, s, m, a, b))
                    lines.append("rem %s %s %s" % (s, a, b))
                    lines.append("cmp %s %s %s" % (s, a, b))
                    if rng.randrange(4) == 0:
                        lines.append("pow %s %s %s" % (s, a, b))
            for c in ("pi", "e", "ln2"):
                lines.append("const %s %s" % (c, s))
            for v in (0, 1, 2 ** 63, 2 ** 64 - 1):
                lines.append("fromu64 %s %d" % (s, v))
            for v in (0, -1, -2 ** 63, 2 ** 63 - 1):
                lines.append("fromi64 %s %d" % (s, v))
            lines.append("frombig %s %x" % (s, 2 ** 300 - 1))
    rng.shuffle(lines)
    if ctx.tier == "quick":
        lines = lines[:14000]
    tmo = tiers(ctx, 20.0, 60.0)   # (printing the largest value of a 20-exponent-bit format legitimately takes seconds; a hang is unbounded)
    wide = gen.wide_exponent_prog_lines(rng, tiers(ctx, 40, 400))
    ctx.stream("wide-exponent-core-release", wide, spec_mode="prog", nontrivial=lambda t: True)
    ctx.stream("wide-exponent-core-dbg", wide, spec_mode="prog", profile="dbg", nontrivial=lambda t: True)
    # (a chunk that is still running after chunk_timeout is killed and its unanswered lines are re-run one by one under per_line_timeout)
    pl = gen.pad_lines(rng, lines[:: tiers(ctx, 6, 3)])
    # integer-valued operands whose significand carries many leading zero words, through every unary consumer
    for (E, P) in [(11, 53), (15, 113), (19, 237), (8, 24), (12, 70), (15, 64)]:
        for m in ("E", "Z"):
            s = Sem(E, P, m)
            for e in (P - 1, P, P + 2, P + 70, 0, 5):
                for mant in (2 ** (P - 1) + 12345 % (2 ** (P - 1)), 2 ** P - 1, 2 ** (P - 1)):
                    if e > s.emax:
                        continue
                    tok = "%s~%d" % (ftok("N", rng.randrange(2), e, mant), (P + 63) // 64 + rng.choice([5, 6, 10, 11, 17]))
                    for op in ("disp", "toi64", "trunc", "round", "sqrt", "abs"):
                        pl.append("%s %s %s" % (op, s, tok))
                    pl.append("frac %s %d %s" % (s, rng.choice([1, 3]), tok))
            pl.append("frombig %s %x~%d" % (s, 2 ** 52 + 12345, rng.choice([7, 11, 12])))
    # glue around the core: Display for Semantics, RoundingMode::as_string, get_decimal_accuracy, BigInt::pseudorandom (the LFSR), BigInt::default
    ml = gen.misc_lines(rng, tiers(ctx, 400, 4000))
    ctx.stream("misc-glue-release", ml, nontrivial=lambda t: True)
    ctx.stream("misc-glue-dbg", ml, profile="dbg", nontrivial=lambda t: True)
    ctx.stream("padded-release", pl, spec_mode="total", nontrivial=lambda t: True, chunk_timeout=tiers(ctx, 400, 900), per_line_timeout=tiers(ctx, 20.0, 60.0))
    ctx.stream("padded-dbg", pl, spec_mode="total", profile="dbg", nontrivial=lambda t: True, chunk_timeout=tiers(ctx, 800, 1800), per_line_timeout=tiers(ctx, 40.0, 120.0))
    ctx.stream("extremes-release", lines, spec_mode="total", nontrivial=lambda t: True, chunk_timeout=tiers(ctx, 400, 900), per_line_timeout=tmo)
    ctx.stream("extremes-dbg", lines, spec_mode="total", profile="dbg", nontrivial=lambda t: True, chunk_timeout=tiers(ctx, 800, 1800), per_line_timeout=tmo * 2)
    ctx.assumptions.append("stack exhaustion, allocation failure and wall-clock time are runtime behaviour the model cannot exhibit: they are observed by the supervised harness (ABORT/HANG attributed to single lines); the fuel/termination theorems cover the logic")
    return done(ctx)


# --------------------------------------------------------------------------- C20
def c20(ctx):
    from . import oracle
    start(ctx)
    rng = random.Random(ctx.seed)
    lines = corpus_lines("C20", {"frac"}) + gen.frac_lines(rng, tiers(ctx, 4000, 60000)) + gen.frac_structured_lines(rng, tiers(ctx, 4000, 60000))
    small = [(3, 3), (3, 4), (4, 3)]
    lines += ["frac %s %d %s" % (Sem(E, P), n, a) for (E, P) in small for n in range(0, 7) for a in gen.all_values(Sem(E, P))]
    impl, _ = ctx.stream("as-fraction", lines, nontrivial=lambda t: t == "n", chunk_timeout=900)
    for ln, im in zip(lines, impl):
        _, st, n, tok = ln.split()
        why = oracle.check_frac(_sem_of(st), int(n), tok, im)
        if why:
            ctx.fail("oracle", "as-fraction", ln, im, "-", why)
    return done(ctx)


PROPS = {"C01": c01, "C02": c02, "C03": c03, "C04": c04, "C05": c05, "C06": c06, "C07": c07, "C08": c08, "C09": c09, "C10": c10,
         "C11": c11, "C12": c12, "C13": c13, "C14": c14, "C15": c15, "C16": c16, "C17": c17, "C18": c18, "C19": c19, "C20": c20}


def replay(ctx, path):
    d = json.load(open(path))
    ctx.build(["Arp.Props." + ctx.pid])
    lines = [c["line"] for c in d.get("cases", [])]
    eq = [l for l in lines if l.split()[0] not in OK_OPS]
    ok = [l for l in lines if l.split()[0] in OK_OPS]
    ctx.stream("replay", eq)
    ctx.stream("replay-ok", ok, spec_mode="ok")
    for f in ctx.failures + ctx.disagreements:
        print(json.dumps(f.to_json()))
    return 1 if (ctx.failures or ctx.disagreements or ctx.broken) else 0
