"""Per-property check definitions."""
import json
import os
import random

from . import engine, gen, run
from .gen import MODES, Sem, ftok

OBL = json.load(open(os.path.join(run.LEAN, "obligations.json")))


def tiers(ctx, q, t):
    return t if ctx.tier == "thorough" else q


def start(ctx, profiles=("release",)):
    pid = ctx.pid
    ctx.build(["Arp.Props." + pid], profiles)
    if not any(b["what"].startswith("lake build") for b in ctx.broken):
        ctx.audit("Arp.Props." + pid, "Arp." + pid, OBL.get(pid, {}).get("theorems", []))
    if ctx.tier == "thorough":
        import subprocess
        p = subprocess.run(["lake", "env", "leanchecker", "Arp.Props." + pid], cwd=run.LEAN, capture_output=True, text=True)
        if p.returncode != 0:
            ctx.broken.append({"what": "leanchecker rejected Arp.Props." + pid, "log": (p.stdout + p.stderr)[-2000:]})
        else:
            ctx.notes.append("leanchecker Arp.Props.%s: accepted" % pid)
    corpus(ctx)


def corpus(ctx):
    """minimised past disagreements / finding witnesses: always run first"""
    p = os.path.join(run.VERIF, "corpus", ctx.pid + ".txt")
    if os.path.exists(p):
        lines = [l.strip() for l in open(p) if l.strip() and not l.startswith("#")]
        eq = [l for l in lines if not l.split()[0] in OK_OPS]
        ok = [l for l in lines if l.split()[0] in OK_OPS]
        ctx.stream("corpus", eq)
        ctx.stream("corpus-ok", ok, spec_mode="ok")


OK_OPS = {"sqrt"}


def done(ctx):
    o = OBL.get(ctx.pid, {})
    return ctx.finish(unproven=o.get("unproven_clauses", []), full_strength=o.get("full_strength", False))


# --------------------------------------------------------------------------- C01
def c01(ctx):
    start(ctx)
    rng = random.Random(ctx.seed)
    ops = ["add", "sub", "mul", "div"]
    small = tiers(ctx, gen.SMALL_QUICK, gen.SMALL_THOROUGH)
    ctx.stream("exh-small", gen.exh_binary(ops, small), exhaustive=True)
    n = tiers(ctx, 20000, 400000)
    ctx.stream("rand-real", gen.rand_binary(rng, ops, n))
    ctx.stream("ties", gen.tie_products(rng, n // 8))
    # operator spellings (glue): every spelling must equal *_with_rm(sem.mode)
    lines = []
    for _ in range(tiers(ctx, 3000, 30000)):
        E, P = gen.rand_format(rng)
        s = Sem(E, P, rng.choice(MODES))
        a, b = gen.rand_pair(rng, s)
        lines.append("oper %s %s %s %s" % (rng.choice(ops), s, a, b))
    for (E, P) in [(3, 3), (4, 3)]:
        for m in MODES:
            s = Sem(E, P, m)
            vals = gen.finite_and_zero(s)
            for op in ops:
                for a in vals[::3]:
                    for b in vals[::5]:
                        lines.append("oper %s %s %s %s" % (op, s, a, b))
    ctx.stream("operators", lines)
    lines = []
    for _ in range(tiers(ctx, 2000, 20000)):
        E, P = gen.rand_format(rng)
        s = Sem(E, P, rng.choice(MODES))
        a = gen.rand_finite(rng, s)
        n64 = rng.choice([0, 1, 2, 3, 10, 2 ** 63, 2 ** 64 - 1, rng.randrange(2 ** 64), rng.randrange(2 ** 20), 2 ** rng.randrange(64)])
        lines.append("operu %s %s %s %d" % (rng.choice(ops), s, a, n64))
    ctx.stream("operators-u64", lines)
    return done(ctx)


# --------------------------------------------------------------------------- C02
def c02(ctx):
    start(ctx)
    rng = random.Random(ctx.seed)
    fm = gen.SMALL_QUICK + gen.REAL + [(5, 4), (6, 20)]
    if ctx.tier == "thorough":
        fm = gen.SMALL_THOROUGH + gen.REAL + [(5, 4), (6, 20), (7, 70), (9, 33), (13, 300)]
    over = lambda tag: ("o" in tag) or ("m" in tag)
    ctx.stream("threshold", gen.overflow_lines(rng, fm, tiers(ctx, 6, 40)), nontrivial=over)
    # exhaustive small formats: all four operations (every result that overflows or is the largest finite)
    small = tiers(ctx, [(2, 2), (2, 3), (3, 3), (3, 4)], gen.SMALL_QUICK + [(4, 4)])
    ctx.stream("exh-small-arith", gen.exh_binary(["add", "sub", "mul", "div"], small, values=gen.finite_values), exhaustive=True, nontrivial=over)
    ctx.stream("exh-small-cast", gen.exh_cast(tiers(ctx, [(2, 2), (3, 3), (4, 3), (3, 4), (5, 4)], gen.SMALL_THOROUGH)), exhaustive=True, nontrivial=over)
    return done(ctx)


# --------------------------------------------------------------------------- C03
def c03(ctx):
    start(ctx)
    rng = random.Random(ctx.seed)
    fm = gen.SMALL_QUICK + gen.REAL
    sp = lambda tag: tag in ("c", "x0")
    ctx.stream("special-table", gen.special_lines(fm), exhaustive=True, nontrivial=sp)
    ctx.stream("cancel-real", gen.cancel_lines(rng, tiers(ctx, 3000, 60000)), nontrivial=sp)
    # every exactly cancelling pair of the small formats comes with the exhaustive enumeration
    small = tiers(ctx, [(2, 2), (2, 3), (3, 3), (3, 4)], gen.SMALL_QUICK + [(4, 4)])
    ctx.stream("exh-small-addsub", gen.exh_binary(["add", "sub"], small, values=gen.all_values), exhaustive=True, nontrivial=sp)
    ctx.stream("exh-small-muldiv", gen.exh_binary(["mul", "div"], small[:3], values=gen.all_values), exhaustive=True, nontrivial=sp)
    return done(ctx)


# --------------------------------------------------------------------------- C04
def c04(ctx):
    start(ctx)
    rng = random.Random(ctx.seed)
    n = tiers(ctx, 4000, 100000)
    lines = [gen.rand_prog(rng) for _ in range(n)]
    impl, mod = ctx.stream("dag", lines, spec_mode="prog", nontrivial=lambda t: True, chunk_timeout=600)
    # equality clause: == on pairs of results must be numeric equality (checked by the cmp line, which
    # prints `==` next to the spec's order) -- feed pairs of values produced by the programs back in
    pairs = []
    for im in impl[: tiers(ctx, 1500, 20000)]:
        vals = im.split("\t")[0].split()
        by = {}
        for v in vals:
            if "@" in v:
                t, s = v.split("@")
                if t.startswith("X"):
                    t = "X0" + t[1:]
                by.setdefault(s, []).append(t)
        for s, ts in by.items():
            for a in ts[:4]:
                for b in ts[:4]:
                    pairs.append("cmp %s %s %s" % (s, a, b))
    ctx.stream("eq-on-results", pairs, nontrivial=lambda t: True)
    small = tiers(ctx, [(3, 3)], [(3, 3), (3, 4), (4, 3)])
    ctx.stream("exh-small-eq", gen.exh_binary(["cmp"], small, modes=["E"], values=gen.all_values) and
               ["cmp %s %s %s" % (Sem(E, P, "E"), a, b) for (E, P) in small for a in gen.all_values(Sem(E, P)) for b in gen.all_values(Sem(E, P))],
               exhaustive=True, nontrivial=lambda t: True)
    return done(ctx)


# --------------------------------------------------------------------------- C05
def c05(ctx):
    start(ctx)
    rng = random.Random(ctx.seed)
    small = tiers(ctx, gen.SMALL_QUICK, gen.SMALL_THOROUGH)
    lines = ["cmp %s %s %s" % (Sem(E, P, "E"), a, b) for (E, P) in small for a in gen.all_values(Sem(E, P)) + ["X1:0:0"] for b in gen.all_values(Sem(E, P)) + ["X1:0:0"]]
    ctx.stream("exh-small-pairs", lines, exhaustive=True, nontrivial=lambda t: True)
    ctx.stream("real", gen.cmp_lines_real(rng, tiers(ctx, 20000, 300000)), nontrivial=lambda t: True)
    return done(ctx)


# --------------------------------------------------------------------------- C06
def c06(ctx):
    start(ctx)
    rng = random.Random(ctx.seed)
    small = tiers(ctx, gen.SMALL_QUICK, gen.SMALL_THOROUGH)
    ctx.stream("exh-small", gen.exh_cast(small), exhaustive=True)
    ctx.stream("rand-real", gen.rand_cast(rng, tiers(ctx, 30000, 500000)))
    # widening then narrowing is the identity (prog: lit, cast up, cast back; third register must equal the first)
    lines = []
    for _ in range(tiers(ctx, 3000, 50000)):
        E, P = gen.rand_format(rng)
        s = Sem(E, P, rng.choice(MODES))
        g = Sem(E + rng.randrange(0, 4), P + rng.randrange(0, 70), rng.choice(MODES))
        a = gen.rand_finite(rng, s) if rng.randrange(10) else rng.choice(gen.SPECIALS)
        lines.append("prog lit/%s/%s cast/%s/%s/0 cast/%s/%s/1" % (s, a, g, rng.choice(MODES), s, rng.choice(MODES)))
    impl, _ = ctx.stream("widen-narrow", lines, spec_mode="prog", nontrivial=lambda t: True)
    for ln, im in zip(lines, impl):
        v = im.split("\t")[0].split()
        if len(v) == 3 and v[0] != v[2]:
            ctx.fail("oracle", "widen-narrow", ln, im, "third value == first value", "widening followed by narrowing is not the identity")
    return done(ctx)


# --------------------------------------------------------------------------- C08
def c08(ctx):
    start(ctx, profiles=("release", "dbg"))
    rng = random.Random(ctx.seed)
    il = gen.int_lines(rng, tiers(ctx, 4000, 80000))
    ctx.stream("load", il)
    ctx.stream("load-dbg", il[:: tiers(ctx, 4, 2)], profile="dbg")
    small = tiers(ctx, gen.SMALL_QUICK + [(5, 4), (7, 3)], gen.SMALL_THOROUGH + [(5, 4), (7, 3), (7, 5)])
    tl = gen.exh_unary(["toi64"], small)
    ctx.stream("toi64-exh-small", tl, exhaustive=True, nontrivial=lambda t: t in ("frac", "big"))
    tr = gen.toi64_lines_real(rng, tiers(ctx, 20000, 300000))
    ctx.stream("toi64-real", tr, nontrivial=lambda t: t in ("frac", "big"))
    ctx.stream("toi64-dbg", tr[::4] + tl[::4], profile="dbg", nontrivial=lambda t: t in ("frac", "big"))
    return done(ctx)


# --------------------------------------------------------------------------- C10
def c10(ctx):
    start(ctx)
    rng = random.Random(ctx.seed)
    small = tiers(ctx, [(2, 2), (2, 3), (3, 2), (3, 3), (3, 4), (4, 3)], gen.SMALL_THOROUGH)
    ctx.stream("trunc-round-exh", gen.exh_unary(["trunc", "round", "abs", "neg"], small, modes=["E", "Z", "P"]), exhaustive=True)
    ctx.stream("scale-exh", gen.scale_lines_exh(tiers(ctx, [(2, 2), (2, 3), (3, 3), (3, 4)], gen.SMALL_QUICK + [(4, 4)])), exhaustive=True)
    ctx.stream("scale-real", gen.scale_lines_real(rng, tiers(ctx, 20000, 300000)))
    ctx.stream("trunc-round-real", gen.truncround_real(rng, tiers(ctx, 20000, 300000)))
    return done(ctx)


# --------------------------------------------------------------------------- C11
def c11(ctx):
    start(ctx)
    rng = random.Random(ctx.seed)
    small = tiers(ctx, [(2, 2), (2, 3), (3, 2), (3, 3), (3, 4), (4, 3)], gen.SMALL_THOROUGH)
    lines = ["rem %s %s %s" % (Sem(E, P, m), a, b) for (E, P) in small for m in ["E", "Z"]
             for a in gen.all_values(Sem(E, P)) for b in gen.all_values(Sem(E, P))]
    ctx.stream("exh-small", lines, exhaustive=True, chunk_timeout=600)
    ctx.stream("real", gen.rem_real(rng, tiers(ctx, 5000, 100000)), chunk_timeout=600, per_line_timeout=10)
    return done(ctx)


# --------------------------------------------------------------------------- C12
def c12(ctx):
    start(ctx)
    rng = random.Random(ctx.seed)
    small = tiers(ctx, gen.SMALL_QUICK, gen.SMALL_THOROUGH)
    ctx.stream("exh-small", gen.exh_unary(["sqrt"], small), spec_mode="ok", exhaustive=True, nontrivial=lambda t: t == "n")
    ctx.stream("real", gen.sqrt_real(rng, tiers(ctx, 4000, 60000)), spec_mode="ok", nontrivial=lambda t: t == "n", chunk_timeout=600)
    return done(ctx)


PROPS = {"C01": c01, "C02": c02, "C03": c03, "C04": c04, "C05": c05, "C06": c06, "C08": c08, "C10": c10, "C11": c11, "C12": c12}


def replay(ctx, path):
    d = json.load(open(path))
    ctx.build(["Arp.Props." + ctx.pid])
    lines = [c["line"] for c in d.get("cases", [])]
    eq = [l for l in lines if l.split()[0] not in OK_OPS]
    ok = [l for l in lines if l.split()[0] in OK_OPS]
    ctx.stream("replay", eq)
    ctx.stream("replay-ok", ok, spec_mode="ok")
    for f in ctx.failures + ctx.disagreements:
        print(json.dumps(f.to_json()))
    return 1 if (ctx.failures or ctx.disagreements or ctx.broken) else 0
