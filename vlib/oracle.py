"""Exact-rational / mpmath oracles, used ONLY to search for concrete failing inputs on the
implementation's outputs (never as a proof, never for a pass verdict on a proved clause)."""
import re
import sys as _sys
if hasattr(_sys, "set_int_max_str_digits"):
    _sys.set_int_max_str_digits(0)   # Display of 20-exponent-bit formats prints hundreds of thousands of digits
import sys
from fractions import Fraction


def _flt(x):
    """float() for messages: astronomically wrong results must not crash the oracle"""
    try:
        return float(x)
    except OverflowError:
        return float('inf')

try:
    import mpmath
    from mpmath import mp, mpf
except Exception:  # pragma: no cover
    mpmath = None

from .gen import Sem


def parse_val(tok):
    """'N0:exp:hex@E,P,M' -> dict(cat, sign, exp, mant, sem)"""
    body, semtxt = tok.split("@")
    E, P, M = semtxt.split(",")
    s = Sem(int(E), int(P), M)
    cs, e, m = body.split(":")
    cat = cs[0]
    sign = int(cs[1]) if len(cs) > 1 else 0
    return {"cat": cat, "sign": sign, "exp": int(e), "mant": int(m, 16), "sem": s}


def val_of(v):
    """exact value of a finite token (Fraction)"""
    if v["cat"] == "Z":
        return Fraction(0)
    s = v["sem"]
    k = v["exp"] - (s.P - 1)
    q = Fraction(v["mant"] * (1 << k)) if k >= 0 else Fraction(v["mant"], 1 << (-k))
    return -q if v["sign"] else q


def in_val(s, tok):
    cs, e, m = tok.split(":")
    return {"cat": cs[0], "sign": int(cs[1]) if len(cs) > 1 else 0, "exp": int(e), "mant": int(m.split("~")[0], 16), "sem": s}


def ulp_of(v):
    s = v["sem"]
    e = v["exp"] if v["cat"] == "N" else s.emin
    k = e - (s.P - 1)
    return Fraction(1 << k) if k >= 0 else Fraction(1, 1 << (-k))


def max_finite(s):
    k = s.emax - (s.P - 1)
    return (2 ** s.P - 1) * (Fraction(1 << k) if k >= 0 else Fraction(1, 1 << (-k)))


def min_normal(s):
    return Fraction(1, 1 << (-s.emin)) if s.emin < 0 else Fraction(1 << s.emin)


def to_mpf(fr):
    return mpf(fr.numerator) / mpf(fr.denominator)


def ulp_at(s, t):
    """ulp of format s at the real number t (mpf): 2^(max(floor(log2|t|), emin) - (p-1))"""
    if t == 0:
        e = s.emin
    else:
        e = max(int(mpmath.floor(mpmath.log(abs(t), 2))), s.emin)
    return mpf(2) ** (e - (s.P - 1))


def ulp_err(v, true_mpf):
    """|v - true| in ulps (mpf). At a binade boundary the result and the true value have
    different ulps; the larger one is used, so that the oracle never demands more than the
    property states."""
    r = to_mpf(val_of(v))
    u = max(to_mpf(ulp_of(v)), ulp_at(v["sem"], true_mpf))
    return abs(r - true_mpf) / u


def domain_ok(s):
    """precision does not exceed the exponent range: p <= 2^(E-1) - 2"""
    return s.P <= 2 ** (s.E - 1) - 2


# ------------------------------------------------------------------ Display (C13)
DISP_RE = re.compile(r"^-?[0-9]*\.[0-9]*$")


def check_display(s, tok, out):
    """returns None if ok, else a description of the violated clause"""
    v = in_val(s, tok)
    if v["cat"] == "Z":
        return None if out == ("-0.0" if v["sign"] else "0.0") else "zero must print as 0.0/-0.0"
    if v["cat"] == "I":
        return None if out == ("-Inf" if v["sign"] else "Inf") else "infinity must print as Inf/-Inf"
    if v["cat"] == "X":
        return None if out == ("-NaN" if v["sign"] else "NaN") else "NaN must print as NaN/-NaN"
    if not DISP_RE.match(out):
        return "shape: optional '-', digits, exactly one '.', no exponent"
    if out.startswith("-") != bool(v["sign"]):
        return "sign"
    body = out.lstrip("-")
    ip, fp = body.split(".")
    S = Fraction(int(ip or "0")) + (Fraction(int(fp), 10 ** len(fp)) if fp else 0)
    x = abs(val_of(v))
    if S > x:
        return "S <= |x| violated"
    if not (x - S < x * Fraction(4, 2 ** s.P)):
        return "|x| - S < |x| * 2^(2-p) violated"
    if x.denominator == 1 and S != x:
        return "integer not printed exactly"
    return None


# ------------------------------------------------------------------ Parsing (C14)
NUM_RE = re.compile(rb"^([+-]?)([0-9]*)(?:\.([0-9]*))?(?:[eE]([+-]?[0-9]+))?$")


def grammar(b):
    """classification of an input string per the property text:
       ('special', sign, kind) | ('num', sign, int, frac, exp) | ('bad',)"""
    if len(b) == 0:
        return ("bad",)
    sign = 0
    body = b
    if b[:1] in (b"+", b"-"):
        sign = 1 if b[:1] == b"-" else 0
        body = b[1:]
    if body.lower() == b"nan":
        return ("special", sign, "X")
    if body.lower() == b"inf":
        return ("special", sign, "I")
    m = NUM_RE.match(b)
    if not m:
        return ("bad",)
    return ("num", sign, m.group(2) or b"", m.group(3), m.group(4))


def check_parse(s, raw, out):
    g = grammar(raw)
    if g[0] == "bad":
        return None if out == "err" else "malformed input must be rejected"
    if out == "err":
        # well-formed per the grammar: must be accepted (exponent must fit i64)
        if g[0] == "num" and g[4] is not None and abs(int(g[4])) >= 2 ** 63:
            return None
        return "well-formed input rejected"
    v = parse_val(out[3:])
    if g[0] == "special":
        ok = v["cat"] == g[2] and (g[2] == "X" or v["sign"] == g[1])
        return None if ok else "inf/nan literal"
    _, sign, ip, fp, ex = g
    ival = int(ip) if ip else 0
    fdig = len(fp) if fp else 0
    fval = int(fp) if fp else 0
    e = int(ex) if ex is not None else 0
    if abs(e) > 30000:
        return None   # (only a cost limit of this oracle: the accuracy clause has no bound on the exponent, the no-panic clause stops at 5000)
    exact = (Fraction(ival) + Fraction(fval, 10 ** fdig)) * (Fraction(10) ** e)
    if v["cat"] == "X":
        return "finite literal parsed as NaN" if finite_parts(s, ival, fdig, e) else None
    if v["cat"] != "X" and v["sign"] != sign and not (v["cat"] == "Z" and exact == 0 and False):
        return "sign of the result"
    # plain integer literal (optionally followed by a zero fraction): exact when representable
    if ex is None and fval == 0 and representable(s, Fraction(ival)):
        if v["cat"] in ("N", "Z") and abs(val_of(v)) == ival:
            return None
        return "representable integer literal not parsed exactly"
    if not finite_parts(s, ival, fdig, e):
        return None  # outside the stated domain
    mf = max_finite(s)
    if exact > mf - 6 * ulp_max(s):
        # overflow regime (the exact value is within 6 ulps of, or beyond, the largest finite value):
        # infinity or the saturated largest finite value, as the mode dictates (C02), are both accepted
        if v["cat"] == "I" or (v["cat"] == "N" and abs(val_of(v)) >= mf - 6 * ulp_max(s)):
            return None
        return "overflow regime: neither infinity nor a value within 6 ulps of the largest finite value"
    if v["cat"] == "I":
        return "spurious infinity"
    r = abs(val_of(v))
    u = ulp_of(v) if v["cat"] == "N" else ulp_of({"cat": "Z", "sem": s, "exp": 0})
    # ulp measured at the exact value's binade when the result is zero/subnormal
    err = abs(r - exact) / u
    return None if err <= 6 else "error %.2f ulps > 6" % _flt(err)


def ulp_max(s):
    k = s.emax - (s.P - 1)
    return Fraction(1 << k) if k >= 0 else Fraction(1, 1 << (-k))


def representable(s, q):
    if q == 0:
        return True
    if q > max_finite(s):
        return False
    n = q.numerator
    if q.denominator != 1:
        return False
    tz = (n & -n).bit_length() - 1
    return (n >> tz).bit_length() <= s.P and n.bit_length() - 1 <= s.emax


def finite_parts(s, ival, fdig, e):
    """integer part, 10^(fraction digits) and 10^|exponent| are all finite in the target format"""
    mf = max_finite(s)
    return ival <= mf and 10 ** fdig <= mf and 10 ** abs(e) <= mf


# ------------------------------------------------------------------ transcendental (C15-C18): mpmath search
def _prec(s, extra=64):
    mp.prec = 4 * s.P + extra


def true_const(name, s):
    _prec(s)
    return {"pi": mp.pi, "e": mp.e, "ln2": mp.ln2}[name] + 0


def check_const(name, s, out):
    """C15"""
    if not domain_ok(s) or s.P < 8:
        return None
    if out in ("HANG", "ABORT", "PANIC"):
        return "does not terminate / return normally"
    v = parse_val(out)
    if v["cat"] != "N" or v["sign"]:
        return "not a positive finite value"
    err = ulp_err(v, true_const(name, s))
    if name == "ln2":
        bound = 2 + s.P / 256.0
    else:
        bound = 1 if s.M in ("E", "A") else 2
    return None if err <= bound else "%s error %.3g ulps > %s" % (name, _flt(err), bound)


def _special_expect(name, x):
    """expected (cat, sign-or-None) for special operands, per C16/C17"""
    c, sg = x["cat"], x["sign"]
    if c == "X":
        return ("X", None)
    if name == "exp":
        if c == "Z":
            return ("ONE", 0)
        if c == "I":
            return ("I", 0) if not sg else ("Z", 0)
    if name == "log":
        if c == "Z":
            return ("I", 1) if not sg else ("ANY", None)   # log(+0) = -inf ; log(-0): not stated
        if c == "I":
            return ("I", 0) if not sg else ("X", None)
        if c == "N" and sg:
            return ("X", None)
    if name == "sigmoid":
        if c == "Z":
            return ("HALF", 0)
        if c == "I":
            return ("ONE", 0) if not sg else ("Z", 0)
    if name in ("sin", "tan"):
        if c == "Z":
            return ("Z", sg)
        if c == "I":
            return ("X", None)
    if name == "cos":
        if c == "Z":
            return ("ONE", 0)
        if c == "I":
            return ("X", None)
    return None


def _matches(v, exp):
    kind, sg = exp
    s = v["sem"]
    if kind == "ANY":
        return True
    if kind == "X":
        return v["cat"] == "X"
    if kind in ("I", "Z"):
        return v["cat"] == kind and (sg is None or v["sign"] == sg)
    if kind == "ONE":
        return v["cat"] == "N" and v["sign"] == sg and v["exp"] == 0 and v["mant"] == 2 ** (s.P - 1)
    if kind == "HALF":
        return v["cat"] == "N" and v["sign"] == sg and val_of(v) == Fraction(1, 2)
    return False


def check_fn(name, s, tok, out):
    """C16 / C17 (and sqr for C18). returns None | description"""
    x = in_val(s, tok)
    if out in ("HANG", "ABORT", "PANIC"):
        return None  # totality is C19's
    v = parse_val(out)
    exp = _special_expect(name, x)
    if exp is not None:
        return None if _matches(v, exp) else "special operand: expected %s%s" % (exp[0], "" if exp[1] is None else exp[1])
    if x["cat"] != "N":
        return None
    xv = val_of(x)
    nearest = s.M in ("E", "A")
    _prec(s, 128)
    X = to_mpf(xv)
    if name == "log":
        if xv == 1:
            return None if (v["cat"] == "Z" and v["sign"] == 0) else "log(1) must be +0"
        if not domain_ok(s):
            return None
        t = mp.log(X)
        if v["cat"] != "N":
            return "log of a positive finite number is not finite non-zero"
        err = ulp_err(v, t)
        return None if err <= 2 else "log error %.3g ulps > 2" % _flt(err)
    if name in ("exp", "sigmoid"):
        if not nearest or not domain_ok(s) or abs(xv) > 1024:
            return None
        t = mp.exp(X) if name == "exp" else 1 / (1 + mp.exp(-X))
        bound = 1 if name == "exp" else 2
        mf = to_mpf(max_finite(s))
        um = to_mpf(ulp_max(s))
        tiny = to_mpf(ulp_of({"cat": "Z", "sem": s, "exp": 0}))
        if v["cat"] == "I":
            return None if (v["sign"] == 0 and t > mf - bound * um) else "infinity although e^x is finite in range"
        if v["cat"] == "Z":
            return None if (t < bound * tiny) else "zero although the true value is representable"
        if v["cat"] != "N" or v["sign"]:
            return "result is not a positive finite value"
        err = ulp_err(v, t)
        return None if err <= bound else "%s error %.3g ulps > %d" % (name, _flt(err), bound)
    if name in ("sin", "cos", "tan"):
        if not nearest or not domain_ok(s) or abs(xv) > 128:
            return None
        t = {"sin": mp.sin, "cos": mp.cos, "tan": mp.tan}[name](X)
        if name == "tan" and abs(t) > 64:
            return None  # no requirement on tan beyond |tan x| <= 64
        if v["cat"] not in ("N", "Z"):
            return "result is not finite"
        r = to_mpf(val_of(v))
        if name in ("sin", "cos"):
            if abs(val_of(v)) > 1:
                return "|%s| exceeds 1" % name
            u = to_mpf(ulp_of(v))
            tol = max(u, mpf(2) ** (-(s.P + 6)))
            if abs(xv) < 1 and name == "sin":
                tol = u  # full relative accuracy down to subnormal results
            return None if abs(r - t) <= tol else "%s error %.3g ulps" % (name, _flt(abs(r - t) / u))
        if abs(t) > 64:
            return None
        err = ulp_err(v, t)
        return None if err <= 2 else "tan error %.3g ulps > 2" % _flt(err)
    return None


def check_symmetry(name, out_pos, out_neg):
    """sin/tan exactly odd, cos exactly even (C17)"""
    a, b = parse_val(out_pos), parse_val(out_neg)
    if a["cat"] == "X" or b["cat"] == "X":
        return None if a["cat"] == b["cat"] else "symmetry (NaN)"
    same = (a["cat"], a["exp"], a["mant"]) == (b["cat"], b["exp"], b["mant"])
    if name == "cos":
        return None if same and a["sign"] == b["sign"] else "cos is not exactly even"
    return None if same and a["sign"] != b["sign"] else "%s is not exactly odd" % name


def check_powi(s, n, tok, out):
    """C18 powi"""
    x = in_val(s, tok)
    if out in ("HANG", "ABORT", "PANIC"):
        return None
    v = parse_val(out)
    if x["cat"] != "N":
        return None
    xv = val_of(x)
    if n == 0:
        return None if _matches(v, ("ONE", 0)) else "powi(0) must be 1"
    if n == 1:
        return None if (v["cat"], v["sign"], v["exp"], v["mant"]) == ("N", x["sign"], x["exp"], x["mant"]) else "powi(1) must be x"
    t = xv ** n
    if not (min_normal(s) <= abs(t) <= max_finite(s)):
        return None  # the power is not a normal number of the format
    bound0 = 1 + Fraction(n, 4)
    if abs(t) > max_finite(s) - bound0 * ulp_max(s):
        # overflow regime: the exact power is within the allowed error of the largest finite value;
        # infinity or a value within the bound are both accepted (which one is C02's business)
        if v["cat"] == "I" and v["sign"] == (1 if t < 0 else 0):
            return None
    if v["cat"] != "N":
        return "power is a normal number but the result is not finite non-zero"
    err = abs(val_of(v) - t) / ulp_of(v)
    bound = 1 + Fraction(n, 4)
    if n == 2 and s.M in ("E", "A"):
        bound = 1
    return None if err <= bound else "powi(%d) error %.3g ulps > %s" % (n, _flt(err), bound)


def check_pow(s, ta, tb, out):
    """C18 pow"""
    x, y = in_val(s, ta), in_val(s, tb)
    if out in ("HANG", "ABORT", "PANIC"):
        return None
    v = parse_val(out)
    if y["cat"] == "Z":
        return None if _matches(v, ("ONE", 0)) else "pow(x, +-0) must be +1"
    if x["cat"] == "N" and val_of(x) == 1:
        return None if _matches(v, ("ONE", 0)) else "pow(1, y) must be 1"
    if x["cat"] == "X" or y["cat"] == "X":
        return None if v["cat"] == "X" else "NaN operand"
    if x["cat"] == "N" and x["sign"]:
        return None if v["cat"] == "X" else "negative base must give NaN"
    if x["cat"] != "N" or y["cat"] != "N" or s.M not in ("E", "A") or not domain_ok(s):
        return None
    _prec(s, 128)
    X, Y = to_mpf(val_of(x)), to_mpf(val_of(y))
    yl = Y * mp.log(X)
    if abs(yl) > 512:
        return None
    t = mp.exp(yl)
    mf, um = to_mpf(max_finite(s)), to_mpf(ulp_max(s))
    tiny = to_mpf(ulp_of({"cat": "Z", "sem": s, "exp": 0}))
    if v["cat"] == "I":
        return None if (v["sign"] == 0 and t > mf - um) else "infinity although x^y is finite in range"
    if v["cat"] == "Z":
        return None if t < tiny else "zero although x^y is representable"
    if v["cat"] != "N" or v["sign"]:
        return "result is not a positive finite value"
    err = ulp_err(v, t)
    return None if err <= 1 else "pow error %.3g ulps > 1" % _flt(err)


def check_frac(s, n, tok, out):
    """C20"""
    x = in_val(s, tok)
    if out in ("HANG", "ABORT", "PANIC"):
        return None
    p, q = [int(t, 16) for t in out.split("/")]
    if x["cat"] == "Z":
        return None if (p, q) == (0, 1) else "zero must give 0/1"
    if x["cat"] in ("I", "X"):
        return None if (p, q) == (0, 0) else "inf/NaN must give 0/0"
    v = abs(val_of(x))
    nn = max(n, 1)
    # exact continued fraction
    terms = []
    a, b = v.numerator, v.denominator
    while b and len(terms) < nn + 2:
        terms.append(a // b)
        a, b = b, a % b
    if len(terms) < nn + 2:
        return None  # expansion too short: outside the stated domain

    def conv(ts):
        h0, h1, k0, k1 = 0, 1, 1, 0
        for t in ts:
            h0, h1 = h1, t * h1 + h0
            k0, k1 = k1, t * k1 + k0
        return h1, k1

    _, Q = conv(terms[: nn + 2])
    if Q * Q * ulp_of(x) > Fraction(1, 256):
        return None
    P0, Q0 = conv(terms[:nn])
    return None if (p, q) == (P0, Q0) else "expected convergent %d/%d" % (P0, Q0)


# --------------------------------------------------------------------------- lines that were not executed
def _skip_guard(f):
    """`SKIP` is the supervisor's answer for a line it did not execute (the rest of a chunk after six aborts / hangs):
    there is no output to judge"""
    def g(*a, **k):
        if any(isinstance(x, str) and x == "SKIP" for x in a):
            return None
        return f(*a, **k)
    g.__name__ = f.__name__
    g.__doc__ = f.__doc__
    return g


for _n in [n for n in list(globals()) if n.startswith("check_")]:
    globals()[_n] = _skip_guard(globals()[_n])
