"""Build + supervised execution of the real crate (arpharness) and the Lean model (arpdrv)."""
import fcntl
import os
import select
import shutil
import subprocess
import time

VERIF = os.path.dirname(os.path.dirname(os.path.abspath(__file__)))
HARNESS = os.path.join(VERIF, "harness")
LEAN = os.path.join(VERIF, "lean")
WORK = os.path.join(VERIF, "work")
NPROC = max(1, min(16, os.cpu_count() or 1))
ENV = dict(os.environ, CARGO_NET_OFFLINE="true")

# Evaluation of seeded changes only (tools/eval_mutation.py): ARP_EVAL_REPO=<scratch worktree> makes the check build a private
# copy of the harness against that tree and write evidence / replays under work/eval-<tag>/, so that several changed trees can
# be judged in parallel without touching /repo or the committed evidence.  The registered commands never set it.
EVAL_REPO = os.environ.get("ARP_EVAL_REPO")
OUT = VERIF
if EVAL_REPO:
    import hashlib
    EVAL_REPO = os.path.abspath(EVAL_REPO)
    OUT = os.path.join(WORK, "eval-" + hashlib.md5(EVAL_REPO.encode()).hexdigest()[:8])
    _h = os.path.join(OUT, "harness")
    os.makedirs(os.path.join(_h, "src"), exist_ok=True)
    shutil.copy(os.path.join(HARNESS, "src", "main.rs"), os.path.join(_h, "src", "main.rs"))
    shutil.copy(os.path.join(HARNESS, "Cargo.lock"), os.path.join(_h, "Cargo.lock"))
    with open(os.path.join(_h, "Cargo.toml"), "w") as _f:
        _f.write(open(os.path.join(HARNESS, "Cargo.toml")).read().replace('path = "/repo"', 'path = "%s"' % EVAL_REPO))
    HARNESS = _h


class Lock:
    """file lock so that checks for different properties may run concurrently"""

    def __init__(self, name):
        os.makedirs(WORK, exist_ok=True)
        self.path = os.path.join(WORK, name + ".lock")

    def __enter__(self):
        self.f = open(self.path, "w")
        fcntl.flock(self.f, fcntl.LOCK_EX)
        return self

    def __exit__(self, *a):
        fcntl.flock(self.f, fcntl.LOCK_UN)
        self.f.close()


def build_harness(profile="release"):
    """cargo build of the harness against /repo's current working tree. Returns (ok, log)."""
    with Lock("cargo"):
        args = ["cargo", "build", "--offline", "--quiet"]
        args += ["--release"] if profile == "release" else ["--profile", profile]
        p = subprocess.run(args, cwd=HARNESS, env=ENV, capture_output=True, text=True)
        return p.returncode == 0, (p.stdout + p.stderr)[-4000:]


def harness_bin(profile="release"):
    return os.path.join(HARNESS, "target", profile, "arpharness")


def build_lean(targets):
    """lake build of the given targets. Returns (ok, log)."""
    with Lock("lake"):
        p = subprocess.run(["lake", "build"] + list(targets), cwd=LEAN, capture_output=True, text=True)
        return p.returncode == 0, (p.stdout + p.stderr)[-6000:]


def drv_bin():
    return os.path.join(LEAN, ".lake", "build", "bin", "arpdrv")


MAX_BAD_PER_CHUNK = 6   # after that many aborts/hangs the rest of the chunk is not executed (answer `SKIP`)


def _careful(binary, lines, per_line_timeout, env=None):
    """Feed lines one at a time; attribute ABORT / HANG to single lines; restart after them."""
    out = []
    i = 0
    n = len(lines)
    bad = 0
    e = dict(ENV if env is None else env, ARPH_FLUSH="1")
    while i < n:
        if bad >= MAX_BAD_PER_CHUNK:
            out.extend(["SKIP"] * (n - i))
            break
        p = subprocess.Popen([binary], stdin=subprocess.PIPE, stdout=subprocess.PIPE, env=e, bufsize=0)
        dead = False
        while i < n and not dead:
            try:
                p.stdin.write((lines[i] + "\n").encode())
                p.stdin.flush()
            except (BrokenPipeError, OSError):
                out.append("ABORT")
                bad += 1
                i += 1
                dead = True
                break
            buf = b""
            deadline = time.time() + per_line_timeout
            got = False
            while True:
                left = deadline - time.time()
                if left <= 0:
                    break
                r, _, _ = select.select([p.stdout], [], [], left)
                if not r:
                    break
                ch = os.read(p.stdout.fileno(), 65536)
                if not ch:
                    break
                buf += ch
                if b"\n" in buf:
                    got = True
                    break
            if got:
                out.append(buf.split(b"\n")[0].decode(errors="replace"))
                i += 1
            else:
                if p.poll() is None:
                    # still running: hang (or very slow)
                    p.kill()
                    out.append("HANG")
                else:
                    out.append("ABORT")
                bad += 1
                i += 1
                dead = True
        try:
            p.stdin.close()
        except Exception:
            pass
        try:
            p.kill()
        except Exception:
            pass
        p.wait()
    return out


def run_lines(binary, lines, tag, chunk_timeout=120, per_line_timeout=5.0, nproc=None, chunk_lines=500):
    """Run `lines` through `binary` in parallel chunks (of at least `chunk_lines` lines). Returns list of answers (same length)."""
    n = len(lines)
    if n == 0:
        return []
    nproc = nproc or NPROC
    k = max(1, min(nproc, (n + chunk_lines - 1) // chunk_lines))
    size = (n + k - 1) // k
    d = os.path.join(WORK, "%s-%d" % (tag, os.getpid()))
    os.makedirs(d, exist_ok=True)
    procs = []
    for c in range(k):
        chunk = lines[c * size:(c + 1) * size]
        if not chunk:
            continue
        fin = os.path.join(d, "in%d.txt" % c)
        fout = os.path.join(d, "out%d.txt" % c)
        with open(fin, "w") as f:
            f.write("\n".join(chunk) + "\n")
        p = subprocess.Popen([binary], stdin=open(fin), stdout=open(fout, "w"), stderr=subprocess.DEVNULL, env=ENV)
        procs.append((p, chunk, fout))
    res = []
    t0 = time.time()
    for p, chunk, fout in procs:
        ok = True
        try:
            p.wait(timeout=max(1.0, chunk_timeout - (time.time() - t0)))
        except subprocess.TimeoutExpired:
            p.kill()
            p.wait()
            ok = False
        outs = open(fout).read().split("\n")
        if outs and outs[-1] == "":
            outs.pop()
        if ok and p.returncode == 0 and len(outs) == len(chunk):
            res.extend(outs)
        else:
            # keep the answers already produced, re-run the rest carefully
            good = outs[:max(0, len(outs) - 1)] if len(outs) <= len(chunk) else []
            rest = _careful(binary, chunk[len(good):], per_line_timeout)
            res.extend(good + rest)
    shutil.rmtree(d, ignore_errors=True)
    assert len(res) == n, (len(res), n)
    return res
