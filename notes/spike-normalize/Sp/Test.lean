import Sp.Basic
open Arp
/-- brute-force check of the *statement* of normalize_correct on small formats -/
def repF : Loss → List Rat
  | .zero => [0] | .lt => [1/4, 1/3, 1/1000] | .half => [1/2] | .gt => [3/4, 2/3, 999/1000]
def allRM : List RM := [.none, .nte, .nta, .zero, .pos, .neg]
def check : IO Unit := do
  let mut n := 0
  let mut bad := 0
  let mut skipped := 0
  for (e, p) in [(2,2),(2,3),(3,2),(3,3),(3,4),(4,3)] do
    for rm in allRM do
      let s : Sem := ⟨e, p, rm⟩
      for sg in [false, true] do
        for mant in List.range (2 ^ (2*p+2)) do
          if mant = 0 then continue
          let lo := s.emin - (2*p+3)
          for de in List.range ((s.emax - lo + 4).toNat) do
            let ex : Int := lo + de
            for l in [Loss.zero, .lt, .half, .gt] do
              -- hpre
              if msb mant < p ∧ s.emin < ex ∧ l ≠ .zero then
                skipped := skipped + 1
                continue
              let x : Flt := ⟨s, sg, ex, mant, .normal⟩
              let r := (x.normalize rm l).toRes
              for f in repF l do
                let q : Rat := ((mant : Rat) + f) * pow2 (ex - (p - 1))
                let sp := Spec.round s rm sg q
                n := n + 1
                if r ≠ sp then
                  bad := bad + 1
                  if bad < 10 then IO.println s!"MISMATCH e={e} p={p} rm={repr rm} sg={sg} mant={mant} exp={ex} loss={repr l} f={f}: model={repr r} spec={repr sp}"
  IO.println s!"checked {n} skipped(hpre) {skipped} bad {bad}"
def main : IO Unit := check
