/-! Design-phase spike (not framework code): core-only float model + rounding spec. -/
namespace Arp

inductive RM | none | nte | nta | zero | pos | neg
  deriving DecidableEq, Repr, Inhabited
inductive Cat | inf | nan | normal | zero
  deriving DecidableEq, Repr, Inhabited
inductive Loss | zero | lt | half | gt
  deriving DecidableEq, Repr, Inhabited

structure Sem where
  e : Nat
  p : Nat
  rm : RM
  deriving DecidableEq, Repr, Inhabited

structure Flt where
  sem : Sem
  sign : Bool
  exp : Int
  mant : Nat
  cat : Cat
  deriving DecidableEq, Repr, Inhabited

def Sem.bias (s : Sem) : Int := ((2 ^ (s.e - 1) : Nat) : Int) - 1
def Sem.emin (s : Sem) : Int := 1 - s.bias
def Sem.emax (s : Sem) : Int := ((2 ^ s.e : Nat) : Int) - s.bias - 2

def Flt.zero (s : Sem) (sg : Bool) : Flt := ⟨s, sg, 0, 0, .zero⟩
def Flt.inf (s : Sem) (sg : Bool) : Flt := ⟨s, sg, 0, 0, .inf⟩
def Flt.nan (s : Sem) (sg : Bool) : Flt := ⟨s, sg, 0, 0, .nan⟩
def Flt.new (s : Sem) (sg : Bool) (e : Int) (m : Nat) : Flt :=
  if m = 0 then Flt.zero s sg else ⟨s, sg, e, m, .normal⟩

/-- `BigInt::msb_index`: 1-based index of the highest set bit, 0 for 0. -/
def msb (n : Nat) : Nat := if n = 0 then 0 else Nat.log2 n + 1

/-- `get_loss_kind_for_bit` at Nat level. -/
def lossOfBits (m : Nat) (bits : Nat) : Loss :=
  let r := m % 2 ^ bits
  if r = 0 then .zero
  else if 2 * r < 2 ^ bits then .lt
  else if 2 * r = 2 ^ bits then .half
  else .gt

def Loss.invert : Loss → Loss
  | .lt => .gt | .gt => .lt | l => l

/-- `combine_loss_fraction(msb, lsb)` -/
def combineLoss (m l : Loss) : Loss :=
  if l ≠ .zero then
    if m = .zero then .lt else if m = .half then .gt else m
  else m

/-- `overflow()` with D1 repaired: all1s(precision). -/
def Flt.overflow (x : Flt) (rm : RM) : Flt :=
  let inf := Flt.inf x.sem x.sign
  let max := Flt.new x.sem x.sign x.sem.emax (2 ^ x.sem.p - 1)
  match rm with
  | .none | .nte | .nta => inf
  | .zero => max
  | .pos => if x.sign then max else inf
  | .neg => if x.sign then inf else max

/-- `need_round_away_from_zero` -/
def needRoundAway (sign : Bool) (mant : Nat) (rm : RM) (l : Loss) : Bool :=
  match rm with
  | .pos => !sign
  | .neg => sign
  | .zero | .none => false
  | .nta => l == .half || l == .gt
  | .nte => l == .gt || (l == .half && mant % 2 == 1)

/-- `normalize`, float.rs:495-574, statement by statement. -/
def Flt.normalize (x : Flt) (rm : RM) (loss0 : Loss) : Flt :=
  if x.cat ≠ .normal then x else
  let s := x.sem
  let nmsb : Int := msb x.mant
  if nmsb > 0 then
    let ec0 : Int := nmsb - s.p
    if x.exp + ec0 > s.emax then x.overflow rm
    else
      let ec := if x.exp + ec0 < s.emin then s.emin - x.exp else ec0
      if ec < 0 then { x with exp := x.exp + ec, mant := x.mant <<< ec.natAbs }
      else if ec > 0 then
        stepII { x with exp := x.exp + ec, mant := x.mant >>> ec.toNat }
               (combineLoss (lossOfBits x.mant ec.toNat) loss0)
      else stepII x loss0
  else stepII x loss0
where
  stepII (y : Flt) (l : Loss) : Flt :=
    let s := y.sem
    if l = .zero then (if y.mant = 0 then Flt.zero s y.sign else y)
    else if needRoundAway y.sign y.mant rm l then
      let e1 := if y.mant = 0 then s.emin else y.exp
      let m1 := y.mant + 1
      if m1 >>> s.p ≠ 0 then
        if e1 < s.emax then { y with exp := e1 + 1, mant := m1 >>> 1 }
        else Flt.inf s y.sign
      else { y with exp := e1, mant := m1 }
    else (if y.mant = 0 then Flt.zero s y.sign else y)

/-! ### Specification over core `Rat` -/

inductive Res
  | zero (neg : Bool)
  | fin (neg : Bool) (exp : Int) (mant : Nat)
  | inf (neg : Bool)
  | nan
  deriving DecidableEq, Repr, Inhabited

def pow2 (e : Int) : Rat :=
  if 0 ≤ e then ((2 ^ e.toNat : Nat) : Rat) else 1 / ((2 ^ (-e).toNat : Nat) : Rat)

/-- ⌊log₂ q⌋ for q > 0 -/
def ilog2 (q : Rat) : Int :=
  let e0 : Int := (msb q.num.natAbs : Int) - (msb q.den : Int)
  if pow2 e0 ≤ q then e0 else e0 - 1

def Spec.overflow (F : Sem) (rm : RM) (neg : Bool) : Res :=
  let max := Res.fin neg F.emax (2 ^ F.p - 1)
  match rm with
  | .none | .nte | .nta => .inf neg
  | .zero => max
  | .pos => if neg then max else .inf neg
  | .neg => if neg then .inf neg else max

/-- Step 3 of the specification: does the discarded fraction `f ∈ [0,1)` round the
    magnitude up (away from zero)? -/
def Spec.up (rm : RM) (neg : Bool) (m : Nat) (f : Rat) : Bool :=
  f ≠ 0 && (match rm with
    | .pos => !neg | .neg => neg | .zero | .none => false
    | .nta => decide (1/2 ≤ f)
    | .nte => decide (1/2 < f) || (decide (f = 1/2) && m % 2 == 1))

/-- Steps 4-6: carry into the next binade, overflow table, zero. -/
def Spec.finish (F : Sem) (rm : RM) (neg : Bool) (e : Int) (m : Nat) (up : Bool) : Res :=
  let m' := if up then m + 1 else m
  if m' = 2 ^ F.p then
    (if e + 1 > F.emax then Spec.overflow F rm neg else .fin neg (e + 1) (2 ^ (F.p - 1)))
  else if e > F.emax then Spec.overflow F rm neg
  else if m' = 0 then .zero neg
  else .fin neg e m'

/-- Round the magnitude q > 0 with sign `neg` into format F under `rm`. -/
def Spec.round (F : Sem) (rm : RM) (neg : Bool) (q : Rat) : Res :=
  let e := max (ilog2 q) F.emin
  let t := q / pow2 (e - (F.p - 1))
  let m := t.floor.toNat
  Spec.finish F rm neg e m (Spec.up rm neg m (t - (m : Rat)))

def Flt.toRes (x : Flt) : Res :=
  match x.cat with
  | .zero => .zero x.sign
  | .inf => .inf x.sign
  | .nan => .nan
  | .normal => .fin x.sign x.exp x.mant

def Flt.mag (x : Flt) : Rat := (x.mant : Rat) * pow2 (x.exp - (x.sem.p - 1))

end Arp
