import Sp.Pf
import Mathlib.Algebra.Order.Floor.Ring
import Mathlib.Data.Rat.Floor
import Mathlib.Data.Nat.Log
open Arp

theorem msb_pos {n : Nat} (h : n ≠ 0) : 0 < msb n := by unfold msb; simp [h]

theorem msb_le {n : Nat} (h : n ≠ 0) : 2 ^ (msb n - 1) ≤ n := by
  unfold msb; simp only [h, if_false]; simpa using Nat.log2_self_le h

theorem lt_msb (n : Nat) : n < 2 ^ msb n := by
  unfold msb; split
  · subst_vars; simp
  · exact Nat.lt_log2_self

/-- truncating `(m + f)·2^-s` with `0 ≤ f < 1` is the right shift -/
theorem floor_shift (m s : Nat) (f : ℚ) (hf0 : 0 ≤ f) (hf1 : f < 1) :
    ⌊((m : ℚ) + f) / 2 ^ s⌋ = ((m >>> s : Nat) : Int) := by
  have hpos : (0 : ℚ) < 2 ^ s := by positivity
  rw [Int.floor_eq_iff, Nat.shiftRight_eq_div_pow]
  have hdm := Nat.div_add_mod m (2 ^ s)
  have hlt : m % 2 ^ s < 2 ^ s := Nat.mod_lt _ (by positivity)
  set d := m / 2 ^ s
  set r := m % 2 ^ s
  have hm : (m : ℚ) = 2 ^ s * d + r := by
    have : ((2 ^ s * d + r : Nat) : ℚ) = (m : ℚ) := by rw [hdm]
    push_cast at this; linarith
  have hr1 : (r : ℚ) + 1 ≤ 2 ^ s := by
    have : ((r + 1 : Nat) : ℚ) ≤ ((2 ^ s : Nat) : ℚ) := Nat.cast_le.mpr hlt
    push_cast at this; exact this
  have hr0 : (0 : ℚ) ≤ r := Nat.cast_nonneg r
  constructor
  · rw [le_div_iff₀ hpos]; push_cast; rw [hm]; nlinarith
  · rw [div_lt_iff₀ hpos]; push_cast; rw [hm]; nlinarith

/-- and the lost fraction is `(m mod 2^s + f)/2^s` -/
theorem fract_shift (m s : Nat) (f : ℚ) :
    ((m : ℚ) + f) / 2 ^ s - ((m >>> s : Nat) : ℚ) = (((m % 2 ^ s : Nat) : ℚ) + f) / 2 ^ s := by
  have hpos : (0 : ℚ) < 2 ^ s := by positivity
  rw [Nat.shiftRight_eq_div_pow]
  have hdm := Nat.div_add_mod m (2 ^ s)
  have hm : (m : ℚ) = 2 ^ s * ((m / 2 ^ s : Nat) : ℚ) + ((m % 2 ^ s : Nat) : ℚ) := by
    have : ((2 ^ s * (m / 2 ^ s) + m % 2 ^ s : Nat) : ℚ) = (m : ℚ) := by rw [hdm]
    push_cast at this; linarith
  field_simp
  linarith

theorem ilog2_spec {q : ℚ} (hq : 0 < q) : (2 : ℚ) ^ (ilog2 q) ≤ q ∧ q < (2 : ℚ) ^ (ilog2 q + 1) := by
  have hnum : 0 < q.num := Rat.num_pos.mpr hq
  have hn0 : q.num.natAbs ≠ 0 := by omega
  have hd0 : q.den ≠ 0 := q.den_nz
  set a := msb q.num.natAbs with ha
  set b := msb q.den with hb
  have hqeq : q = (q.num.natAbs : ℚ) / (q.den : ℚ) := by
    have : ((q.num.natAbs : Int) : ℚ) = (q.num : ℚ) := by
      rw [Int.natAbs_of_nonneg (le_of_lt hnum)]
    rw [← Int.cast_natCast, this]; exact (Rat.num_div_den q).symm
  have hdpos : (0 : ℚ) < q.den := by exact_mod_cast Nat.pos_of_ne_zero hd0
  -- bounds on numerator and denominator
  have n_lo : (2 : ℚ) ^ (a - 1) ≤ q.num.natAbs := by exact_mod_cast msb_le hn0
  have n_hi : (q.num.natAbs : ℚ) < 2 ^ a := by exact_mod_cast lt_msb q.num.natAbs
  have d_lo : (2 : ℚ) ^ (b - 1) ≤ q.den := by exact_mod_cast msb_le hd0
  have d_hi : (q.den : ℚ) < 2 ^ b := by exact_mod_cast lt_msb q.den
  have ha1 : 1 ≤ a := msb_pos hn0
  have hb1 : 1 ≤ b := msb_pos hd0
  -- q < 2^(a-b+1) and 2^(a-b-1) < q
  have up : q < (2 : ℚ) ^ ((a : Int) - b + 1) := by
    rw [hqeq, div_lt_iff₀ hdpos]
    have e : (2 : ℚ) ^ ((a : Int) - b + 1) * 2 ^ (b - 1) = 2 ^ a := by
      rw [← zpow_natCast, ← zpow_natCast, ← zpow_add₀ (by norm_num)]
      congr 1; omega
    calc (q.num.natAbs : ℚ) < 2 ^ a := n_hi
      _ = (2 : ℚ) ^ ((a : Int) - b + 1) * 2 ^ (b - 1) := e.symm
      _ ≤ (2 : ℚ) ^ ((a : Int) - b + 1) * q.den := by
          apply mul_le_mul_of_nonneg_left d_lo; positivity
  have lo : (2 : ℚ) ^ ((a : Int) - b - 1) < q := by
    rw [hqeq, lt_div_iff₀ hdpos]
    have e : (2 : ℚ) ^ ((a : Int) - b - 1) * 2 ^ b = 2 ^ (a - 1) := by
      rw [← zpow_natCast, ← zpow_natCast, ← zpow_add₀ (by norm_num)]
      congr 1; omega
    calc (2 : ℚ) ^ ((a : Int) - b - 1) * q.den < (2 : ℚ) ^ ((a : Int) - b - 1) * 2 ^ b := by
          apply mul_lt_mul_of_pos_left d_hi; positivity
      _ = 2 ^ (a - 1) := e
      _ ≤ q.num.natAbs := n_lo
  unfold ilog2
  simp only [← ha, ← hb]
  split
  · rename_i h; rw [pow2_eq] at h; exact ⟨h, up⟩
  · rename_i h; rw [pow2_eq] at h
    constructor
    · exact le_of_lt lo
    · have : (a : Int) - b - 1 + 1 = a - b := by ring
      rw [this]; exact not_le.mp h

#print axioms ilog2_spec
#print axioms floor_shift
