import Sp.Pf2
open Arp

theorem ilog2_unique {q : ℚ} (hq : 0 < q) {k : Int} (h1 : (2:ℚ)^k ≤ q) (h2 : q < (2:ℚ)^(k+1)) :
    ilog2 q = k := by
  obtain ⟨a, b⟩ := ilog2_spec hq
  have two : (1:ℚ) ≤ 2 := by norm_num
  by_contra hne
  rcases lt_or_gt_of_ne hne with h | h
  · have : (2:ℚ)^(ilog2 q + 1) ≤ 2^k := zpow_le_zpow_right₀ two (by omega)
    linarith
  · have : (2:ℚ)^(k+1) ≤ 2^(ilog2 q) := zpow_le_zpow_right₀ two (by omega)
    linarith

theorem cls_lt {f : ℚ} (h0 : 0 < f) (h : f < 1/2) : cls f = .lt := by
  unfold cls; rw [if_neg (ne_of_gt h0), if_pos h]
theorem cls_half : cls (1/2 : ℚ) = .half := by
  unfold cls; rw [if_neg (by norm_num), if_neg (lt_irrefl _), if_pos rfl]
theorem cls_gt {f : ℚ} (h : 1/2 < f) : cls f = .gt := by
  unfold cls
  rw [if_neg (by intro h'; rw [h'] at h; norm_num at h), if_neg (by intro h'; linarith), if_neg (ne_of_gt h)]

theorem up_eq (rm : RM) (sg : Bool) (m : Nat) (f : ℚ) (hf0 : 0 < f) :
    Spec.up rm sg m f = needRoundAway sg m rm (cls f) := by
  have hfz : f ≠ 0 := ne_of_gt hf0
  unfold Spec.up
  rw [show (decide (f ≠ 0)) = true from decide_eq_true hfz, Bool.true_and]
  cases rm <;> simp only [needRoundAway]
  · -- nte
    rcases lt_trichotomy f (1/2) with h | h | h
    · rw [cls_lt hf0 h, decide_eq_false (by linarith : ¬ (1/2 < f)),
        decide_eq_false (by linarith : ¬ (f = 1/2))]; rfl
    · subst h; rw [cls_half, decide_eq_false (lt_irrefl _), decide_eq_true rfl]; rfl
    · rw [cls_gt h, decide_eq_true h]; rfl
  · -- nta
    rcases lt_trichotomy f (1/2) with h | h | h
    · rw [cls_lt hf0 h, decide_eq_false (by linarith : ¬ (1/2 ≤ f))]; rfl
    · subst h; rw [cls_half, decide_eq_true (le_refl _)]; rfl
    · rw [cls_gt h, decide_eq_true (le_of_lt h)]; rfl

theorem up_zero (rm : RM) (sg : Bool) (m : Nat) : Spec.up rm sg m 0 = false := by
  unfold Spec.up; simp

/-- Step II of `normalize` agrees with steps 3-6 of the specification. -/
theorem stepII_finish (s : Sem) (hp : 1 ≤ s.p) (rm : RM) (sg : Bool) (e : Int) (m : Nat) (f : ℚ)
    (hf0 : 0 ≤ f) (hf1 : f < 1) (hm : m < 2 ^ s.p) (he : e ≤ s.emax) (hm0 : m = 0 → e = s.emin) :
    (Flt.normalize.stepII rm ⟨s, sg, e, m, .normal⟩ (cls f)).toRes
      = Spec.finish s rm sg e m (Spec.up rm sg m f) := by
  have hmne : m ≠ 2 ^ s.p := ne_of_lt hm
  have hnotgt : ¬ (e > s.emax) := not_lt.mpr he
  have noup : Spec.finish s rm sg e m false = if m = 0 then Res.zero sg else Res.fin sg e m := by
    unfold Spec.finish; simp only [Bool.false_eq_true, if_false, hmne, hnotgt]
  by_cases hfz : f = 0
  · subst hfz
    have hc : cls (0:ℚ) = .zero := by simp [cls]
    rw [up_zero, noup, hc]
    unfold Flt.normalize.stepII
    by_cases h0 : m = 0
    · simp [h0, Flt.zero, Flt.toRes]
    · simp [h0, Flt.toRes]
  · have hfpos : 0 < f := lt_of_le_of_ne hf0 (Ne.symm hfz)
    have hc : cls f ≠ .zero := fun h => hfz (cls_zero_iff.mp h)
    rw [up_eq rm sg m f hfpos]
    unfold Flt.normalize.stepII
    simp only [hc, if_false]
    cases hna : needRoundAway sg m rm (cls f)
    · rw [noup]
      by_cases h0 : m = 0
      · simp [h0, Flt.zero, Flt.toRes]
      · simp [h0, Flt.toRes]
    · simp only [if_true]
      have he1 : (if m = 0 then s.emin else e) = e := by
        by_cases h0 : m = 0
        · simp [h0, hm0 h0]
        · simp [h0]
      rw [he1]
      unfold Spec.finish
      simp only [if_true]
      by_cases hcarry : m + 1 = 2 ^ s.p
      · have hsh : (m + 1) >>> s.p ≠ 0 := by
          rw [hcarry, Nat.shiftRight_eq_div_pow, Nat.div_self (by positivity)]; exact one_ne_zero
        have hhalf : (m + 1) >>> 1 = 2 ^ (s.p - 1) := by
          rw [hcarry, Nat.shiftRight_eq_div_pow]
          obtain ⟨k, hk⟩ : ∃ k, s.p = k + 1 := ⟨s.p - 1, by omega⟩
          rw [hk]; simp [Nat.pow_succ]
        rw [if_pos hsh, if_pos hcarry]
        by_cases hlt : e < s.emax
        · have : ¬ (e + 1 > s.emax) := by omega
          rw [if_pos hlt, if_neg this, hhalf]
          simp [Flt.toRes]
        · have : e + 1 > s.emax := by omega
          rw [if_neg hlt, if_pos this]
          cases rm <;> cases sg <;> simp_all [needRoundAway, Spec.overflow, Flt.inf, Flt.toRes]
      · have hsh : ¬ ((m + 1) >>> s.p ≠ 0) := by
          rw [not_not, Nat.shiftRight_eq_div_pow]; apply Nat.div_eq_of_lt; omega
        rw [if_neg hsh, if_neg hcarry, if_neg hnotgt, if_neg (Nat.succ_ne_zero m)]
        simp [Flt.toRes]

