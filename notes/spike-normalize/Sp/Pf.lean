import Sp.Basic
import Mathlib.Tactic.Linarith
import Mathlib.Tactic.Positivity
import Mathlib.Tactic.FieldSimp
import Mathlib.Tactic.NormNum
import Mathlib.Tactic.Ring
import Mathlib.Algebra.Order.Field.Basic
import Mathlib.Data.Rat.Defs
import Mathlib.Data.Nat.Cast.Order.Field
import Mathlib.Algebra.Order.Field.Power

open Arp

/-! Spike proofs. -/

theorem pow2_eq (e : Int) : pow2 e = (2 : ℚ) ^ e := by
  unfold pow2
  split
  · rename_i h
    obtain ⟨n, rfl⟩ := Int.eq_ofNat_of_zero_le h
    simp
  · rename_i h
    have h' : e < 0 := by omega
    obtain ⟨n, rfl⟩ := Int.exists_eq_neg_ofNat (le_of_lt h')
    simp [zpow_neg]

theorem pow2_pos (e : Int) : 0 < pow2 e := by rw [pow2_eq]; positivity

/-- classification of a fraction in [0,1) -/
def cls (f : ℚ) : Loss :=
  if f = 0 then .zero else if f < 1/2 then .lt else if f = 1/2 then .half else .gt

theorem cls_zero_iff {f : ℚ} : cls f = .zero ↔ f = 0 := by
  unfold cls; split_ifs <;> simp_all

theorem lossOfBits_cls (m b : Nat) :
    lossOfBits m b = cls (((m % 2 ^ b : Nat) : ℚ) / 2 ^ b) := by
  unfold lossOfBits cls
  have hpos : (0 : ℚ) < 2 ^ b := by positivity
  generalize hr : m % 2 ^ b = r
  have e1 : ((r : ℚ) / 2 ^ b = 0) ↔ r = 0 := by
    rw [div_eq_zero_iff]; constructor
    · rintro (h | h); exact_mod_cast h; exact absurd h (ne_of_gt hpos)
    · intro h; left; exact_mod_cast h
  have e2 : ((r : ℚ) / 2 ^ b < 1 / 2) ↔ 2 * r < 2 ^ b := by
    rw [div_lt_div_iff₀ hpos (by norm_num)]
    have : ((2 * r : Nat) : ℚ) < ((2 ^ b : Nat) : ℚ) ↔ 2 * r < 2 ^ b := Nat.cast_lt
    rw [← this]; push_cast; constructor <;> intro h <;> linarith
  have e3 : ((r : ℚ) / 2 ^ b = 1 / 2) ↔ 2 * r = 2 ^ b := by
    rw [div_eq_div_iff (ne_of_gt hpos) (by norm_num)]
    have : ((2 * r : Nat) : ℚ) = ((2 ^ b : Nat) : ℚ) ↔ 2 * r = 2 ^ b := Nat.cast_inj
    rw [← this]; push_cast; constructor <;> intro h <;> linarith
  simp only [e1, e2, e3]

theorem invert_cls {f : ℚ} (h0 : 0 < f) (h1 : f < 1) : cls (1 - f) = (cls f).invert := by
  have hf : f ≠ 0 := ne_of_gt h0
  have hg : 1 - f ≠ 0 := by intro h; linarith
  rcases lt_trichotomy f (1/2) with h | h | h
  · have c1 : cls f = .lt := by unfold cls; rw [if_neg hf, if_pos h]
    have c2 : cls (1 - f) = .gt := by
      unfold cls
      rw [if_neg hg, if_neg (by intro h'; linarith), if_neg (by intro h'; linarith)]
    rw [c1, c2]; rfl
  · subst h
    have : (1 : ℚ) - 1/2 = 1/2 := by norm_num
    rw [this]
    have c1 : cls (1/2 : ℚ) = .half := by
      unfold cls; rw [if_neg (by norm_num), if_neg (lt_irrefl _), if_pos rfl]
    rw [c1]; rfl
  · have c1 : cls f = .gt := by
      unfold cls; rw [if_neg hf, if_neg (by intro h'; linarith), if_neg (by intro h'; linarith)]
    have c2 : cls (1 - f) = .lt := by
      unfold cls; rw [if_neg hg, if_pos (by linarith)]
    rw [c1, c2]; rfl

theorem combine_cls (r b : Nat) (hb : 1 ≤ b) (hr : r < 2 ^ b) (f : ℚ) (hf0 : 0 ≤ f) (hf1 : f < 1) :
    cls (((r : ℚ) + f) / 2 ^ b) = combineLoss (cls ((r : ℚ) / 2 ^ b)) (cls f) := by
  have hpos : (0 : ℚ) < 2 ^ b := by positivity
  have hrq : (r : ℚ) + 1 ≤ 2 ^ b := by
    have : ((r + 1 : Nat) : ℚ) ≤ ((2 ^ b : Nat) : ℚ) := Nat.cast_le.mpr hr
    push_cast at this; exact this
  have h2 : (2 : ℚ) ≤ 2 ^ b := by
    calc (2 : ℚ) = 2 ^ 1 := by norm_num
      _ ≤ 2 ^ b := pow_le_pow_right₀ (by norm_num) hb
  by_cases hfz : f = 0
  · subst hfz; simp [combineLoss, cls]
  · have hfpos : 0 < f := lt_of_le_of_ne hf0 (Ne.symm hfz)
    have hl : cls f ≠ .zero := fun h => hfz (cls_zero_iff.mp h)
    unfold combineLoss; rw [if_pos hl]
    -- the three cases for r / 2^b
    have hsum_ne : ((r : ℚ) + f) / 2 ^ b ≠ 0 := by
      apply div_ne_zero _ (ne_of_gt hpos)
      have : (0 : ℚ) ≤ r := Nat.cast_nonneg r
      linarith
    rcases Nat.lt_trichotomy (2 * r) (2 ^ b) with hlt | heq | hgt
    · -- r/2^b < 1/2, so 2r+2 ≤ 2^b, (r+f)/2^b < 1/2
      have h2r : (2 : ℚ) * r + 2 ≤ 2 ^ b := by
        have hev : 2 * r + 2 ≤ 2 ^ b := by
          have : 2 ∣ 2 ^ b := dvd_pow_self 2 (by omega)
          omega
        have : ((2 * r + 2 : Nat) : ℚ) ≤ ((2 ^ b : Nat) : ℚ) := Nat.cast_le.mpr hev
        push_cast at this; exact this
      have hlt' : ((r : ℚ) + f) / 2 ^ b < 1 / 2 := by
        rw [div_lt_div_iff₀ hpos (by norm_num)]; linarith
      have hres : cls (((r : ℚ) + f) / 2 ^ b) = .lt := by
        unfold cls; rw [if_neg hsum_ne, if_pos hlt']
      rw [hres]
      by_cases hr0 : r = 0
      · subst hr0; simp [cls]
      · have hne : ((r : ℚ) / 2 ^ b) ≠ 0 := div_ne_zero (by exact_mod_cast hr0) (ne_of_gt hpos)
        have hl2 : (r : ℚ) / 2 ^ b < 1 / 2 := by
          rw [div_lt_div_iff₀ hpos (by norm_num)]; linarith
        have : cls ((r : ℚ) / 2 ^ b) = .lt := by unfold cls; rw [if_neg hne, if_pos hl2]
        rw [this]; simp
    · have heq' : (2 : ℚ) * r = 2 ^ b := by
        have : ((2 * r : Nat) : ℚ) = ((2 ^ b : Nat) : ℚ) := by rw [heq]
        push_cast at this; exact this
      have hhalf : (r : ℚ) / 2 ^ b = 1 / 2 := by
        rw [div_eq_div_iff (ne_of_gt hpos) (by norm_num)]; linarith
      have hgt' : 1 / 2 < ((r : ℚ) + f) / 2 ^ b := by
        rw [div_lt_div_iff₀ (by norm_num) hpos]; linarith
      have : cls (((r : ℚ) + f) / 2 ^ b) = .gt := by
        unfold cls; rw [if_neg hsum_ne, if_neg (not_lt.mpr (le_of_lt hgt')), if_neg (ne_of_gt hgt')]
      rw [this, hhalf]; simp [cls]
    · have hgt'' : (2 : ℚ) ^ b < 2 * r := by
        have : ((2 ^ b : Nat) : ℚ) < ((2 * r : Nat) : ℚ) := Nat.cast_lt.mpr hgt
        push_cast at this; exact this
      have hg1 : 1 / 2 < (r : ℚ) / 2 ^ b := by
        rw [div_lt_div_iff₀ (by norm_num) hpos]; linarith
      have hg2 : 1 / 2 < ((r : ℚ) + f) / 2 ^ b := by
        rw [div_lt_div_iff₀ (by norm_num) hpos]; linarith
      have hne : ((r : ℚ) / 2 ^ b) ≠ 0 := by linarith
      have c1 : cls ((r : ℚ) / 2 ^ b) = .gt := by
        unfold cls; rw [if_neg hne, if_neg (not_lt.mpr (le_of_lt hg1)), if_neg (ne_of_gt hg1)]
      have c2 : cls (((r : ℚ) + f) / 2 ^ b) = .gt := by
        unfold cls; rw [if_neg hsum_ne, if_neg (not_lt.mpr (le_of_lt hg2)), if_neg (ne_of_gt hg2)]
      rw [c1, c2]; simp

#print axioms combine_cls
#print axioms invert_cls
#print axioms lossOfBits_cls
