//! arpharness — executes protocol lines on the real `arpfloat` crate (public API only).
//!
//! stdin: one request per line (same lines that are fed to the Lean driver `arpdrv`)
//! stdout: one answer per line.  A panic inside a case prints `PANIC`.
//! With ARPH_FLUSH=1 every answer is flushed at once (used by the supervisor to
//! attribute an abort / hang to a single line).
use arpfloat::{BigInt, Float, RoundingMode, Semantics};
use std::io::{BufRead, Write};
use std::panic::{catch_unwind, AssertUnwindSafe};

fn parse_rm(s: &str) -> Option<RoundingMode> {
    Some(match s {
        "O" => RoundingMode::None,
        "E" => RoundingMode::NearestTiesToEven,
        "A" => RoundingMode::NearestTiesToAway,
        "Z" => RoundingMode::Zero,
        "P" => RoundingMode::Positive,
        "N" => RoundingMode::Negative,
        _ => return None,
    })
}
fn show_rm(rm: RoundingMode) -> &'static str {
    match rm {
        RoundingMode::None => "O",
        RoundingMode::NearestTiesToEven => "E",
        RoundingMode::NearestTiesToAway => "A",
        RoundingMode::Zero => "Z",
        RoundingMode::Positive => "P",
        RoundingMode::Negative => "N",
    }
}
fn parse_sem(s: &str) -> Option<Semantics> {
    let v: Vec<&str> = s.split(',').collect();
    if v.len() != 3 {
        return None;
    }
    Some(Semantics::new(v[0].parse().ok()?, v[1].parse().ok()?, parse_rm(v[2])?))
}
fn show_sem(s: Semantics) -> String {
    format!("{},{},{}", s.get_exponent_len(), s.get_precision(), show_rm(s.get_rounding_mode()))
}
/// hex (optionally `hex/len` to force a limb count) -> BigInt
fn parse_big(tok: &str) -> Option<BigInt> {
    // `hex/len` and `hex~len`: store the value in at least `len` words (leading zero words)
    let (h, len) = match tok.split_once(|c| c == '/' || c == '~') {
        Some((h, l)) => (h, Some(l.parse::<usize>().ok()?)),
        None => (tok, None),
    };
    if h.is_empty() {
        return None;
    }
    let bytes = h.as_bytes();
    let mut parts: Vec<u64> = Vec::new();
    let mut end = bytes.len();
    while end > 0 {
        let start = end.saturating_sub(16);
        let chunk = std::str::from_utf8(&bytes[start..end]).ok()?;
        parts.push(u64::from_str_radix(chunk, 16).ok()?);
        end = start;
    }
    // minimal representation, at least one limb
    while parts.len() > 1 && *parts.last().unwrap() == 0 {
        parts.pop();
    }
    if let Some(l) = len {
        while parts.len() < l {
            parts.push(0);
        }
    }
    Some(BigInt::from_parts(&parts))
}
fn show_big(b: &BigInt) -> String {
    let mut top = b.len();
    while top > 0 && b.get_part(top - 1) == 0 {
        top -= 1;
    }
    if top == 0 {
        return "0".to_string();
    }
    let mut s = format!("{:x}", b.get_part(top - 1));
    for i in (0..top - 1).rev() {
        s.push_str(&format!("{:016x}", b.get_part(i)));
    }
    s
}
fn parse_flt(sem: Semantics, tok: &str) -> Option<Float> {
    let v: Vec<&str> = tok.split(':').collect();
    if v.len() != 3 {
        return None;
    }
    let cs = v[0].as_bytes();
    if cs.len() != 2 {
        return None;
    }
    let sign = match cs[1] {
        b'0' => false,
        b'1' => true,
        _ => return None,
    };
    let exp: i64 = v[1].parse().ok()?;
    let m = parse_big(v[2])?;
    Some(match cs[0] {
        b'N' => Float::new(sem, sign, exp, m),
        b'Z' => Float::zero(sem, sign),
        b'I' => Float::inf(sem, sign),
        b'X' => Float::nan(sem, sign),
        _ => return None,
    })
}
fn show_flt(x: &Float) -> String {
    let c = if x.is_normal() {
        "N"
    } else if x.is_zero() {
        "Z"
    } else if x.is_inf() {
        "I"
    } else {
        "X"
    };
    let s = if x.is_nan() {
        ""
    } else if x.get_sign() {
        "1"
    } else {
        "0"
    };
    format!("{}{}:{}:{}@{}", c, s, x.get_exp(), show_big(&x.get_mantissa()), show_sem(x.get_semantics()))
}
fn b01(b: bool) -> &'static str {
    if b {
        "1"
    } else {
        "0"
    }
}
fn show_ord(o: Option<std::cmp::Ordering>) -> &'static str {
    match o {
        None => "U",
        Some(std::cmp::Ordering::Less) => "L",
        Some(std::cmp::Ordering::Equal) => "E",
        Some(std::cmp::Ordering::Greater) => "G",
    }
}

/// canonical-form predicate of C04 evaluated directly on the real value (public accessors only)
fn is_canonical(x: &Float) -> bool {
    let m = x.get_mantissa();
    if !x.is_normal() {
        return x.get_exp() == 0 && m.is_zero();
    }
    let (lo, hi) = x.get_exp_bounds();
    let p = x.get_semantics().get_precision();
    let msb = m.msb_index();
    x.get_exp() >= lo && x.get_exp() <= hi && msb >= 1 && msb <= p && (msb == p || x.get_exp() == lo)
}

fn all_same(v: &[String]) -> String {
    if v.iter().all(|s| s == &v[0]) {
        v[0].clone()
    } else {
        format!("SPELLINGS-DIFFER:{}", v.join(","))
    }
}

fn prog_step(regs: &[Float], ins: &str) -> Option<Float> {
    let f: Vec<&str> = ins.split('/').collect();
    let reg = |t: &str| -> Option<Float> { regs.get(t.parse::<usize>().ok()?).cloned() };
    match f.as_slice() {
        ["lit", s, t] => parse_flt(parse_sem(s)?, t),
        ["add", r, a, b] => Some(Float::add_with_rm(&reg(a)?, &reg(b)?, parse_rm(r)?)),
        ["sub", r, a, b] => Some(Float::sub_with_rm(&reg(a)?, &reg(b)?, parse_rm(r)?)),
        ["mul", r, a, b] => Some(Float::mul_with_rm(&reg(a)?, &reg(b)?, parse_rm(r)?)),
        ["div", r, a, b] => Some(Float::div_with_rm(&reg(a)?, &reg(b)?, parse_rm(r)?)),
        ["cast", g, r, a] => Some(reg(a)?.cast_with_rm(parse_sem(g)?, parse_rm(r)?)),
        ["scale", r, k, a] => Some(reg(a)?.scale(k.parse().ok()?, parse_rm(r)?)),
        ["fromu64", s, n] => Some(Float::from_u64(parse_sem(s)?, n.parse().ok()?)),
        ["fromi64", s, n] => Some(Float::from_i64(parse_sem(s)?, n.parse().ok()?)),
        ["frombig", s, h] => Some(Float::from_bigint(parse_sem(s)?, parse_big(h)?)),
        ["powi", n, a] => Some(reg(a)?.powi(n.parse().ok()?)),
        ["one", s, sg] => Some(Float::one(parse_sem(s)?, *sg == "1")),
        ["setsign", sg, a] => {
            let mut x = reg(a)?;
            x.set_sign(*sg == "1");
            if x.is_negative() != (*sg == "1") || x.get_sign() != (*sg == "1") {
                return None;
            }
            Some(x)
        }
        ["const", name, s] => {
            let f = parse_sem(s)?;
            Some(match *name {
                "pi" => Float::pi(f),
                "e" => Float::e(f),
                "ln2" => Float::ln2(f),
                _ => return None,
            })
        }
        ["fn", name, a] => {
            let x = reg(a)?;
            Some(match *name {
                "exp" => x.exp(),
                "log" => x.log(),
                "sigmoid" => x.sigmoid(),
                "sin" => x.sin(),
                "cos" => x.cos(),
                "tan" => x.tan(),
                "sqr" => x.sqr(),
                _ => return None,
            })
        }
        ["pow", a, b] => Some(reg(a)?.pow(&reg(b)?)),
        ["min", a, b] => Some(reg(a)?.min(&reg(b)?)),
        ["max", a, b] => Some(reg(a)?.max(&reg(b)?)),
        ["rem", a, b] => Some(reg(a)?.rem(&reg(b)?)),
        ["oadd", a, b] => Some(reg(a)? + reg(b)?),
        ["osub", a, b] => Some(reg(a)? - reg(b)?),
        ["omul", a, b] => Some(reg(a)? * reg(b)?),
        ["odiv", a, b] => Some(reg(a)? / reg(b)?),
        ["trunc", a] => Some(reg(a)?.trunc()),
        ["round", a] => Some(reg(a)?.round()),
        ["abs", a] => Some(reg(a)?.abs()),
        ["neg", a] => Some(reg(a)?.neg()),
        ["sqrt", a] => Some(reg(a)?.sqrt()),
        _ => None,
    }
}

fn run_prog(inss: &[&str]) -> Option<String> {
    let mut regs: Vec<Float> = Vec::new();
    for i in inss {
        let v = prog_step(&regs, i)?;
        regs.push(v);
    }
    let vals: Vec<String> = regs.iter().map(show_flt).collect();
    let can: Vec<&str> = regs.iter().map(|x| b01(is_canonical(x))).collect();
    Some(format!("{}\t{}", vals.join(" "), can.join(" ")))
}

/// `progcmp`: run the instructions, then compare the last two registers (identical semantics)
fn run_prog_cmp(inss: &[&str]) -> Option<String> {
    let mut regs: Vec<Float> = Vec::new();
    for i in inss {
        let v = prog_step(&regs, i)?;
        regs.push(v);
    }
    if regs.len() < 2 {
        return None;
    }
    let a = &regs[regs.len() - 2];
    let b = &regs[regs.len() - 1];
    if a.get_semantics() != b.get_semantics() {
        return None;
    }
    #[allow(clippy::eq_op)]
    Some(format!(
        "{} {} {} {} {} {} {} {}",
        show_ord(a.partial_cmp(b)),
        b01(a < b),
        b01(a <= b),
        b01(a > b),
        b01(a >= b),
        b01(a == b),
        show_flt(&a.min(b)),
        show_flt(&a.max(b))
    ))
}

fn big_op(op: &str, a: &[&str]) -> Option<String> {
    let same = |v: Vec<String>| all_same(&v);
    match (op, a) {
        ("add", [x, y]) => {
            let (x, y) = (parse_big(x)?, parse_big(y)?);
            let mut z = x.clone();
            z.inplace_add(&y);
            let mut w = x.clone();
            w += &y;
            let mut v = vec![show_big(&z), show_big(&(x.clone() + y.clone())), show_big(&(&x + &y)), show_big(&w)];
            if y.len() == 1 {
                v.push(show_big(&(x.clone() + y.as_u64())));
            }
            Some(same(v))
        }
        ("sub", [x, y]) => {
            let (x, y) = (parse_big(x)?, parse_big(y)?);
            let mut z = x.clone();
            let borrow = z.inplace_sub(&y);
            let mut w = x.clone();
            w -= &y;
            let mut sp = vec![show_big(&z), show_big(&(x.clone() - y.clone())), show_big(&(&x - &y)), show_big(&w)];
            if y.len() == 1 {
                sp.push(show_big(&(x.clone() - y.as_u64())));
            }
            let v = same(sp);
            Some(format!("{} {}", v, b01(borrow)))
        }
        ("mul", [x, y]) => {
            let (x, y) = (parse_big(x)?, parse_big(y)?);
            let mut z = x.clone();
            z.inplace_mul(&y);
            let mut w = x.clone();
            w *= &y;
            let mut v = vec![show_big(&z), show_big(&(x.clone() * y.clone())), show_big(&(&x * &y)), show_big(&w)];
            if y.len() == 1 {
                v.push(show_big(&(x.clone() * y.as_u64())));
            }
            Some(same(v))
        }
        ("div", [x, y]) => {
            let (x, y) = (parse_big(x)?, parse_big(y)?);
            let mut z = x.clone();
            let r = z.inplace_div(&y);
            let q2 = x.clone() / y.clone();
            let mut v = vec![show_big(&z), show_big(&q2)];
            if y.len() == 1 {
                v.push(show_big(&(x.clone() / y.as_u64())));
            }
            Some(format!("{} {}", same(v), show_big(&r)))
        }
        ("shl", [x, n]) => {
            let mut x = parse_big(x)?;
            x.shift_left(n.parse().ok()?);
            Some(show_big(&x))
        }
        ("shr", [x, n]) => {
            let mut x = parse_big(x)?;
            x.shift_right(n.parse().ok()?);
            Some(show_big(&x))
        }
        ("mask", [x, n]) => {
            let mut x = parse_big(x)?;
            x.mask(n.parse().ok()?);
            Some(show_big(&x))
        }
        ("powi", [x, n]) => Some(show_big(&parse_big(x)?.powi(n.parse().ok()?))),
        ("msb", [x]) => Some(format!("{}", parse_big(x)?.msb_index())),
        ("tz", [x]) => Some(format!("{}", parse_big(x)?.trailing_zeros())),
        ("cmp", [x, y]) => {
            let (x, y) = (parse_big(x)?, parse_big(y)?);
            Some(format!("{} {} {}", show_ord(Some(x.cmp(&y))), b01(x == y), b01(x < y)))
        }
        ("dec", [x]) => Some(parse_big(x)?.as_decimal()),
        ("bin", [x]) => {
            let x = parse_big(x)?;
            Some(same(vec![x.as_binary(), format!("{}", x)]))
        }
        ("flags", [x]) => {
            let x = parse_big(x)?;
            Some(format!("{} {} {}", b01(x.is_zero()), b01(x.is_even()), b01(x.is_odd())))
        }
        ("u128", [x]) => {
            // from_u128 / as_u128 / from_u64 / as_u64 round trips of a value below 2^128
            let v = u128::from_str_radix(x, 16).ok()?;
            let b = BigInt::from_u128(v);
            let mut sp = vec![show_big(&b), format!("{:x}", b.as_u128()), show_big(&parse_big(x)?), format!("{:x}", parse_big(x)?.as_u128())];
            if v <= u64::MAX as u128 {
                sp.push(show_big(&BigInt::from_u64(v as u64)));
                sp.push(format!("{:x}", BigInt::from_u64(v as u64).as_u64()));
            }
            Some(same(sp))
        }
        ("allones", [n]) => Some(show_big(&BigInt::all1s(n.parse().ok()?))),
        ("onehot", [n]) => Some(show_big(&BigInt::one_hot(n.parse().ok()?))),
        _ => None,
    }
}

fn nanify64(b: u64) -> String {
    if f64::from_bits(b).is_nan() { "nan".to_string() } else { format!("{}", b) }
}
fn nanify32(b: u32) -> String {
    if f32::from_bits(b).is_nan() { "nan".to_string() } else { format!("{}", b) }
}
/// C07: the crate on FP64/FP32 values next to the host's native operation
fn nat_op(wide: bool, op: &str, a: u64, b: u64) -> Option<String> {
    if wide {
        let (fa, fb) = (f64::from_bits(a), f64::from_bits(b));
        let (x, y) = (Float::from_f64(fa), Float::from_f64(fb));
        let o = |v: Float, n: f64| Some(format!("{}\t{}", nanify64(v.as_f64().to_bits()), nanify64(n.to_bits())));
        match op {
            "add" => o(x + y, fa + fb),
            "sub" => o(x - y, fa - fb),
            "mul" => o(x * y, fa * fb),
            "div" => o(x / y, fa / fb),
            "rem" => o(x.rem(&y), fa % fb),
            "trunc" => o(x.trunc(), fa.trunc()),
            "round" => o(x.round(), fa.round()),
            "tof32" => Some(format!("{}\t{}", nanify32(x.as_f32().to_bits()), nanify32((fa as f32).to_bits()))),
            "cmp" => Some(format!(
                "{}{}{}{}{}\t{}{}{}{}{}",
                b01(x < y), b01(x <= y), b01(x > y), b01(x >= y), b01(x == y),
                b01(fa < fb), b01(fa <= fb), b01(fa > fb), b01(fa >= fb), b01(fa == fb)
            )),
            _ => None,
        }
    } else {
        let (fa, fb) = (f32::from_bits(a as u32), f32::from_bits(b as u32));
        let (x, y) = (Float::from_f32(fa), Float::from_f32(fb));
        let o = |v: Float, n: f32| Some(format!("{}\t{}", nanify32(v.as_f32().to_bits()), nanify32(n.to_bits())));
        match op {
            "add" => o(x + y, fa + fb),
            "sub" => o(x - y, fa - fb),
            "mul" => o(x * y, fa * fb),
            "div" => o(x / y, fa / fb),
            "rem" => o(x.rem(&y), fa % fb),
            "trunc" => o(x.trunc(), fa.trunc()),
            "round" => o(x.round(), fa.round()),
            "cmp" => Some(format!(
                "{}{}{}{}{}\t{}{}{}{}{}",
                b01(x < y), b01(x <= y), b01(x > y), b01(x >= y), b01(x == y),
                b01(fa < fb), b01(fa <= fb), b01(fa > fb), b01(fa >= fb), b01(fa == fb)
            )),
            _ => None,
        }
    }
}

/// C07, hardware side: every f32 pattern `lo, lo+stride, ..` below `hi` through the unary paths and a few fixed partners,
/// the crate's FP32 result against the host's native operation (NaN payloads aside).
fn f32_sweep(lo: u64, hi: u64, stride: u64) -> String {
    let eq = |a: u32, b: u32| a == b || (f32::from_bits(a).is_nan() && f32::from_bits(b).is_nan());
    let partners: [f32; 6] = [1.0, 3.0, -0.1, 1.0e-38, 16777216.0, 3.4e38];
    let mut n: u64 = 0;
    let mut b = lo;
    while b < hi {
        let bits = b as u32;
        let x = f32::from_bits(bits);
        let fx = Float::from_f32(x);
        let bad = |op: &str, got: u32, want: u32| format!("MISMATCH {} bits={:#010x} got={:#010x} want={:#010x}", op, bits, got, want);
        let st = fx.as_f32().to_bits();
        if !eq(st, bits) {
            return bad("load-store", st, bits);
        }
        let w = Float::from_f64(x as f64).as_f32().to_bits();
        if !eq(w, bits) {
            return bad("f64-to-f32", w, bits);
        }
        let t = fx.trunc().as_f32().to_bits();
        if !eq(t, x.trunc().to_bits()) {
            return bad("trunc", t, x.trunc().to_bits());
        }
        let r = fx.round().as_f32().to_bits();
        if !eq(r, x.round().to_bits()) {
            return bad("round", r, x.round().to_bits());
        }
        let q = partners[(b % 6) as usize];
        let fq = Float::from_f32(q);
        let checks: [(&str, u32, u32); 4] = [
            ("add", (&fx + &fq).as_f32().to_bits(), (x + q).to_bits()),
            ("sub", (&fq - &fx).as_f32().to_bits(), (q - x).to_bits()),
            ("mul", (&fx * &fq).as_f32().to_bits(), (x * q).to_bits()),
            ("div", (&fx / &fq).as_f32().to_bits(), (x / q).to_bits()),
        ];
        for (op, got, want) in checks.iter() {
            if !eq(*got, *want) {
                return format!("MISMATCH {} bits={:#010x} partner={:e} got={:#010x} want={:#010x}", op, bits, q, got, want);
            }
        }
        if (fx < fq) != (x < q) || (fx == fq) != (x == q) || (fx >= fq) != (x >= q) {
            return format!("MISMATCH cmp bits={:#010x} partner={:e}", bits, q);
        }
        n += 1;
        b += stride;
    }
    format!("ok {}", n)
}

fn handle(t: &[&str]) -> Option<String> {
    if t.len() == 4 && t[0] == "f32sweep" {
        return Some(f32_sweep(t[1].parse().ok()?, t[2].parse().ok()?, t[3].parse().ok()?));
    }
    if t.len() == 4 && (t[0] == "nat64" || t[0] == "nat32") {
        return nat_op(t[0] == "nat64", t[1], t[2].parse().ok()?, t[3].parse().ok()?);
    }
    if t.len() >= 2 && t[0] == "big" {
        return big_op(t[1], &t[2..]);
    }
    if t.len() >= 2 && t[0] == "misc" {
        // glue around the core: Display for Semantics, RoundingMode::as_string, get_decimal_accuracy,
        // BigInt::pseudorandom (the LFSR of utils.rs), BigInt::default
        return match (t[1], &t[2..]) {
            ("sem", [s]) => {
                let f = parse_sem(s)?;
                let z = Float::zero(f, false);
                Some(format!("{}|{}|{}", f, f.get_rounding_mode().as_string(), z.get_decimal_accuracy()))
            }
            ("prand", [parts, seed]) => {
                let b = BigInt::pseudorandom(parts.parse().ok()?, seed.parse().ok()?);
                Some(format!("{} {}", b.len(), show_big(&b)))
            }
            ("default", []) => {
                let b = BigInt::default();
                Some(format!("{} {}", b.len(), show_big(&b)))
            }
            _ => None,
        };
    }
    if !t.is_empty() && t[0] == "prog" {
        return run_prog(&t[1..]);
    }
    if !t.is_empty() && t[0] == "progcmp" {
        return run_prog_cmp(&t[1..]);
    }
    match t {
        ["oper", op, s, a, b] => {
            let f = parse_sem(s)?;
            let a = parse_flt(f, a)?;
            let b = parse_flt(f, b)?;
            let rm = f.get_rounding_mode();
            let mut v = Vec::new();
            match *op {
                "add" => {
                    v.push(show_flt(&Float::add_with_rm(&a, &b, rm)));
                    v.push(show_flt(&(a.clone() + b.clone())));
                    v.push(show_flt(&(&a + &b)));
                    v.push(show_flt(&(&a + b.clone())));
                    let mut x = a.clone();
                    x += b.clone();
                    v.push(show_flt(&x));
                    let mut x = a.clone();
                    x += &b;
                    v.push(show_flt(&x));
                }
                "sub" => {
                    v.push(show_flt(&Float::sub_with_rm(&a, &b, rm)));
                    v.push(show_flt(&(a.clone() - b.clone())));
                    v.push(show_flt(&(&a - &b)));
                    v.push(show_flt(&(&a - b.clone())));
                    let mut x = a.clone();
                    x -= b.clone();
                    v.push(show_flt(&x));
                    let mut x = a.clone();
                    x -= &b;
                    v.push(show_flt(&x));
                }
                "mul" => {
                    v.push(show_flt(&Float::mul_with_rm(&a, &b, rm)));
                    v.push(show_flt(&(a.clone() * b.clone())));
                    v.push(show_flt(&(&a * &b)));
                    v.push(show_flt(&(&a * b.clone())));
                    let mut x = a.clone();
                    x *= b.clone();
                    v.push(show_flt(&x));
                    let mut x = a.clone();
                    x *= &b;
                    v.push(show_flt(&x));
                }
                "div" => {
                    v.push(show_flt(&Float::div_with_rm(&a, &b, rm)));
                    v.push(show_flt(&(a.clone() / b.clone())));
                    v.push(show_flt(&(&a / &b)));
                    v.push(show_flt(&(&a / b.clone())));
                    let mut x = a.clone();
                    x /= b.clone();
                    v.push(show_flt(&x));
                    let mut x = a.clone();
                    x /= &b;
                    v.push(show_flt(&x));
                }
                _ => return None,
            }
            Some(all_same(&v))
        }
        ["operu", op, s, a, n] => {
            let f = parse_sem(s)?;
            let a = parse_flt(f, a)?;
            let n: u64 = n.parse().ok()?;
            let rm = f.get_rounding_mode();
            let b = Float::from_u64(f, n);
            let mut v = Vec::new();
            match *op {
                "add" => {
                    v.push(show_flt(&Float::add_with_rm(&a, &b, rm)));
                    v.push(show_flt(&(a.clone() + n)));
                    v.push(show_flt(&(&a + n)));
                }
                "sub" => {
                    v.push(show_flt(&Float::sub_with_rm(&a, &b, rm)));
                    v.push(show_flt(&(a.clone() - n)));
                    v.push(show_flt(&(&a - n)));
                }
                "mul" => {
                    v.push(show_flt(&Float::mul_with_rm(&a, &b, rm)));
                    v.push(show_flt(&(a.clone() * n)));
                    v.push(show_flt(&(&a * n)));
                }
                "div" => {
                    v.push(show_flt(&Float::div_with_rm(&a, &b, rm)));
                    v.push(show_flt(&(a.clone() / n)));
                    v.push(show_flt(&(&a / n)));
                }
                _ => return None,
            }
            Some(all_same(&v))
        }
        ["add", s, r, a, b] | ["sub", s, r, a, b] | ["mul", s, r, a, b] | ["div", s, r, a, b] => {
            let f = parse_sem(s)?;
            let rm = parse_rm(r)?;
            let a = parse_flt(f, a)?;
            let b = parse_flt(f, b)?;
            let r = match t[0] {
                "add" => Float::add_with_rm(&a, &b, rm),
                "sub" => Float::sub_with_rm(&a, &b, rm),
                "mul" => Float::mul_with_rm(&a, &b, rm),
                _ => Float::div_with_rm(&a, &b, rm),
            };
            Some(show_flt(&r))
        }
        ["cast", s, g, r, a] => {
            let f = parse_sem(s)?;
            let g = parse_sem(g)?;
            let rm = parse_rm(r)?;
            let a = parse_flt(f, a)?;
            Some(show_flt(&a.cast_with_rm(g, rm)))
        }
        ["castd", s, g, a] => {
            let f = parse_sem(s)?;
            let g = parse_sem(g)?;
            let a = parse_flt(f, a)?;
            Some(show_flt(&a.cast(g)))
        }
        ["scale", s, r, k, a] => {
            let f = parse_sem(s)?;
            let rm = parse_rm(r)?;
            let k: i64 = k.parse().ok()?;
            let a = parse_flt(f, a)?;
            Some(show_flt(&a.scale(k, rm)))
        }
        ["frombig", s, h] => {
            let f = parse_sem(s)?;
            Some(show_flt(&Float::from_bigint(f, parse_big(h)?)))
        }
        ["fromu64", s, d] => {
            let f = parse_sem(s)?;
            Some(show_flt(&Float::from_u64(f, d.parse().ok()?)))
        }
        ["fromi64", s, d] => {
            let f = parse_sem(s)?;
            Some(show_flt(&Float::from_i64(f, d.parse().ok()?)))
        }
        ["toi64", s, a] => {
            let f = parse_sem(s)?;
            Some(format!("{}", parse_flt(f, a)?.to_i64()))
        }
        ["trunc", s, a] => Some(show_flt(&parse_flt(parse_sem(s)?, a)?.trunc())),
        ["round", s, a] => Some(show_flt(&parse_flt(parse_sem(s)?, a)?.round())),
        ["abs", s, a] => Some(show_flt(&parse_flt(parse_sem(s)?, a)?.abs())),
        ["neg", s, a] => Some(show_flt(&parse_flt(parse_sem(s)?, a)?.neg())),
        ["sqrt", s, a] => Some(show_flt(&parse_flt(parse_sem(s)?, a)?.sqrt())),
        ["canon", s, a] => Some(b01(is_canonical(&parse_flt(parse_sem(s)?, a)?)).to_string()),
        ["cmp", s, a, b] => {
            let f = parse_sem(s)?;
            let a = parse_flt(f, a)?;
            let b = parse_flt(f, b)?;
            #[allow(clippy::eq_op)]
            Some(format!(
                "{} {} {} {} {} {} {} {}",
                show_ord(a.partial_cmp(&b)),
                b01(a < b),
                b01(a <= b),
                b01(a > b),
                b01(a >= b),
                b01(a == b),
                show_flt(&a.min(&b)),
                show_flt(&a.max(&b))
            ))
        }
        ["rem", s, a, b] => {
            let f = parse_sem(s)?;
            let a = parse_flt(f, a)?;
            let b = parse_flt(f, b)?;
            Some(show_flt(&a.rem(&b)))
        }
        ["powi", s, n, a] => {
            let f = parse_sem(s)?;
            let n: u64 = n.parse().ok()?;
            Some(show_flt(&parse_flt(f, a)?.powi(n)))
        }
        ["disp", s, a] => Some(parse_flt(parse_sem(s)?, a)?.to_string()),
        ["parse", s, h] => {
            let f = parse_sem(s)?;
            let bytes: Vec<u8> = if *h == "-" {
                Vec::new()
            } else {
                if h.len() % 2 != 0 {
                    return None;
                }
                let mut v = Vec::new();
                for i in (0..h.len()).step_by(2) {
                    v.push(u8::from_str_radix(&h[i..i + 2], 16).ok()?);
                }
                v
            };
            let st = String::from_utf8(bytes).ok()?;
            let show = |r: Result<Float, _>| match r {
                Ok(x) => format!("ok {}", show_flt(&x)),
                Err::<Float, _>(e) => all_same(&[format!("err {}", e), format!("err {:?}", e)]),
            };
            let mut sp = vec![show(Float::try_from_str(&st, f))];
            if f == arpfloat::FP64 {
                // `TryFrom<&str>` parses with the FP64 semantics
                sp.push(show(Float::try_from(st.as_str())));
            }
            Some(all_same(&sp))
        }
        ["const", name, s] => {
            let f = parse_sem(s)?;
            Some(show_flt(&match *name {
                "pi" => Float::pi(f),
                "e" => Float::e(f),
                "ln2" => Float::ln2(f),
                _ => return None,
            }))
        }
        ["fn", name, s, a] => {
            let x = parse_flt(parse_sem(s)?, a)?;
            Some(show_flt(&match *name {
                "exp" => x.exp(),
                "log" => x.log(),
                "sigmoid" => x.sigmoid(),
                "sin" => x.sin(),
                "cos" => x.cos(),
                "tan" => x.tan(),
                "sqr" => x.sqr(),
                _ => return None,
            }))
        }
        ["pow", s, a, b] => {
            let f = parse_sem(s)?;
            Some(show_flt(&parse_flt(f, a)?.pow(&parse_flt(f, b)?)))
        }
        ["frac", s, n, a] => {
            let f = parse_sem(s)?;
            let (p, q) = parse_flt(f, a)?.as_fraction(n.parse().ok()?);
            Some(format!("{}/{}", show_big(&p), show_big(&q)))
        }
        ["f32", d] => {
            let b: u32 = d.parse().ok()?;
            let x = Float::from_f32(f32::from_bits(b));
            Some(format!("{} {}", show_flt(&x), x.as_f32().to_bits()))
        }
        ["f64", d] => {
            let b: u64 = d.parse().ok()?;
            let x = Float::from_f64(f64::from_bits(b));
            Some(format!("{} {} {}", show_flt(&x), x.as_f64().to_bits(), x.as_f32().to_bits()))
        }
        _ => None,
    }
}

fn main() {
    std::panic::set_hook(Box::new(|_| {}));
    let flush = std::env::var("ARPH_FLUSH").map(|v| v == "1").unwrap_or(false);
    let stdin = std::io::stdin();
    let stdout = std::io::stdout();
    let mut out = std::io::BufWriter::with_capacity(1 << 16, stdout.lock());
    for line in stdin.lock().lines() {
        let line = match line {
            Ok(l) => l,
            Err(_) => break,
        };
        let toks: Vec<&str> = line.split_ascii_whitespace().collect();
        let res = catch_unwind(AssertUnwindSafe(|| handle(&toks)));
        let s = match res {
            Ok(Some(s)) => s,
            Ok(None) => "bad-op".to_string(),
            Err(_) => "PANIC".to_string(),
        };
        let _ = writeln!(out, "{}", s);
        if flush {
            let _ = out.flush();
        }
    }
    let _ = out.flush();
}
