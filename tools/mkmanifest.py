#!/usr/bin/env python3
"""Regenerates /verif/MANIFEST.json from the table below (single source of truth for the interface)."""
import json
import os

VERIF = os.path.dirname(os.path.dirname(os.path.abspath(__file__)))
ALL = ["C%02d" % i for i in range(1, 21)]

# property -> (claimed?, design section, level text, level note, technique)
T = {}


def claim(pid, ref, text, note, tech="Lean 4 theorems about a hand-written model + correspondence run against the real crate"):
    T[pid] = (ref, text, note, tech)


BASE_NOTE = ("Trusted: Lean 4.33 kernel; axioms propext, Classical.choice, Quot.sound only (audited per theorem on every run); "
             "the hand-written Lean model of the Rust code, tied to /repo on every run by executing model and crate on the same inputs "
             "(exhaustive over small formats, class-structured sampling elsewhere) - tested, not proved; Nat abstraction of BigInt; rustc.")

exec(open(os.path.join(VERIF, "tools", "claims.py")).read())

checks = []
for pid in ALL:
    if pid not in T:
        continue
    ref, text, note, tech = T[pid]
    checks.append({
        "property_id": pid,
        "quick_cmd": "./check.py %s --tier quick" % pid,
        "thorough_cmd": "./check.py %s --tier thorough" % pid,
        "evidence_file": "/verif/evidence/%s.json" % pid,
        "replay_cmd_template": "./check.py %s --replay {path}" % pid,
        "engine": "arp-lean",
        "level_claimed": {"category": "proof", "text": text, "design_ref": ref},
        "level_note": note,
        "technique": tech,
    })

NA = globals().get("NOT_APPLICABLE", {})
m = {
    "version": 1,
    "setup_cmd": "./setup.sh",
    "hooks": {
        "guard": "arpfloat_verif",
        "enable": "no hooks are needed: the harness uses the public API of the crate only (path dependency on /repo); the guard name is reserved",
        "baseline_off_cmd": "cd /repo && cargo test --workspace --no-fail-fast --offline",
        "source_commits": [],
        "add_only": True,
    },
    "engines": [{
        "name": "arp-lean", "path": "/verif/lean",
        "serves_properties": [c["property_id"] for c in checks],
        "kind_free_text": "Lean 4 model (Arp/Model), specification (Arp/Spec), theorems (Arp/Props), compiled line-protocol driver arpdrv; Rust harness /verif/harness; orchestrator check.py",
    }],
    "checks": checks,
    "not_applicable": [{"property_id": p, "reason": NA.get(p, "check under construction in this session; not yet claimed")} for p in ALL if p not in T],
    "notes": "See DESIGN.md. Genuine defects found and repaired are listed in known_findings.json (fixed: entries) together with the open findings.",
}
json.dump(m, open(os.path.join(VERIF, "MANIFEST.json"), "w"), indent=1)
print("claimed:", [c["property_id"] for c in checks])
