#!/usr/bin/env python3
"""tools/coverage.py [C01 C02 ...]   (default: all twenty)  — which lines of /repo/src do the correspondence streams execute?

The tie between the hand-written Lean model and the Rust code is a differential run; a Rust line that no stream executes is a
line on which the model could differ from the code without the check noticing.  This tool measures exactly that:

  1. builds the harness with `-C instrument-coverage` (nightly toolchain, its own target dir under work/cov),
  2. runs the quick tier of every property check in-process against that binary (evidence/replays go to work/cov/out, the
     committed evidence is not touched), collecting one .profraw per harness process,
  3. merges the profiles and asks llvm-cov for per-file line/region/function coverage of /repo/src/**,
  4. writes coverage/summary.json and coverage/uncovered.txt (every non-test source line never executed).

It is a measurement of the tie, not a check: nothing here can raise an alarm.
"""
import glob
import json
import os
import re
import shutil
import subprocess
import sys

VERIF = os.path.dirname(os.path.dirname(os.path.abspath(__file__)))
sys.path.insert(0, VERIF)
try:
    import mpmath  # noqa: F401
except Exception:
    vt = shutil.which("python3-vt")
    if vt and os.environ.get("ARP_REEXEC") != "1":
        os.environ["ARP_REEXEC"] = "1"
        os.execv(vt, [vt] + sys.argv)

from vlib import engine, props, run  # noqa: E402

COV = os.path.join(run.WORK, "cov")
TOOLS = glob.glob(os.path.expanduser("~/.rustup/toolchains/nightly-x86_64-unknown-linux-gnu/lib/rustlib/*/bin"))[0]


def main():
    pids = [a for a in sys.argv[1:] if a in props.PROPS] or sorted(props.PROPS)
    h = os.path.join(COV, "harness")
    shutil.rmtree(os.path.join(COV, "prof"), ignore_errors=True)
    os.makedirs(os.path.join(h, "src"), exist_ok=True)
    os.makedirs(os.path.join(COV, "prof"), exist_ok=True)
    for f in ("Cargo.toml", "Cargo.lock", "src/main.rs"):
        shutil.copy(os.path.join(run.HARNESS, f), os.path.join(h, f))
    env = dict(run.ENV, RUSTFLAGS="-C instrument-coverage")
    bins = {}
    for prof in ("release", "dbg"):
        args = ["cargo", "+nightly", "build", "--offline", "--quiet"] + (["--release"] if prof == "release" else ["--profile", prof])
        p = subprocess.run(args, cwd=h, env=env, capture_output=True, text=True)
        if p.returncode != 0:
            print(p.stderr[-2000:])
            return 2
        bins[prof] = os.path.join(h, "target", prof, "arpharness")
    run.build_harness = lambda profile="release": (True, "")
    run.harness_bin = lambda profile="release": bins[profile]
    run.ENV["LLVM_PROFILE_FILE"] = os.path.join(COV, "prof", "%p-%m.profraw")
    run.OUT = os.path.join(COV, "out")
    rcs = {}
    for pid in pids:
        ctx = engine.Ctx(pid, "quick", 1)
        rcs[pid] = props.PROPS[pid](ctx)
    raws = glob.glob(os.path.join(COV, "prof", "*.profraw"))
    merged = os.path.join(COV, "merged.profdata")
    lst = os.path.join(COV, "raws.txt")
    open(lst, "w").write("\n".join(raws) + "\n")
    subprocess.run([os.path.join(TOOLS, "llvm-profdata"), "merge", "-sparse", "-f", lst, "-o", merged], check=True)
    objs = ["--object=" + bins["dbg"]]
    common = [os.path.join(TOOLS, "llvm-cov")]
    exp = subprocess.run(common + ["export", "--format=text", "--instr-profile=" + merged, bins["release"]] + objs + ["--ignore-filename-regex=(cargo/registry|rustc/|harness/)"],
                         capture_output=True, text=True, check=True)
    data = json.loads(exp.stdout)["data"][0]
    out = {"properties_run": pids, "check_exit_codes": rcs, "profiles": len(raws), "files": {}, "totals": {}}
    unc = []
    tl = tc = 0
    for f in sorted(data["files"], key=lambda f: f["filename"]):
        name = f["filename"]
        if not name.startswith("/repo/src"):
            continue
        src = open(name).read().split("\n")
        # lines inside #[test] functions / test modules are not part of the library's behaviour
        test_lines = set()
        i = 0
        while i < len(src):
            if re.match(r"\s*#\[(cfg\(test\)|test)\]", src[i]):
                j = i
                while j < len(src) and "{" not in src[j]:
                    j += 1
                depth = 0
                k = j
                while k < len(src):
                    depth += src[k].count("{") - src[k].count("}")
                    test_lines.add(k + 1)
                    if depth <= 0 and k >= j:
                        break
                    k += 1
                for q in range(i, j + 1):
                    test_lines.add(q + 1)
                i = k + 1
            else:
                i += 1
        # segments: [line, col, count, hasCount, isRegionEntry, isGap]
        line_cnt = {}
        segs = f["segments"]
        for a, b in zip(segs, segs[1:] + [None]):
            if not a[3] or a[5]:
                continue
            end_line = b[0] if b else a[0]
            for ln in range(a[0], max(a[0], end_line if (b and b[1] > 1) else end_line - 1) + 1):
                line_cnt[ln] = max(line_cnt.get(ln, 0), a[2])
        lines = {ln: c for ln, c in line_cnt.items() if ln not in test_lines and ln <= len(src) and src[ln - 1].strip() and not src[ln - 1].strip().startswith("//")}
        cov = sum(1 for c in lines.values() if c > 0)
        out["files"][name] = {"lines": len(lines), "covered": cov, "percent": round(100.0 * cov / max(1, len(lines)), 1)}
        tl += len(lines)
        tc += cov
        run_start = None
        for ln in sorted(lines):
            if lines[ln] == 0:
                unc.append("%s:%d: %s" % (name, ln, src[ln - 1].rstrip()))
    out["totals"] = {"lines": tl, "covered": tc, "percent": round(100.0 * tc / max(1, tl), 1)}
    os.makedirs(os.path.join(VERIF, "coverage"), exist_ok=True)
    json.dump(out, open(os.path.join(VERIF, "coverage", "summary.json"), "w"), indent=1)
    open(os.path.join(VERIF, "coverage", "uncovered.txt"), "w").write("\n".join(unc) + "\n")
    print(json.dumps(out["totals"]), "uncovered lines:", len(unc))
    for k, v in out["files"].items():
        print("%-45s %5d / %5d  %5.1f%%" % (k, v["covered"], v["lines"], v["percent"]))
    shutil.rmtree(os.path.join(COV, "prof"), ignore_errors=True)
    return 0


if __name__ == "__main__":
    sys.exit(main())
