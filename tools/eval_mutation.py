#!/usr/bin/env python3
"""tools/eval_mutation.py <pid> <letter> [--checks C01,C04,...] [--tier quick]

1. confirms a seeded change produced by an independent sub-agent in /tmp/mut/<pid>:
   pristine: demo passes;  mutated: `cargo test --offline` passes (80 + 8) and the demo fails;
2. applies it to /repo, runs the listed checks (default: the property's own), records the verdicts,
   and ALWAYS restores /repo (`git checkout -- .`);
3. stores patch.diff, the demonstration and meta.json under /verif/seeded/<pid>-<letter>/.
"""
import json
import os
import re
import shutil
import subprocess
import sys
import time

pid, letter = sys.argv[1], sys.argv[2]
checks = [pid]
tier = "quick"
base = "/tmp/mut"
rnd = ""
for i, a in enumerate(sys.argv):
    if a == "--src":
        base = sys.argv[i + 1]
    if a == "--round":
        rnd = sys.argv[i + 1]
    if a == "--checks":
        checks = sys.argv[i + 1].split(",")
    if a == "--tier":
        tier = sys.argv[i + 1]
src = "%s/%s" % (base, pid)
diff = os.path.join(src, "mutation_%s.diff" % letter)
demo = os.path.join(src, "demo_%s.rs" % letter)
notes = os.path.join(src, "notes_%s.txt" % letter)
assert os.path.exists(diff) and os.path.exists(demo), "missing deliverables"
ENV = dict(os.environ, CARGO_NET_OFFLINE="true")


def sh(cmd, cwd=None, timeout=1800):
    p = subprocess.run(cmd, shell=True, cwd=cwd, capture_output=True, text=True, env=ENV, timeout=timeout)
    return p.returncode, p.stdout + p.stderr


wt = "/tmp/mutcheck/%s%s%s" % (pid, letter, rnd)
import fcntl
os.makedirs("/tmp/mutcheck", exist_ok=True)
with open("/tmp/mutcheck/.lock", "w") as _lk:   # several evaluations may run at once
    fcntl.flock(_lk, fcntl.LOCK_EX)
    shutil.rmtree(wt, ignore_errors=True)
    sh("git -C /repo worktree prune")
    rc, out = sh("git -C /repo worktree add --detach %s HEAD" % wt)
assert rc == 0, out
meta = {"property": pid, "id": "%s-%s%s" % (pid, letter, rnd), "source": "independent sub-agent given only the property text and a scratch worktree",
        "repo_head": sh("git -C /repo rev-parse --short HEAD")[1].strip(), "ran": []}
ok = True
try:
    os.makedirs(os.path.join(wt, "examples"), exist_ok=True)
    shutil.copy(demo, os.path.join(wt, "examples", "demo_%s.rs" % letter))
    rc, out = sh("cargo run --offline --release --example demo_%s" % letter, cwd=wt)
    meta["demo_on_pristine"] = {"rc": rc, "tail": out[-300:]}
    meta["ran"].append("pristine: cargo run --offline --release --example demo_%s -> rc %d" % (letter, rc))
    if rc != 0:
        ok = False
    rc, out = sh("git apply %s" % diff, cwd=wt)
    if rc != 0:
        ok = False
        meta["apply_error"] = out[-500:]
    rc, out = sh("cargo test --offline 2>&1 | grep -E '^test result' ", cwd=wt)
    res = re.findall(r"test result: (\w+)\. (\d+) passed; (\d+) failed", out)
    meta["tests_with_change"] = res
    meta["ran"].append("mutated: cargo test --offline -> %s" % res)
    if not res or any(r[0] != "ok" for r in res) or sum(int(r[1]) for r in res) < 88:
        ok = False
    rc, out = sh("cargo run --offline --release --example demo_%s" % letter, cwd=wt, timeout=600)
    meta["demo_with_change"] = {"rc": rc, "tail": out[-400:]}
    meta["ran"].append("mutated: demo -> rc %d" % rc)
    if rc == 0:
        ok = False
except subprocess.TimeoutExpired:
    meta["demo_with_change"] = {"rc": "timeout"}
    meta["ran"].append("mutated: demo -> timeout (hang)")
finally:
    if not ("--scratch" in sys.argv and ok):
        sh("git -C /repo worktree remove --force %s" % wt)
        shutil.rmtree(wt, ignore_errors=True)
meta["confirmed"] = ok
meta["needs"] = open(notes).read().strip() if os.path.exists(notes) else ""
verdicts = {}


def run_checks(env_extra, label):
    for c in checks:
        t0 = time.time()
        p = subprocess.run("./check.py %s --tier %s" % (c, tier), shell=True, cwd="/verif", capture_output=True, text=True,
                           env=dict(ENV, **env_extra), timeout=5400)
        rc, out = p.returncode, p.stdout + p.stderr
        lines = [l for l in out.splitlines() if l.startswith("VIOLATION") or l.startswith("KNOWN-FINDING")]
        verdicts[c] = {"rc": rc, "lines": lines[:3], "wall_s": round(time.time() - t0, 1), "summary": out.strip().splitlines()[-1] if out.strip() else "", "how": label}
        m = re.search(r"replay=(\S+)", out)
        if m and os.path.exists(m.group(1)):
            d = json.load(open(m.group(1)))
            verdicts[c]["first_case"] = (d.get("cases") or d.get("broken_obligations") or [None])[0]


if ok and "--scratch" in sys.argv:
    # the changed tree stays in its scratch worktree; the check builds its harness against it (ARP_EVAL_REPO), /repo is untouched
    try:
        sh("rm -rf %s/examples/demo_%s.rs %s/target" % (wt, letter, wt))
        run_checks({"ARP_EVAL_REPO": wt}, "check run against the scratch worktree holding the change (ARP_EVAL_REPO); /repo untouched")
    finally:
        import hashlib
        shutil.rmtree("/verif/work/eval-" + hashlib.md5(wt.encode()).hexdigest()[:8], ignore_errors=True)
        sh("git -C /repo worktree remove --force %s" % wt)
        shutil.rmtree(wt, ignore_errors=True)
elif ok:
    rc, out = sh("git -C /repo status --porcelain")
    assert out.strip() == "", "/repo not clean: " + out
    try:
        rc, out = sh("git -C /repo apply %s" % diff)
        assert rc == 0, out
        run_checks({}, "change applied to /repo, check run, /repo restored")
    finally:
        sh("git -C /repo checkout -- .")
meta["checks"] = verdicts
meta["caught_by"] = [c for c, v in verdicts.items() if v["rc"] == 1]
dst = "/verif/seeded/%s-%s%s" % (pid, letter, rnd)
os.makedirs(dst, exist_ok=True)
if ok:
    shutil.copy(diff, os.path.join(dst, "patch.diff"))
    shutil.copy(demo, os.path.join(dst, "demo.rs"))
    json.dump(meta, open(os.path.join(dst, "meta.json"), "w"), indent=1)
else:
    shutil.rmtree(dst, ignore_errors=True)
print(json.dumps({"id": meta["id"], "confirmed": ok, "caught_by": meta["caught_by"], "verdicts": {c: (v["rc"], v["lines"][:1]) for c, v in verdicts.items()},
                  "why_not": None if ok else {k: meta.get(k) for k in ("demo_on_pristine", "tests_with_change", "demo_with_change", "apply_error")}}, indent=1))
