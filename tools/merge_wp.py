#!/usr/bin/env python3
"""tools/merge_wp.py <wpdir> <suffix> <file>...  : copy files of a work package into /verif/lean,
renaming (with _<suffix>) every top-level declaration name that already exists in another Arp/Lemmas or Arp/Props file."""
import os, re, sys, glob
wp, suf = sys.argv[1], sys.argv[2]
files = sys.argv[3:]
LEAN = '/verif/lean'
decl = re.compile(r'^(?:@\[[^\]]*\]\s*)?(?:private\s+|protected\s+|noncomputable\s+)*(?:theorem|lemma|def|instance|abbrev|structure|inductive)\s+([A-Za-z_][\w\.\']*)', re.M)
def names_of(path, ns_aware=True):
    s = open(path).read()
    # crude namespace tracking
    out = set()
    ns = []
    for line in s.split('\n'):
        m = re.match(r'^namespace\s+(\S+)', line)
        if m: ns.append(m.group(1)); continue
        m = re.match(r'^end\s+(\S+)', line)
        if m and ns and ns[-1] == m.group(1): ns.pop(); continue
        m = decl.match(line)
        if m: out.add(('.'.join(ns) + '.' if ns else '') + m.group(1))
    return out
existing = set()
newset = {os.path.normpath(os.path.join(LEAN, f)) for f in files}
for p in glob.glob(LEAN + '/Arp/Lemmas/*.lean') + glob.glob(LEAN + '/Arp/Props/*.lean'):
    if os.path.normpath(p) in newset: continue
    existing |= names_of(p)
clash = set()
for f in files:
    for n in names_of(os.path.join(wp, f)):
        if n in existing: clash.add(n)
short = sorted({n.split('.', 1)[1] if n.startswith('Arp.') else n for n in clash})
# strip inner namespaces for short names e.g. Arp.C08.foo -> foo as written in file
short2 = set()
for n in clash:
    parts = n.split('.')
    # the name as written at the declaration site = last components after the namespaces; try all suffixes
    for k in range(len(parts)):
        short2.add('.'.join(parts[k:]))
print('clashes:', sorted(clash))
# names as written at their declaration site (any namespace-suffix form found in some WP file)
written = set()
for n in clash:
    parts = n.split('.')
    for f in files:
        s = open(os.path.join(wp, f)).read()
        for k in range(len(parts)):
            w = '.'.join(parts[k:])
            if re.search(r'(?:theorem|lemma|def|instance|abbrev)\s+' + re.escape(w) + r'(?![\w\'])', s):
                written.add(w)
                break
print('renaming:', sorted(written))
for f in files:
    s = open(os.path.join(wp, f)).read()
    for w in sorted(written, key=len, reverse=True):
        s = re.sub(r'(?<![\w\.])' + re.escape(w) + r'(?![\w\'])', w + '_' + suf, s)
        # dotted uses through an opened/enclosing namespace, e.g. `Arp.foo`
        s = re.sub(r'(?<=\.)' + re.escape(w) + r'(?![\w\'])', w + '_' + suf, s)
    dst = os.path.join(LEAN, f)
    open(dst, 'w').write(s)
    print('wrote', dst)
